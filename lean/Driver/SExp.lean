/-
  Line protocol: s-expressions. Atoms are percent-encoded (`%e` = empty string, `%xx` = byte).
  Driver glue (not part of any proof).
-/
namespace Driver

inductive SExp
  | atom (s : String)
  | list (xs : List SExp)
  deriving Repr, Inhabited, BEq

def hexVal (c : Char) : Nat :=
  if '0' ≤ c ∧ c ≤ '9' then c.toNat - '0'.toNat
  else if 'a' ≤ c ∧ c ≤ 'f' then c.toNat - 'a'.toNat + 10
  else if 'A' ≤ c ∧ c ≤ 'F' then c.toNat - 'A'.toNat + 10
  else 0

partial def decodeAtom (cs : List Char) (acc : List Char) : String :=
  match cs with
  | [] => String.ofList acc.reverse
  | '%' :: 'e' :: rest => decodeAtom rest acc
  | '%' :: a :: b :: rest => decodeAtom rest (Char.ofNat (hexVal a * 16 + hexVal b) :: acc)
  | c :: rest => decodeAtom rest (c :: acc)

inductive Tok | lp | rp | at (s : String)
  deriving Repr

partial def tokenize (cs : List Char) (cur : List Char) (acc : List Tok) : List Tok :=
  let flush (acc : List Tok) := if cur.isEmpty then acc else Tok.at (decodeAtom cur.reverse []) :: acc
  match cs with
  | [] => (flush acc).reverse
  | '(' :: rest => tokenize rest [] (Tok.lp :: flush acc)
  | ')' :: rest => tokenize rest [] (Tok.rp :: flush acc)
  | c :: rest =>
    if c == ' ' || c == '\n' || c == '\t' || c == '\r' then tokenize rest [] (flush acc)
    else tokenize rest (c :: cur) acc

/-- parse one expression; returns it and the remaining tokens -/
partial def parseOne : List Tok → Option (SExp × List Tok)
  | [] => none
  | Tok.at s :: rest => some (.atom s, rest)
  | Tok.rp :: _ => none
  | Tok.lp :: rest =>
    let rec go (ts : List Tok) (acc : List SExp) : Option (SExp × List Tok) :=
      match ts with
      | [] => none
      | Tok.rp :: rest => some (.list acc.reverse, rest)
      | ts => match parseOne ts with
        | some (e, rest) => go rest (e :: acc)
        | none => none
    go rest []

def parseLine (line : String) : Option SExp :=
  match parseOne (tokenize line.toList [] []) with
  | some (e, []) => some e
  | _ => none

def SExp.str : SExp → Option String
  | .atom s => some s
  | _ => none

def SExp.items : SExp → Option (List SExp)
  | .list xs => some xs
  | _ => none

partial def SExp.render : SExp → String
  | .atom s => if s.isEmpty then "%e" else s
  | .list xs => "(" ++ " ".intercalate (xs.map SExp.render) ++ ")"

end Driver
