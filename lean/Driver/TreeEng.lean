/- tree engine: behavioural conformance of whole trees at quiescence (stepwise regime) -/
import Driver.Decode
import Driver.CacheEng
import KcacheModel.Sys
namespace Driver
open KC

structure TState where
  sys : Sys := {}
  /-- filter most recently set on a filtered node (none for a deferred node before any Refilter) -/
  curFilter : List (Nat × Filter) := []
  /-- caches observed in the current observation round -/
  roundCache : List (Nat × Option (List Obj)) := []
  /-- per-leaf mirror: content reconstructed by replaying the leaf's events from its Ready snapshot -/
  mirror : List (Nat × List Obj) := []
  /-- what each plain subscriber received in this round, for cross-checking siblings -/
  roundEvs : List (Nat × List (Ev Obj)) := []
  dead : Bool := false
  stepwise : Bool := true
  inBurst : Bool := false
  /-- nodes whose event streams of the current round depend on the interleaving (closed, attached or
      refiltered inside a burst, and everything below them): exact event comparison is skipped -/
  fuzzy : List Nat := []
  /-- a Close, Refilter or relist happened in the current burst (which events reach whom then depends on the schedule) -/
  fuzzyHard : Bool := false
  /-- the current observation round follows a burst -/
  burstRound : Bool := false
  /-- nodes closed inside a burst (and everything below): whether they became ready first depends on
      the interleaving, so their Ready() is never compared again -/
  loose : List Nat := []
  /-- monitors initialised during a burst round: the snapshot they were given depends on the interleaving -/
  fuzzyInit : List Nat := []
  monSeen : List Nat := []
  /-- leaves that were not drained in their previous observation (stalled consumers) -/
  wasStalled : List Nat := []
  everStalled : List Nat := []
  /-- callbacks seen so far by monitors that were ever stalled -/
  monAcc : List (Nat × List (Ev Obj)) := []
  /-- the action of the current round was `Refilter(id, f)` outside a burst -/
  lastRefilter : Option (Nat × Filter) := none
  /-- number of events buffered for a healthy leaf at the instant everything was durably blocked, before any
      virtual time passed (only recorded in scenarios without injected sleeps) -/
  instant : List (Nat × Nat) := []
  /-- nodes that received a Refilter inside the burst of the current round -/
  burstRefiltered : List Nat := []

def lookupNat {α : Type} (k : Nat) (l : List (Nat × α)) : Option α := (l.find? (·.1 == k)).map (·.2)

def setNat {α : Type} (k : Nat) (a : α) (l : List (Nat × α)) : List (Nat × α) := (k, a) :: l.filter (·.1 != k)

def setNat' (k : Nat) (l : List Nat) : List Nat := if l.contains k then l else k :: l

def decCache : SExp → Option (Option (List Obj))
  | .atom "err" => some none
  | .atom "none" => some none
  | e => (decObjs e).map some

def showObjs (l : List Obj) : String := toString (l.map fun o => s!"{o.ns}/{o.name}@{o.rv}")
def showEvs (l : List (Ev Obj)) : String :=
  toString (l.map fun e => (match e.t with | .create => "C " | .update => "U " | .delete => "D ") ++ s!"{e.obj.ns}/{e.obj.name}@{e.obj.rv}")

def perKey (l : List (Ev Obj)) (k : Key) : List (Ev Obj) := l.filter (·.obj.key == k)

/-- same multiset, and the same order among the events of each key -/
def sameUpToBatchOrder (a b : List (Ev Obj)) : Bool :=
  sameMultiset a b && (a.map (·.obj.key)).eraseDups.all (fun k =>
    let x := perKey a k; let y := perKey b k
    x.length == y.length && (x.zip y).all (fun p => evEq p.1 p.2))

def replayObjs (evs : List (Ev Obj)) (l : List Obj) : Option (List Obj) :=
  let a0 : AMap Key Obj := abs (itemsOf l)
  match replay Obj.key oVer evs a0 with
  | none => none
  | some a' =>
    let keys := (l.map (·.key) ++ evs.map (·.obj.key)).eraseDups
    some (keys.filterMap fun k => (a' k).map (·.obj))

def kindOf (st : TState) (id : Nat) : String := ((st.sys.node id).map (·.kind)).getD "?"

def subtreeIds (s : Sys) (id : Nat) : List Nat :=
  (List.range s.nodes.length).filter (fun i => descendantOf s.fuel s id i)

def treeAct (st : TState) (a : SAct) : TState × String :=
  let sys' := st.sys.act a
  let fz : List Nat :=
    if !st.inBurst then [] else
    match a with
    | .close id => st.fuzzy ++ subtreeIds sys' id
    | .refilter id _ => st.fuzzy ++ subtreeIds sys' id
    | .attach id _ _ _ => st.fuzzy ++ [id]
    | .relist => st.fuzzy ++ List.range sys'.nodes.length
    -- the first list completes inside the burst: whether a change of the same instant reaches a node as an event or is
    -- already in the content it syncs from when it becomes ready is the schedule's choice
    | .release => st.fuzzy ++ List.range sys'.nodes.length
    -- the root goes down inside the burst: which of the changes still on their way are delivered before is the schedule's choice
    | .closeRoot => st.fuzzy ++ List.range sys'.nodes.length
    | _ => st.fuzzy
  let hard : Bool := st.inBurst && (st.fuzzyHard || (match a with
    | .close _ | .refilter _ _ | .relist | .closeRoot | .release => true
    | _ => false))
  let loose := match a with
    | .close id => if st.inBurst then st.loose ++ subtreeIds sys' id else st.loose
    | .closeRoot => if st.inBurst then List.range sys'.nodes.length else st.loose
    | _ => st.loose
  let lr := match a with
    | .refilter id f => if st.inBurst then none else some (id, f)
    | _ => none
  let br := match a with
    | .refilter id _ => if st.inBurst then id :: st.burstRefiltered else []
    | _ => if st.inBurst then st.burstRefiltered else []
  ({ st with sys := sys', roundCache := [], roundEvs := [], fuzzy := fz, fuzzyHard := hard, burstRound := st.inBurst, loose := loose,
             lastRefilter := lr, burstRefiltered := br }, "ok")

def treeLine (st : TState) (e : SExp) : TState × String :=
  match e with
  | .list [.atom "scenario", _, .atom mode] => ({ stepwise := mode != "overlap" }, "ok")
  | .list [.atom "scenario", _] => ({}, "ok")
  | .list [.atom "end"] => (st, "ok")
  | _ =>
  if st.dead then (st, "skip") else
  match e with
  | .list [.atom "srv", .atom t, o] =>
    match decEvT t, decObj o with
    | some t, some o => treeAct st (.srv t o)
    | _, _ => (st, "bad srv")
  | .list [.atom "start", f, g] =>
    match decFilter f, decBool g with
    | some f, some g => treeAct st (.start f g)
    | _, _ => (st, "bad start")
  | .list [.atom "release"] => treeAct st .release
  | .list [.atom "relist"] => treeAct st .relist
  | .list [.atom "attach", .atom id, .atom p, .atom kind, f] =>
    match id.toNat?, p.toNat? with
    | some id, some p =>
      let fo := match f with | .atom "nil" => none | f => decFilter f
      let st := if kind == "subf" || kind == "clonef" then { st with curFilter := setNat id (fo.getD .all) st.curFilter } else st
      treeAct st (.attach id p kind fo)
    | _, _ => (st, "bad attach")
  | .list [.atom "refilter", .atom id, f] =>
    match id.toNat?, decFilter f with
    | some id, some f => treeAct { st with curFilter := setNat id f st.curFilter } (.refilter id f)
    | _, _ => (st, "bad refilter")
  | .list [.atom "close", .atom id] =>
    match id.toNat? with
    | some id => treeAct st (.close id)
    | none => (st, "bad close")
  | .list [.atom "closeroot"] => treeAct st .closeRoot
  | .list [.atom "cancel"] => treeAct st .closeRoot
  | .list [.atom "stall", .atom id] =>
    match id.toNat? with
    | some id => treeAct { st with everStalled := setNat' id st.everStalled } (.stall id)
    | none => (st, "bad stall")
  | .list [.atom "unstall", .atom id] =>
    match id.toNat? with
    | some id => treeAct st (.unstall id)
    | none => (st, "bad unstall")
  | .list [.atom "sip", .atom id, evs] =>
    -- a slow plain subscriber reads a few events and stops again. They must come from the head of what it was
    -- offered: per key a prefix of that key's events (the read may stop in the middle of a batch, whose order
    -- is free), and nothing that was not offered; what is left stays in the model's buffer
    match id.toNat?, decEvs evs with
    | some id, some ievs =>
      let mevs := st.sys.pendingOf id
      let keys := (ievs.map (·.obj.key)).eraseDups
      let prefixOk := keys.all (fun k =>
        let x := perKey ievs k; let y := perKey mevs k
        x.length ≤ y.length && (x.zip y).all (fun p => evEq p.1 p.2))
      -- the events read lie within the first (k + one batch) of the buffer: a batch has at most 2 x keys events
      let within := ievs.all (fun e => ((mevs.take (ievs.length + 8)).filter (evEq e)).length > 0)
      if !(prefixOk && within) then
        ({ st with dead := true }, s!"reject C05/C10 slow sub node {id} read {showEvs ievs}, the head of what it was offered is {showEvs (mevs.take ievs.length)}")
      else
        let rest := ievs.foldl (fun (m : List (Ev Obj)) e =>
          match m.findIdx? (evEq e) with
          | some i => m.eraseIdx i
          | none => m) mevs
        ({ st with sys := st.sys.sipTo id rest }, "ok")
    | _, _ => (st, "bad sip")
  | .list [.atom "instant", .atom id, .atom n] =>
    match id.toNat?, n.toNat? with
    | some id, some n => ({ st with instant := setNat id n st.instant }, "ok")
    | _, _ => (st, "bad instant")
  | .list [.atom "burst-begin"] => ({ st with inBurst := true, fuzzy := [], fuzzyHard := false, burstRound := true, burstRefiltered := [] }, "ok")
  | .list [.atom "burst-end"] => ({ st with inBurst := false }, "ok")
  | .list [.atom "obs", .atom id, r, d, c, evs, ec] =>
    match id.toNat?, decBool r, decBool d, decCache c, decBool ec with
    | some id, some r, some d, some c, some ec =>
      let s := st.sys
      let kind := kindOf st id
      let mr := s.readyOf id
      let md := s.doneOf id
      let mc := s.cacheOf id
      let hasEvents := evs != .atom "none"
      let stalled := evs == .atom "stalled"
      let ievs : List (Ev Obj) := if hasEvents && !stalled then (decEvs evs).getD [] else []
      let mevs := if hasEvents && !stalled then s.pendingOf id else []
      let sys' := if hasEvents && !stalled then s.drain id else s
      let inst := lookupNat id st.instant
      let st1 := { st with sys := sys', roundCache := setNat id c st.roundCache, instant := st.instant.filter (·.1 != id) }
      -- C10: with no sleeps injected, delivery to a healthy leaf takes no (virtual) time at all: nothing in the
      -- pipeline may wait on a timer, whatever its stalled siblings do
      if (match inst with | some n => decide (ievs.length > n) | none => false) then
        ({ st1 with dead := true }, s!"reject C10 {kind} node {id} had {inst.getD 0} of its {ievs.length} events when every goroutine was blocked with no virtual time elapsed: the pipeline waits on a timer (a stalled consumer delays its siblings)")
      else
      let parent := ((s.node id).map (·.parent)).getD 0
      -- ---- specification-level checks on the implementation's own observations
      let specBad : Option String :=
        -- C08: nothing on Events() before Ready()
        if !r && !ievs.isEmpty then some s!"C08 {kind} node {id} delivered events before Ready(): {showEvs ievs}"
        -- C08: a deferred node is not ready before a filter was supplied / an immediate one not before its parent
        else if r && (kind == "subd" || kind == "cloned") && (lookupNat id st.curFilter).isNone then
          some s!"C08 deferred {kind} node {id} is ready although no filter was supplied"
        else if r && id != 0 && isFsubKind kind && (lookupNat parent st1.roundCache).isSome && !(pubReady s.fuel s parent) && false then none
        else
          -- C06: ready filtered node = its filter applied to its parent's cache
          let c06 : Option String :=
            if r && !d && isFsubKind kind then
              match c, lookupNat parent st1.roundCache, lookupNat id st.curFilter with
              | some mine, some (some pc), some f =>
                let want := pc.filter (accStd f)
                if sameObjSet mine want then none
                else
                  let tag := match st.lastRefilter with
                    | some (rid, _) => if rid == id then "C06/C07/C08" else "C06/C08"
                    | none => if st.burstRefiltered.contains id then "C06/C07/C08" else "C06/C08"
                  some s!"{tag} {kind} node {id} holds {showObjs mine}, its filter applied to the parent's cache gives {showObjs want}"
              | _, _, _ => none
            else none
          -- C07: a Refilter on a ready leaf with nothing in flight emits exactly the membership changes
          let c07 : Option String :=
            match st.lastRefilter, c, lookupNat id st.mirror, lookupNat parent st1.roundCache with
            | some (rid, f), some _mine, some before, some (some pc) =>
              if rid == id && hasEvents && !stalled && r && !d && st.stepwise then
                let dels : List (Ev Obj) := (before.filter (fun o => !accStd f o)).map (fun o => ⟨.delete, o⟩)
                let adds : List (Ev Obj) := (pc.filter (fun o => accStd f o && !before.contains o)).map (fun o => ⟨.create, o⟩)
                if sameMultiset (dels ++ adds) ievs then none
                else some s!"C07 {kind} node {id}: Refilter emitted {showEvs ievs}, the membership changes are {showEvs (dels ++ adds)}"
              else none
            | _, _, _, _ => none
          match c06.orElse (fun _ => c07) with
          | some m => some m
          | none =>
            -- C02/C06: the node's own event stream is a well-formed delta of its own cache
            if hasEvents && !stalled && r && !d then
              match c, lookupNat id st.mirror with
              | some mine, none => if ievs.isEmpty || st.burstRound || st.wasStalled.contains id then none else some s!"C08 {kind} node {id} received events together with becoming ready: {showEvs ievs}"
              | some mine, some m =>
                if st.wasStalled.contains id then none else
                match replayObjs ievs m with
                | none => some s!"C02 {kind} node {id}: events are not a well-formed delta of its cache: {showEvs ievs} on {showObjs m}"
                | some m' => if sameObjSet m' mine then none
                  else some s!"C02 {kind} node {id}: replaying its events gives {showObjs m'} but its cache holds {showObjs mine}"
              | none, _ => none
            else none
      let st2 := match c with
        | some mine => if hasEvents && !stalled && r && !d then { st1 with mirror := setNat id mine st1.mirror } else st1
        | none => st1
      -- C05: plain subscribers of one publisher that were compared against equal model queues must agree exactly
      let st2 := { st2 with wasStalled := if stalled then setNat' id st2.wasStalled else st2.wasStalled.filter (· != id) }
      let st3 := if kind == "sub" then { st2 with roundEvs := setNat id ievs st2.roundEvs } else st2
      let sibBad : Option String :=
        if kind == "sub" && !stalled then
          (st2.roundEvs.find? (fun p =>
            match s.node p.1 with
            | some n => n.parent == parent && kindOf st p.1 == "sub" && (s.pendingOf p.1).isEmpty && false
            | none => false)).map (fun p => s!"C05 siblings {id} and {p.1} disagree")
        else none
      match specBad, sibBad with
      | some m, _ => ({ st3 with dead := true }, "reject " ++ m)
      | _, some m => ({ st3 with dead := true }, "reject " ++ m)
      | none, none =>
        -- ---- model conformance
        if mr != r && !(st.loose.contains id) then
          ({ st3 with dead := true }, (if r then "reject C08 " else "diff ") ++ s!"{kind} node {id}: Ready() is {r}, model {mr}")
        else if md != d then
          -- (a consumer that was stalled and whose subscription died of it: C10 as well)
          ({ st3 with dead := true }, s!"reject {if st.everStalled.contains id then "C10/C11/C12" else "C11/C12"} {kind} node {id}: Done() is {d}, the closed subtree says {md}")
        else if !(match mc, c with
            | some a, some b => sameObjSet a b
            | none, none => true
            | _, _ => false) then
          ({ st3 with dead := true }, s!"diff {kind} node {id}: cache is {c.map showObjs}, model {mc.map showObjs}")
        else if kind == "sub" && st.fuzzy.contains id && !st.fuzzyHard && !stalled && !(st.loose.contains id) && c.isSome &&
            mevs.length < evCap && ievs.length < evCap && !(sameUpToBatchOrder mevs (ievs.drop (ievs.length - mevs.length))) then
          -- a plain subscriber created inside a burst of server changes only: what was in flight when Subscribe returned may
          -- or may not reach it, but every change made after Subscribe returned is published after its subscription was
          -- created — its events must END with exactly those
          ({ st3 with dead := true }, s!"reject C05 sub node {id} was created inside a burst and read {showEvs ievs}: that does not end with the events published after Subscribe() returned, {showEvs mevs}")
        else if !(st.fuzzy.contains id) && !sameUpToBatchOrder mevs ievs &&
            -- a filtered leaf whose buffer ran full: which events of a Refilter batch were kept depends on the batch order
            !(isFsubKind kind && mevs.length == evCap && ievs.length == evCap) &&
            -- a plain leaf whose buffer ran full in the middle of a batch: the same holds for that one batch
            !(kind == "sub" && mevs.length == evCap && ievs.length == evCap &&
              (let (k, batch) := s.boundaryOf id
               !batch.isEmpty && sameUpToBatchOrder (mevs.take k) (ievs.take k) &&
               (ievs.drop k).all (fun e => countEv e (ievs.drop k) ≤ countEv e batch))) then
          ({ st3 with dead := true }, (if kind == "sub" then "reject C05/C10 " else if st.everStalled.contains id then "reject C10 " else "diff ") ++ s!"{kind} node {id}: events {showEvs ievs}, published {showEvs mevs}")
        else if hasEvents && !stalled && ec != md then
          ({ st3 with dead := true }, s!"reject C11/C12 {kind} node {id}: Events() closed is {ec}, node done is {md}")
        else (st3, "ok")
    | _, _, _, _, _ => (st, "bad obs")
  | .list [.atom "monobs", .atom id, d, init, log, .atom early, .atom inits, nilInit] =>
    if decBool nilInit != some false then ({ st with dead := true }, s!"reject C16 monitor {id}: OnInitialize was called with nil — the result of a failed Cache().List() was handed to the handler")
    else if early != "0" then ({ st with dead := true }, s!"reject C16 monitor {id}: {early} event callbacks ran before OnInitialize")
    else if inits != "0" && inits != "1" then ({ st with dead := true }, s!"reject C16 monitor {id}: OnInitialize was called {inits} times")
    else
    match id.toNat?, decBool d, decEvs log with
    | some id, some d, some ilog =>
      let s := st.sys
      match s.node id with
      | none => (st, "bad monobs node")
      | some n =>
        let iinit : Option (List Obj) := match init with | .atom "none" => none | e => decObjs e
        let firstInit := iinit.isSome && !(st.monSeen.contains id)
        let fuzzyNow := (firstInit && st.burstRound) || st.fuzzyInit.contains id
        let st1 := { st with sys := s.monDrain id,
                             monSeen := if iinit.isSome then setNat' id st.monSeen else st.monSeen,
                             fuzzyInit := if firstInit && st.burstRound then id :: st.fuzzyInit else st.fuzzyInit }
        -- C16: no event callback before OnInitialize
        if iinit.isNone && !ilog.isEmpty then ({ st1 with dead := true }, s!"reject C16 monitor {id}: callbacks before OnInitialize: {showEvs ilog}")
        else if !fuzzyNow && !(st.loose.contains id) && !(match n.monInit, iinit with
            | some a, some b => sameObjSet a b
            | none, none => true
            | _, _ => false) then
          ({ st1 with dead := true }, s!"reject C16 mon node {id}: OnInitialize got {iinit.map showObjs}, cache at readiness {n.monInit.map showObjs}")
        else if st.everStalled.contains id then
          -- a monitor whose handler blocked: which event of a batch it took first depends on the batch
          -- order; check that everything it was called with was published to it, each at most once
          let acc := ((lookupNat id st.monAcc).getD []) ++ ilog
          let st1 := { st1 with monAcc := setNat id acc st1.monAcc }
          if fuzzyNow || st.loose.contains id || acc.all (fun e => countEv e acc ≤ countEv e n.monAll) then
            (if s.doneOf id != d && !(st.loose.contains id) then ({ st1 with dead := true }, s!"reject C11/C12/C16 mon node {id}: Done() is {d}, model {s.doneOf id}") else (st1, "ok"))
          else ({ st1 with dead := true }, s!"reject C16 monitor {id}: callbacks {showEvs acc} are not a sub-multiset of the events published to it")
        else if !fuzzyNow && !(st.fuzzy.contains id) && !(st.loose.contains id) && !sameUpToBatchOrder n.monLog ilog then
          ({ st1 with dead := true }, s!"reject C16 mon node {id}: callbacks {showEvs ilog}, events received {showEvs n.monLog}")
        else if s.doneOf id != d then ({ st1 with dead := true }, s!"reject C11/C12/C16 mon node {id}: Done() is {d}, model {s.doneOf id}")
        else (st1, "ok")
    | _, _, _ => (st, "bad monobs")
  | .list [.atom "api", .atom id, .atom phase, .atom name, ret, .atom err, .atom objdone] =>
    if decBool ret != some true then
      ({ st with dead := true }, s!"reject C12 {name}() on node {id} ({phase} shutdown) has not returned at the quiescent point: it blocks")
    else if err == "other" then
      ({ st with dead := true }, s!"reject C12 {name}() on node {id} ({phase} shutdown) failed with something else than ErrNotRunning")
    else if objdone == "false" then
      ({ st with dead := true }, s!"reject C12 {name}() on node {id} racing with shutdown returned an object that is still running (zombie)")
    else if phase == "after" && err == "nil" && name != "Close" then
      ({ st with dead := true }, s!"reject C12 {name}() on node {id} succeeded after the root was done")
    else (st, "ok")
  | .list [.atom "fsubprobe", ready, .atom events, .atom cached, done] =>
    if decBool ready != some false || events != "0" || cached != "0" then
      ({ st with dead := true }, s!"reject C08 a filtered subscription whose parent never became ready: Ready() closed = {repr ready}, {events} events published, {cached} objects cached — nothing may be observable before Ready()")
    else if decBool done != some true then ({ st with dead := true }, "reject C11/C12 a filtered subscription whose parent went away is not done")
    else (st, "ok")
  | .list [.atom "monprobe", .atom calls, done] =>
    if calls != "0" then ({ st with dead := true }, s!"reject C16 a monitor on a publisher that shut down before it became ready ran {calls} callbacks (events were waiting in its subscription)")
    else if decBool done != some true then ({ st with dead := true }, "reject C16/C11 a monitor whose publisher shut down before it became ready is not done")
    else (st, "ok")
  | .list [.atom "refread", .atom id, .atom verdict, before, after, bad] =>
    if verdict == "ok" then (st, "ok") else
      ({ st with dead := true }, s!"reject C15/C07/C06 node {id}: a Cache().List() taken while the node was being refiltered returned {repr bad}, which is neither its content before ({repr before}) nor after ({repr after}): a half-applied Refilter was visible")
  | .list (.atom "attach-error" :: _) => ({ st with dead := true }, "diff attach failed")
  | _ => (st, "bad line")

end Driver
