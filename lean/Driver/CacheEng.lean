/- cachediff engine: the real cache against the code-shaped model and the reference semantics -/
import Driver.Decode
import KcacheModel.Cache
namespace Driver
open KC

abbrev CItems := Items Key Obj

def oVer (o : Obj) : Option Int := Atoi.atoi o.rv

structure CState where
  items : CItems := []
  filter : Filter := .null
  dead : Bool := false     -- a divergence was reported; skip until the next (new …)

def decEvT : String → Option EvT
  | "create" => some .create
  | "update" => some .update
  | "delete" => some .delete
  | _ => none

def decEv : SExp → Option (Ev Obj)
  | .list [.atom t, o] => do pure ⟨← decEvT t, ← decObj o⟩
  | _ => none

def decEvs : SExp → Option (List (Ev Obj))
  | .list xs => xs.mapM decEv
  | _ => none

def evEq (a b : Ev Obj) : Bool := a.t == b.t && a.obj == b.obj

def countEv (e : Ev Obj) (l : List (Ev Obj)) : Nat := (l.filter (evEq e)).length

def sameMultiset (a b : List (Ev Obj)) : Bool :=
  a.length == b.length && a.all (fun e => countEv e a == countEv e b)

def sameObjSet (a b : List Obj) : Bool :=
  a.length == b.length && a.all (b.contains ·) && b.all (a.contains ·)

def itemsOf (l : List Obj) : CItems :=
  l.filterMap fun o => match oVer o with
    | some v => some (o.key, ⟨v, o⟩)
    | none => none

def showEntry : Option (Entry Obj) → String
  | none => "absent"
  | some e => s!"{e.obj.ns}/{e.obj.name}@{e.obj.rv}"

def entryEq (a b : Option (Entry Obj)) : Bool :=
  match a, b with
  | none, none => true
  | some x, some y => x.ver == y.ver && x.obj == y.obj
  | _, _ => false

/-- all checks for one operation; `before` is the content both sides agreed on so far -/
def checkOp (evMode : Bool) (before : CItems) (accNow : Obj → Bool) (op : String) (arg : List Obj) (t : EvT)
    (modelItems : CItems) (modelEvs : List (Ev Obj)) (implEvs : List (Ev Obj)) (implList : List Obj) : String :=
  let implItems := itemsOf implList
  let keys := (before.map (·.1) ++ implItems.map (·.1) ++ arg.map (·.key) ++ implEvs.map (·.obj.key)).eraseDups
  let a0 : AMap Key Obj := abs before
  let a1 : AMap Key Obj := abs implItems
  -- (1) reference semantics for the content
  let specBad : Option String :=
    if op == "update" then
      match arg with
      | [o] =>
        match oVer o with
        | none => if keys.all (fun k => entryEq (a1 k) (a0 k)) then none else some "malformed version changed the cache"
        | some v =>
          if t == .delete then
            let k := o.key
            let othersSame := keys.all (fun k' => k' == k || entryEq (a1 k') (a0 k'))
            let ok := (a1 k).isNone || (match a0 k with
              | some c => decide (v < c.ver) && entryEq (a1 k) (a0 k)
              | none => false)
            if othersSame && ok then none else some s!"delete: {showEntry (a1 k)}"
          else
            let exp := specUpsert Obj.key accNow a0 v o
            match keys.find? (fun k => !entryEq (a1 k) (exp k)) with
            | some k => some s!"upsert: key {k} holds {showEntry (a1 k)}, reference {showEntry (exp k)}"
            | none => none
      | _ => some "bad update"
    else
      let exp := specSync Obj.key oVer accNow a0 arg
      match keys.find? (fun k => !entryEq (a1 k) (exp k)) with
      | some k => some s!"sync: key {k} holds {showEntry (a1 k)}, reference {showEntry (exp k)}"
      | none => none
  -- (2) every cached object is accepted
  let accBad := implList.find? (fun o => !accNow o)
  -- (3) events: well-formed replay to the new content, and minimal
  let replayBad : Option String :=
    match replay Obj.key oVer implEvs a0 with
    | none => some "events do not replay (ill-formed Create/Update/Delete)"
    | some a' =>
      match keys.find? (fun k => !entryEq (a' k) (a1 k)) with
      | some k => some s!"events replay to {showEntry (a' k)} at {k}, cache holds {showEntry (a1 k)}"
      | none => if keys.all (fun k => entryEq (a1 k) (a0 k)) && !implEvs.isEmpty then some "events emitted although nothing changed" else none
  -- (4) well-formedness of the answer itself: no key listed twice, every version numeric
  let listBad := implItems.length != implList.length || (implItems.map (·.1)).eraseDups.length != implItems.length
  let modelList := modelItems.map (·.2.obj)
  let agrees := sameObjSet modelList implList && sameMultiset modelEvs implEvs
  let validArg := arg.filter (fun o => (oVer o).isSome)
  let dupList := op != "update" && ((validArg.map (·.key)).eraseDups.length != validArg.length)
  let contentVerdict : Option String :=
    match specBad, accBad, listBad with
    | some m, _, _ => some (if dupList && agrees then s!"known C01-dup-keys {m}" else s!"reject content: {m}")
    | _, some o, _ => some s!"reject filter: cached object {o.ns}/{o.name}@{o.rv} is not accepted by the current filter"
    | _, _, true => some "reject list: List() returned a duplicate key or a non-numeric version"
    | _, _, _ => none
  let eventsVerdict : Option String := replayBad.map (fun m => s!"reject events: {m}")
  let diffVerdict : Option String :=
    if agrees then none else some s!"diff cache: model list/events differ from the implementation's (model list {modelList.map (fun o => s!"{o.ns}/{o.name}@{o.rv}")}, events {modelEvs.length})"
  if evMode then
    match eventsVerdict, contentVerdict, diffVerdict with
    | some v, _, _ => v
    | none, some c, _ => if c.startsWith "known" then "ok" else "diff content: " ++ c
    | none, none, some d => d
    | none, none, none => "ok"
  else
    match contentVerdict, eventsVerdict, diffVerdict with
    | some v, _, _ => v
    | none, some e, _ => e
    | none, none, some d => d
    | none, none, none => "ok"

def cacheLine (evMode : Bool) (st : CState) (e : SExp) : CState × String :=
  match e with
  | .list [.atom "new", t] =>
    match decFilter t with
    | some f => ({ items := [], filter := f }, "ok")
    | none => (st, "bad new line")
  | .list [.atom "sync", l, evs, res] =>
    if st.dead then (st, "skip") else
    match decObjs l, decEvs evs, decObjs res with
    | some l, some evs, some res =>
      let acc := accept fns st.filter
      let r := doSync Obj.key oVer acc st.items l
      let out := checkOp evMode st.items acc "sync" l .create r.1 r.2 evs res
      ({ st with items := r.1, dead := !(out == "ok" || out.startsWith "known") }, out)
    | _, _, _ => (st, "bad sync line")
  | .list [.atom "refilter", t, l, evs, res] =>
    if st.dead then (st, "skip") else
    match decFilter t, decObjs l, decEvs evs, decObjs res with
    | some f, some l, some evs, some res =>
      let acc := accept fns f
      let r := doSync Obj.key oVer acc st.items l
      let out := checkOp evMode st.items acc "refilter" l .create r.1 r.2 evs res
      ({ items := r.1, filter := f, dead := !(out == "ok" || out.startsWith "known") }, out)
    | _, _, _, _ => (st, "bad refilter line")
  | .list [.atom "update", .atom t, o, evs, res] =>
    if st.dead then (st, "skip") else
    match decEvT t, decObj o, decEvs evs, decObjs res with
    | some t, some o, some evs, some res =>
      let acc := accept fns st.filter
      let r := doUpdate Obj.key oVer acc st.items t o
      let out := checkOp evMode st.items acc "update" [o] t r.1 r.2 evs res
      ({ st with items := r.1, dead := !(out == "ok" || out.startsWith "known") }, out)
    | _, _, _, _ => (st, "bad update line")
  | .list [.atom "get", .atom ns, .atom name, res] =>
    if st.dead then (st, "skip") else
    let m := AL.lookup (⟨ns, name⟩ : Key) st.items
    match res, m with
    | .atom "nil", none => (st, "ok")
    | r, some e => if decObj r == some e.obj then (st, "ok") else (st, s!"reject get: Get returned something else than the cached {showEntry m}")
    | _, none => (st, "reject get: Get returned an object for an absent key")
  | _ => (st, "bad line")

end Driver
