/- decoding of objects and filter terms from the line protocol into the model's types -/
import Driver.SExp
import KcacheModel.Filter
import KcacheModel.Workloads
namespace Driver
open KC

def decPair : SExp → Option (String × String)
  | .list [.atom k, .atom v] => some (k, v)
  | _ => none

def decMap : SExp → Option (List (String × String))
  | .list xs => xs.mapM decPair
  | _ => none

def decStrs : SExp → Option (List String)
  | .list xs => xs.mapM SExp.str
  | _ => none

def decObj : SExp → Option Obj
  | .list [.atom "obj", .atom kind, .atom ns, .atom name, .atom rv, labels, .atom node, sel,
           .atom ik, .atom ins, .atom inm] => do
    let labels ← decMap labels
    let sel ← decMap sel
    pure { kind, ns, name, rv, labels, node, selector := sel, invKind := ik, invNs := ins, invName := inm }
  | _ => none

def decObjs : SExp → Option (List Obj)
  | .list xs => xs.mapM decObj
  | _ => none

def decOp : String → Option Op
  | "In" => some .in_
  | "NotIn" => some .notIn
  | "Exists" => some .exists_
  | "DoesNotExist" => some .doesNotExist
  | _ => none

def decLS : SExp → Option (Option LabelSelector)
  | .atom "nil" => some none
  | .list [.atom "ls", ml, .list mes] => do
    let ml ← decMap ml
    let mes ← mes.mapM (fun e => match e with
      | .list [.atom k, .atom op, vals] => do
        let op ← decOp op
        let vals ← decStrs vals
        pure (⟨k, op, vals⟩ : LSReq)
      | _ => none)
    pure (some { matchLabels := ml, matchExpressions := mes })
  | _ => none

def decWorkload : SExp → Option Workload
  | .list [.atom "w", .atom ns, .atom name, sel, labels] => do
    let sel ← decLS sel
    let labels ← decMap labels
    pure { key := ⟨ns, name⟩, selector := sel, labels }
  | _ => none

def decIngress : SExp → Option Ingress
  | .list [.atom "ing", .atom ns, .atom dflt, paths] => do
    let paths ← decStrs paths
    pure { ns, defaultBackend := dflt, pathBackends := paths }
  | _ => none

/-- evaluate a filter-constructor term with the model's constructors -/
partial def decFilter : SExp → Option Filter
  | .list [.atom "null"] => some .null
  | .list [.atom "all"] => some .all
  | .list [.atom "not", c] => do pure (.not (← decFilter c))
  | .list (.atom "and" :: cs) => do pure (.and (← cs.mapM decFilter))
  | .list (.atom "or" :: cs) => do pure (.or (← cs.mapM decFilter))
  | .list (.atom "nsname" :: ids) => do
    let ids ← ids.mapM decPair
    pure (nsnameF (ids.map fun p => ⟨p.1, p.2⟩))
  | .list [.atom "labels", m] => do pure (labelsF (← decMap m))
  | .list [.atom "labelsel", ls] => do pure (labelSelectorF (← decLS ls))
  | .list [.atom "sel", .atom "everything"] => some (.selector (.reqs []))
  | .list [.atom "sel", .atom "nothing"] => some (.selector .nothing)
  | .list [.atom "sel", .atom "everything-nil"] => some (.selector .nilReqs)
  | .list [.atom "fn", .atom n] => do pure (.fn (← n.toNat?))
  | .list [.atom "node", names] => do pure (nodeF (← decStrs names))
  | .list [.atom "involved", .atom k, .atom ns, .atom n] => some (.involved k ns n)
  | .list [.atom "selmatch", m] => do pure (.selectorMatch (← decMap m))
  | .list (.atom "pods" :: .atom _ :: ws) => do pure (podsFilter (← ws.mapM decWorkload))
  | .list (.atom "svcpods" :: ws) => do pure (servicePodsFilter (← ws.mapM decWorkload))
  | .list (.atom "rcpods" :: ws) => do pure (rcPodsFilter (← ws.mapM decWorkload))
  | .list (.atom "svcs" :: is) => do pure (servicesFilter (← is.mapM decIngress))
  | _ => none

/-- the opaque predicates behind `(fn i)`; the harness defines the same ones (kv.FNs) -/
def fns (i : Nat) (o : Obj) : Bool :=
  match i with
  | 0 => AL.lookup "l" o.labels == some "1"
  | 1 => o.name == "a"
  | 2 => true
  | 3 => o.kind == "pod"
  | n => if n ≥ 10 then AL.lookup "l" o.labels == some (toString (n - 10)) else false

def decBool : SExp → Option Bool
  | .atom "true" => some true
  | .atom "false" => some false
  | _ => none

def decBools : SExp → Option (List Bool)
  | .list xs => xs.mapM decBool
  | _ => none

end Driver
