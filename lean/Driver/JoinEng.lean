/- join engine: the generated joins and IngressPods against the reference selection (C09) -/
import Driver.Decode
import Driver.CacheEng
import Driver.TreeEng
import KcacheModel.Sys
import KcacheModel.Workloads
namespace Driver
open KC

structure SrcObj where
  kind : String
  w : Workload
  ing : Ingress

structure JState where
  name : String := ""
  srcKind : String := ""
  midKind : String := ""
  dstKind : String := ""
  src : List (Key × SrcObj) := []
  /-- services of the double join, as sources of the second stage -/
  midSrc : List (Key × SrcObj) := []
  /-- the same services as destination objects of the first stage -/
  midObjs : List (Key × Obj) := []
  lastJoin : Option (List Obj) := none
  wasReady : Bool := false
  closed : Bool := false
  dead : Bool := false

def decSrc : SExp → Option SrcObj
  | .list [.atom "src", .atom kind, .atom ns, .atom name, .atom _rv, sel, labels, .atom dflt, paths] => do
    let sel ← decLS sel
    let labels ← decMap labels
    let paths ← decStrs paths
    pure { kind, w := { key := ⟨ns, name⟩, selector := sel, labels }, ing := { ns, defaultBackend := dflt, pathBackends := paths } }
  | _ => none

def alSet {α : Type} (k : Key) (v : α) (l : List (Key × α)) : List (Key × α) := (k, v) :: l.filter (·.1 != k)
def alDel {α : Type} (k : Key) (l : List (Key × α)) : List (Key × α) := l.filter (·.1 != k)

/-- the join's selection filter computed from the current source objects (the model's constructors) -/
def joinFilter (kind : String) (srcs : List SrcObj) : Filter :=
  match kind with
  | "service" => servicePodsFilter (srcs.map (·.w))
  | "rc" => rcPodsFilter (srcs.map (·.w))
  | "ingress" => servicesFilter (srcs.map (·.ing))
  | _ => podsFilter (srcs.map (·.w))

def joinLine (st : JState) (e : SExp) : JState × String :=
  match e with
  | .list [.atom "scenario", _, _] => ({}, "ok")
  | .list [.atom "end"] => (st, "ok")
  | _ =>
  if st.dead then (st, "skip") else
  match e with
  | .list [.atom "jstart", .atom name, .atom sk, .atom mk, .atom dk] => ({ st with name, srcKind := sk, midKind := mk, dstKind := dk }, "ok")
  | .list [.atom "jsrc", .atom t, o] =>
    match decSrc o with
    | some s => ({ st with src := if t == "delete" then alDel s.w.key st.src else alSet s.w.key s st.src }, "ok")
    | none => (st, "bad jsrc")
  | .list [.atom "jmid", .atom t, o, so] =>
    match decObj o, decSrc so with
    | some o, some s =>
      if t == "delete" then ({ st with midSrc := alDel o.key st.midSrc, midObjs := alDel o.key st.midObjs }, "ok")
      else ({ st with midSrc := alSet o.key s st.midSrc, midObjs := alSet o.key o st.midObjs }, "ok")
    | _, _ => (st, "bad jmid")
  | .list (.atom "jdst" :: _) => (st, "ok")
  | .list [.atom "jrelease"] => (st, "ok")
  | .list [.atom "burst-begin"] => (st, "ok")
  | .list [.atom "burst-end"] => (st, "ok")
  | .list [.atom "jclose"] => ({ st with closed := true }, "ok")
  | .list [.atom "jobs", sr, dr, jr, jd, sd, dd, jl, evs, dl] =>
    match decBool sr, decBool dr, decBool jr, decBool jd, decBool sd, decBool dd, decCache jl, decEvs evs, decCache dl with
    | some sr, some dr, some jr, some jd, some sd, some dd, some jl, some ievs, some dl =>
      let fail (m : String) : JState × String := ({ st with dead := true }, m)
      if sd || dd then fail s!"reject C09 a base controller of the join is done (source {sd}, destination {dd}) although nobody closed it"
      else if st.closed then
        (if !jd then fail "reject C09/C12 the join result was closed but is not done" else (st, "ok"))
      else if jd then fail "reject C09 the join result is done although nobody closed it"
      else if jr && !(sr && dr) then fail s!"reject C09/C08 the join is ready although source ready = {sr}, destination ready = {dr}"
      else if !jr then
        (if sr && dr then fail "reject C09/C08 source and destination are ready and quiescent but the join is not ready"
         else if !ievs.isEmpty then fail "reject C09/C08 the join delivered events before it was ready" else (st, "ok"))
      else
        match jl, dl with
        | some jl, some dl =>
          -- the reference selection
          let want : List Obj :=
            if st.midKind == "" then dl.filter (accStd (joinFilter st.srcKind (st.src.map (·.2))))
            else
              let svcSel := joinFilter "ingress" (st.src.map (·.2))
              let chosen := st.midSrc.filter (fun p => match lookupKey p.1 st.midObjs with
                | some o => accStd svcSel o
                | none => false)
              dl.filter (accStd (joinFilter "service" (chosen.map (·.2))))
          if !sameObjSet jl want then
            fail s!"reject C09 {st.name}: the join holds {showObjs jl}, the destination objects selected by the current sources are {showObjs want}"
          else
            let evOk := !st.wasReady || (match replayObjs ievs (st.lastJoin.getD []) with
              | some m' => sameObjSet m' jl
              | none => false)
            if !evOk then fail s!"reject C09/C02 {st.name}: events {showEvs ievs} are not a well-formed delta from {showObjs (st.lastJoin.getD [])} to {showObjs jl}"
            else ({ st with lastJoin := some jl, wasReady := true }, "ok")
        | _, _ => fail "diff join or destination cache unreadable"
    | _, _, _, _, _, _, _, _, _ => (st, "bad jobs")
  | .list [.atom "jafter", .atom s1, .atom s2, .atom d1, .atom d2, sd, dd] =>
    if decBool sd != some false || decBool dd != some false then
      ({ st with dead := true }, "reject C09 closing the join result stopped a base controller")
    else if s1 != s2 || d1 != d2 then
      ({ st with dead := true }, s!"reject C09 after closing the join the bases no longer follow their servers (source {s2}/{s1}, destination {d2}/{d1})")
    else (st, "ok")
  | .list [.atom "jleak", .atom n] =>
    if n != "0" then ({ st with dead := true }, s!"reject C09/C12 {n} goroutines of the join (monitor / filtered clone / helper) are still running after its result was closed")
    else (st, "ok")
  | _ => (st, "bad line")
where
  lookupKey (k : Key) (l : List (Key × Obj)) : Option Obj := (l.find? (·.1 == k)).map (·.2)

end Driver
