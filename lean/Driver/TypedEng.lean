/- rest and typed engines (C20) -/
import Driver.Decode
import Driver.CacheEng
import Driver.TreeEng
import KcacheModel.Typed
namespace Driver
open KC

def showReq (r : RestReq) : String :=
  r.verb ++ " /" ++ "/".intercalate r.segments ++ " ?" ++ "&".intercalate (r.query.map fun p => p.1 ++ "=" ++ p.2)

def decCall : SExp → Option RestCall
  | .list [.atom "list", .atom rv, b] => do pure (.list ⟨rv, ← decBool b⟩)
  | .list [.atom "watch", .atom rv, b] => do pure (.watch ⟨rv, ← decBool b⟩)
  | _ => none

def decSeen : SExp → Option String
  | .list [.atom m, .atom p, .atom q] => some (m ++ " " ++ p ++ " ?" ++ q)
  | _ => none

def restLine (e : SExp) : String :=
  match e with
  | .list [.atom "rest", .atom pkg, .atom ns, .list calls, .list reqs] =>
    match apiOf pkg, calls.mapM decCall, reqs.mapM decSeen with
    | some (pfx, res), some calls, some seen =>
      let want := (clientReqs pfx res ns calls).map showReq
      if want == seen then "ok"
      else
        let bad := (want.zip seen).find? (fun p => p.1 != p.2)
        match bad with
        | some (w, s) => s!"reject C20 the {pkg} client for namespace '{ns}' sent [{s}], expected [{w}]"
        | none => s!"reject C20 the {pkg} client for namespace '{ns}' sent {seen.length} requests for {want.length} calls"
    | none, _, _ => s!"bad rest: unknown package {pkg}"
    | _, _, _ => "bad rest"
  | .list (.atom "rest-error" :: _) => "reject C20 a typed client could not be constructed"
  | _ => "bad line"

/-! ### typed vs untyped, side by side -/

structure YState where
  kind : String := ""
  dead : Bool := false

def adaptKind (k : String) (o : Obj) : Option Obj := if o.kind == k then some o else none

def decCb : SExp → Option (Callback Obj)
  | .list [.atom "init", os] => do pure (.init (← decObjs os))
  | .list [.atom "create", o] => do pure (.create (← decObj o))
  | .list [.atom "update", o] => do pure (.update (← decObj o))
  | .list [.atom "delete", o] => do pure (.delete (← decObj o))
  | _ => none

def decCbs : SExp → Option (List (Callback Obj))
  | .list xs => xs.mapM decCb
  | _ => none

def showCb : Callback Obj → String
  | .init l => "init" ++ showObjs l
  | .create o => "create " ++ showObjs [o]
  | .update o => "update " ++ showObjs [o]
  | .delete o => "delete " ++ showObjs [o]

def cbEq : Callback Obj → Callback Obj → Bool
  | .init a, .init b => sameObjSet a b
  | .create a, .create b => a == b
  | .update a, .update b => a == b
  | .delete a, .delete b => a == b
  | _, _ => false

def listEq {α : Type} (eq : α → α → Bool) : List α → List α → Bool
  | [], [] => true
  | a :: as, b :: bs => eq a b && listEq eq as bs
  | _, _ => false


def typedLine (st : YState) (e : SExp) : YState × String :=
  match e with
  | .list [.atom "scenario", _, _] => ({}, "ok")
  | .list [.atom "end"] => (st, "ok")
  | _ =>
  if st.dead then (st, "skip") else
  match e with
  | .list [.atom "tstart", .atom k] => ({ st with kind := k }, "ok")
  | .list (.atom "tsrv" :: _) => (st, "ok")
  | .list [.atom "tafter", ta, ua] =>
    -- after shutdown every constructor fails, on the typed side exactly as on the untyped one
    if ta != ua then ({ st with dead := true }, s!"reject C20/C12 after shutdown the typed constructors answered {repr ta}, the untyped ones {repr ua}")
    else (st, "ok")
  | .list [.atom "tfref", _, ta, ua] =>
    if ta != ua then ({ st with dead := true }, s!"reject C20 Refilter on the typed clones answered {repr ta}, on the untyped ones {repr ua}")
    else (st, "ok")
  | .list [.atom "tfobs", ta, ua] =>
    -- (only emitted when the server holds objects of the one type: no restriction to apply)
    if ta != ua then ({ st with dead := true }, s!"reject C20/C06/C08 the typed deferred / filtered clones (ready done content, twice) are {repr ta}, the untyped ones {repr ua}")
    else (st, "ok")
  | .list [.atom "tlazy", tevs, uevs, tc, uc] =>
    match decEvs tevs, decEvs uevs, decBool tc, decBool uc with
    | some tevs, some uevs, some tc, some uc =>
      if !listEq evEq tevs (typedEvents (adaptKind st.kind) uevs) then
        ({ st with dead := true }, s!"reject C20/C10 an unread typed subscription kept {tevs.length} events, the unread untyped one {uevs.length} (restricted: {(typedEvents (adaptKind st.kind) uevs).length}): {showEvs (tevs.take 3)}… vs {showEvs (uevs.take 3)}…")
      else if tc != uc then ({ st with dead := true }, s!"reject C20/C11 after Close the typed Events() closed = {tc}, the untyped = {uc}")
      else (st, "ok")
    | _, _, _, _ => (st, "bad tlazy")
  | .list [.atom "tobs", tr, ur, td, ud, tc, uc, tevs, uevs, tmon, umon] =>
    let fail (m : String) : YState × String := ({ st with dead := true }, m)
    match decBool tr, decBool ur, decBool td, decBool ud with
    | some tr, some ur, some td, some ud =>
      if tr != ur then fail s!"reject C20 typed Ready is {tr}, untyped {ur}"
      else if td != ud then fail s!"reject C20 typed Done is {td}, untyped {ud}"
      else
      match decCache tc, decCache uc, decEvs tevs, decEvs uevs, decCbs tmon, decCbs umon with
      | some tc, some uc, some tevs, some uevs, some tmon, some umon =>
        let a := adaptKind st.kind
        let cacheOk := match tc, uc with
          | none, none => true
          | some t, some u => sameObjSet t (adaptList a u)
          | _, _ => false
        if !cacheOk then fail s!"reject C20 typed cache {(tc.map showObjs).getD "error"} is not the untyped cache {(uc.map showObjs).getD "error"} restricted to {st.kind}"
        else if !listEq evEq tevs (typedEvents a uevs) then
          fail s!"reject C20 typed events {showEvs tevs} are not the untyped events {showEvs uevs} restricted to {st.kind}"
        else if !listEq cbEq tmon (typedLog a umon) then
          fail s!"reject C20/C16 typed monitor callbacks {tmon.map showCb} are not the untyped ones {umon.map showCb} restricted to {st.kind}"
        else (st, "ok")
      | _, _, _, _, _, _ => (st, "bad tobs payload")
    | _, _, _, _ => (st, "bad tobs")
  | _ => (st, "bad line")

end Driver
