/- filterdiff engine: the library's Accept / Equals against the model and the reference predicates -/
import Driver.Decode
import KcacheModel.Workloads
namespace Driver
open KC

def rootOp : SExp → String
  | .list (.atom op :: _) => op
  | _ => ""

def rootWorkloads : SExp → List Workload
  | .list (.atom "pods" :: .atom _ :: ws) => ws.filterMap decWorkload
  | .list (.atom _ :: ws) => ws.filterMap decWorkload
  | _ => []

def rootIngresses : SExp → List Ingress
  | .list (.atom "svcs" :: is) => is.filterMap decIngress
  | _ => []

/-- reference predicate of C19 for the workload-level constructors; `none` = the term is outside the
property's contract (un-namespaced source) or not a workload filter -/
def refAccept (t : SExp) (o : Obj) : Option Bool :=
  let ws := rootWorkloads t
  match rootOp t with
  | "pods" => if ws.all (fun w => w.key.ns != "" && w.valid) then
      some (ws.any fun w => (w.key.ns == o.ns) && w.selects o.labels) else none
  | "svcpods" => if ws.all (fun w => w.key.ns != "") then
      some (ws.any fun w => !w.labels.isEmpty && (w.key.ns == o.ns) && subsetLabels w.labels o.labels) else none
  | "rcpods" => if ws.all (fun w => w.key.ns != "") then
      some (ws.any fun w => !w.labels.isEmpty && (w.key.ns == o.ns) && subsetLabels w.labels o.labels) else none
  | "svcs" =>
    let is := rootIngresses t
    if is.all (fun i => i.ns != "") then
      some (is.any fun i => (i.ns == o.ns) && o.name != "" &&
        ((i.defaultBackend == o.name) || i.pathBackends.contains o.name)) else none
  | _ => none

def firstDiff (a b : List Bool) : Option Nat :=
  let rec go (i : Nat) : List Bool → List Bool → Option Nat
    | x :: xs, y :: ys => if x != y then some i else go (i + 1) xs ys
    | [], [] => none
    | _, _ => some i
  go 0 a b

def filterLine (univ : List Obj) (e : SExp) : String :=
  let decObjsU (x : SExp) : Option (List Obj) := match x with
    | .atom "U" => some univ
    | x => decObjs x
  match e with
  | .list [.atom "acc", t, objs, res] =>
    match decFilter t, decObjsU objs, decBools res with
    | some f, some os, some bs =>
      let model := os.map (accept fns f)
      match firstDiff model bs with
      | some i => s!"reject accept: model {model[i]?} impl {bs[i]?} at object {i}"
      | none =>
        -- reference predicate (C19)
        let refs := os.map (refAccept t)
        let bad := (List.range os.length).find? fun i =>
          match refs[i]?, bs[i]? with
          | some (some r), some b => r != b
          | _, _ => false
        match bad with
        | some i =>
          if rootOp t == "rcpods" then s!"known C19-rc-pods-no-namespace object {i}"
          else s!"reject reference: impl {bs[i]?} at object {i}"
        | none => "ok"
    | _, _, _ => "bad acc line"
  | .list [.atom kind, t1, t2, b, objs, a1, a2] =>
    if kind != "eq" && kind != "eqperm" then "bad line" else
    match decFilter t1, decFilter t2, decBool b, decObjsU objs, decBools a1, decBools a2 with
    | some f1, some f2, some b, some os, some a1, some a2 =>
      let m1 := os.map (accept fns f1)
      let m2 := os.map (accept fns f2)
      if b && a1 != a2 then s!"reject unsound: Equals reported true but Accept differs at object {firstDiff a1 a2}"
      else if m1 != a1 then s!"reject accept: lhs at object {firstDiff m1 a1}"
      else if m2 != a2 then s!"reject accept: rhs at object {firstDiff m2 a2}"
      else
        let me := filtersEqual (some f1) (some f2)
        if kind == "eqperm" && !b then "reject order: filters built from permuted sources compare unequal"
        else if t1 == t2 && fnFree f1 && !b then "reject refl: comparable filter built twice from the same arguments compares unequal"
        else if me != b then s!"diff equals: model {me} impl {b}"
        else "ok"
    | _, _, _, _, _, _ => "bad eq line"
  | .list (.atom "impure" :: _) => "reject impure: Accept gave different answers for the same object"
  | .list (.atom "unstable-equals" :: _) => "reject refl: Equals answered differently after the filters had been used (Accept), or against a fresh build of the same arguments"
  | .list (.atom "inconsistent-equals" :: _) => "reject equals: FiltersEqual and Equals disagree"
  | .list [.atom "nil-equals-wrong"] => "reject nil: FiltersEqual mishandles nil"
  | _ => "bad line"

end Driver
