/- lister engine: time-stamped List calls and consumptions of the real lister+ticker against the Tick model -/
import Driver.SExp
import KcacheModel.Tick
namespace Driver
open KC

structure LState where
  period : Nat := 0
  latency : Nat := 0
  delay : Nat := 0
  lo : Nat := 0
  hi : Nat := 0
  lists : List (Nat × Int × Bool) := []   -- start, end (-1: never returned), cancelled
  consumes : List Nat := []

def natOf (s : String) : Nat := (s.toNat?).getD 0
def intOf (s : String) : Int := (s.toInt?).getD 0

/-- replay the observed schedule through the model: every label must be enabled when taken -/
def replayTick (st : LState) : Option String :=
  let lists := st.lists
  let cons := st.consumes
  match lists with
  | [] => some "no list call at all"
  | (s0, e0, _) :: _ =>
    if s0 != 0 then some s!"first list started at {s0}" else
    let slack := 3000 -- scheduling slack in microseconds of virtual time
    -- pair list i with consumption i
    let n := cons.length
    let rec go (i : Nat) (fuel : Nat) (t : Tick) : Option String :=
      match fuel with
      | 0 => none
      | fuel + 1 =>
        if i ≥ n then none else
        match lists[i]?, cons[i]? with
        | some (_, ei, _), some ci =>
          let ei := ei.toNat
          -- the list returns, the controller consumes
          let t1 := Tick.step true t (.advance (ei - t.now))
          if !t1.enabled .done then some s!"list {i}: model cannot finish the list at {ei}" else
          let t2 := Tick.step true t1 .done
          let t3 := Tick.step true t2 (.advance (ci - t2.now))
          match lists[i + 1]? with
          | none =>
            if !t3.enabled (.consume st.lo) then some s!"list {i}: result not consumable in the model" else none
          | some (sn, en, _) =>
            -- the next list starts at `sn`: the timer armed at consumption must have fired by then
            let d := sn - ci
            let dm := if d > st.hi && d ≤ st.hi + slack then st.hi else d
            if !t3.enabled (.consume dm) then
              some s!"list {i + 1} started {d}us after result {i} was consumed; the period with fuzz is [{st.lo}, {st.hi}]"
            else
            let t4 := Tick.step true t3 (.consume dm)
            let t5 := Tick.step true t4 (.advance (sn - t4.now))
            if !t5.enabled .fire then some s!"list {i + 1}: started at {sn} before its tick could fire" else
            let t6 := Tick.step true (Tick.step true t5 .fire) .recv
            let lat := (en - (sn : Int)).toNat
            if !t6.enabled (.tick lat st.lo) then some s!"list {i + 1}: model cannot start a list at {sn}" else
            go (i + 1) fuel (Tick.step true t6 (.tick lat st.lo))
        | _, _ => none
    go 0 (n + 2) (Tick.init st.lo st.hi e0.toNat st.lo)

def listerLine (st : LState) (e : SExp) : LState × String :=
  match e with
  | .list [.atom "scenario", _, _] => ({}, "ok")
  | .list [.atom "lcfg", .atom p, .atom l, .atom d, .atom lo, .atom hi] =>
    ({ period := natOf p, latency := natOf l, delay := natOf d, lo := natOf lo, hi := natOf hi }, "ok")
  | .list [.atom "llist", .atom s, .atom e, .atom c] => ({ st with lists := st.lists ++ [(natOf s, intOf e, c == "1")] }, "ok")
  | .list [.atom "lconsume", .atom t] => ({ st with consumes := st.consumes ++ [natOf t] }, "ok")
  | .list [.atom "lstop", .atom stopAt, .atom _doneNow, .atom doneSoon, .atom maxAct, _] =>
    let stopAt := natOf stopAt
    if natOf maxAct > 1 then (st, s!"reject C13 {maxAct} List calls were in flight at once") else
    -- every list but possibly the last returned; overlapping is excluded by maxAct
    match replayTick st with
    | some m => (st, "reject C13 " ++ m)
    | none =>
      -- relisting went on until the stop: the last activity is recent
      let lastAct := match st.consumes.getLast?, st.lists.getLast? with
        | some c, some (s, _, _) => max c s
        | _, some (s, _, _) => s
        | _, _ => 0
      let cycle := st.hi + st.latency + st.delay + 5000
      if stopAt > lastAct + cycle then
        (st, s!"reject C13 no list activity for {stopAt - lastAct}us before the stop (period {st.period}, latency {st.latency}, delay {st.delay})")
      else if (st.lists.length + 1) * cycle < stopAt then (st, s!"reject C13 only {st.lists.length} lists in {stopAt}us (a cycle takes at most {cycle}us)")
      else if doneSoon != "true" then (st, "reject C12/C13 the lister is not done 50ms after it was told to stop")
      else (st, "ok")
  | .list [.atom "end"] => (st, "ok")
  | _ => (st, "bad line")

end Driver
