/- ctrl engine: the controller against the fake API server, with watch/list faults and virtual time -/
import Driver.Decode
import Driver.CacheEng
import Driver.TreeEng
import KcacheModel.Sys
namespace Driver
open KC

structure ListCall where
  start : Nat
  finish : Nat
  rv : String

structure KState where
  started : Bool := false
  filter : Filter := .null
  period : Nat := 0
  latency : Nat := 0
  faultAt : Nat := 0
  faultKind : String := ""
  retryDelay : Nat := 1000
  fuzzPermille : Nat := 100
  /-- server history: (rv, type, object), oldest first -/
  history : List (Int × EvT × Obj) := []
  /-- index into `history` (number of events applied) that the cache was last seen to reflect -/
  applied : Nat := 0
  lists : List ListCall := []
  nLists : Nat := 0
  lastCache : Option (List Obj) := none
  closing : Bool := false
  settled : Bool := false
  inBurst : Bool := false
  dead : Bool := false
  wasReady : Bool := false
  /-- a Watch call that never returns is in flight at the settle point: the watch cannot reconnect -/
  blocked : Bool := false
  /-- keys whose cache entry a replayed stale DELETED frame may have removed; cleared by the next completed list -/
  spoiled : List Key := []
  spoiledAt : Nat := 0
  /-- the server's lists carry an empty resource version (a watch from "" starts at the current version) -/
  emptyRV : Bool := false
  /-- slow or gated lists answer with the snapshot taken when they were asked: after such a list the cache is only
      per key a past state of the server (the Lean invariant `CCut`) until the re-armed watch has caught up -/
  stale : Bool := false
  /-- the watch buffers overflowed (changes were lost): until a list of the current state completes, the cache is
      only per key a past state of the server -/
  lossy : Bool := false
  /-- virtual time of the previous observation -/
  lastNow : Nat := 0
  /-- the client is slow to return after cancellation and one of its calls is outstanding: the controller's own Done
      may lag, nothing below it may -/
  lagging : Bool := false

def stateAt (h : List (Int × EvT × Obj)) (n : Nat) : Items Key Obj :=
  (h.take n).foldl (fun m e => serverApply m e.2.1 e.2.2) []

def rvAt (h : List (Int × EvT × Obj)) (n : Nat) : Int :=
  match (h.take n).getLast? with
  | some e => e.1
  | none => 0

def decCalls : SExp → List (String × Nat × Nat × String)
  | .list xs => xs.filterMap fun c => match c with
    | .list [.atom "list", .atom s, .atom e, .atom rv] => some ("list", (s.toNat?).getD 0, (e.toInt?.map Int.toNat).getD 0, rv)
    | .list [.atom "watch", .atom s, .atom rv] => some ("watch", (s.toNat?).getD 0, 0, rv)
    | _ => none
  | _ => []

def viewOf (f : Filter) (m : Items Key Obj) : List Obj := (itemsList m).filter (accStd f)

/-- the accepted server content after each prefix of the history (index j = after the first j changes) -/
def prefixViews (f : Filter) (h : List (Int × EvT × Obj)) : List (List Obj) :=
  let step := fun (acc : Items Key Obj × List (List Obj)) (e : Int × EvT × Obj) =>
    let m := serverApply acc.1 e.2.1 e.2.2
    (m, viewOf f m :: acc.2)
  ((h.foldl step ([], [viewOf f []])).2).reverse

def ctrlLine (st : KState) (e : SExp) : KState × String :=
  match e with
  | .list [.atom "scenario", _, _] => ({}, "ok")
  | .list [.atom "end"] => (st, "ok")
  | _ =>
  -- the lifecycle judgements after Close / cancel do not depend on the model's state: they are made even when an
  -- earlier observation of the scenario has already been rejected
  if st.dead then
    (match e with
     | .list [.atom "closeroot"] => ({ st with closing := true }, "skip")
     | .list [.atom "cancel"] => ({ st with closing := true }, "skip")
     | .list [.atom "close-returned", b] =>
       if decBool b == some true then (st, "skip") else (st, "reject C12/C11 Close() has not returned at the quiescent point after it was called")
     | .list [.atom "cobs", _, _, d, _, _, _, _, _, _, _, _] =>
       if st.closing && decBool d == some false then (st, "reject C12/C11 the controller is not done at the quiescent point after Close/cancel")
       else (st, "skip")
     | _ => (st, "skip")) else
  match e with
  | .list [.atom "srv", .atom t, o] =>
    match decEvT t, decObj o with
    | some t, some o => ({ st with history := st.history ++ [((oVer o).getD 0, t, o)] }, "ok")
    | _, _ => (st, "bad srv")
  | .list [.atom "cstart", f, .atom p, .atom lat, .atom fa, .atom fk, .atom rd, .atom fz] =>
    match decFilter f with
    | some f => ({ st with started := true, filter := f, period := (p.toNat?).getD 0, latency := (lat.toNat?).getD 0, faultAt := (fa.toNat?).getD 0,
                           faultKind := fk, retryDelay := (rd.toNat?).getD 1000, fuzzPermille := (fz.toNat?).getD 100 }, "ok")
    | none => (st, "bad cstart")
  | .list [.atom "emptyrv"] => ({ st with emptyRV := true }, "ok")
  | .list [.atom "stalelist"] => ({ st with stale := true }, "ok")
  | .list [.atom "overflow"] => ({ st with lossy := true }, "ok")
  | .list (.atom "advance" :: _) => (st, "ok")
  | .list [.atom "inject", .atom "replay-delete", o] =>
    match decObj o with
    | some o => ({ st with spoiled := o.key :: st.spoiled, spoiledAt := st.nLists }, "ok")
    | none => (st, "bad inject")
  | .list (.atom "inject" :: _) => (st, "ok")
  | .list (.atom "watch-errors" :: _) => (st, "ok")
  | .list [.atom "watch-block"] => (st, "ok")
  | .list [.atom "burst-begin"] => ({ st with inBurst := true }, "ok")
  | .list [.atom "burst-end"] => ({ st with inBurst := false }, "ok")
  | .list [.atom "settle", b] => ({ st with settled := true, blocked := decBool b != some false }, "ok")
  | .list [.atom "cancel-lag", .atom v] => ({ st with lagging := v == "on" }, "ok")
  | .list [.atom "closeroot"] => ({ st with closing := true }, "ok")
  | .list [.atom "cancel"] => ({ st with closing := true }, "ok")
  | .list [.atom "close-returned", b] =>
    if decBool b == some true then (st, "ok") else ({ st with dead := true }, "reject C12/C11 Close() has not returned at the quiescent point after it was called")
  | .list [.atom "cobs", .atom now, r, d, .atom err, c, evs, ec, sd, .atom live, .atom maxActive, calls] =>
    match decBool r, decBool d, decCache c, decEvs evs, decBool ec with
    | some r, some d, some c, some ievs, some ec =>
      let now := (now.toNat?).getD 0
      let live := (live.toNat?).getD 0
      let callsRaw := calls
      let calls := decCalls calls
      let newLists := calls.filter (·.1 == "list")
      let listing := match callsRaw with
        | .list xs => xs.any (fun c => match c with | .list [.atom "listing", _] => true | _ => false)
        | _ => false
      let lists := st.lists ++ newLists.map (fun c => ({ start := c.2.1, finish := c.2.2.1, rv := c.2.2.2 } : ListCall))
      let nLists := lists.length
      let n := st.history.length
      -- the k-th list was made to fail?
      let failed := st.faultAt > 0 && nLists ≥ st.faultAt
      -- a list completed since the last replayed DELETED: the spoiled keys are repaired (C03)
      let doneLists := (lists.filter (·.finish > 0)).length
      let spoiled := if doneLists > st.spoiledAt then [] else st.spoiled
      let unspoil (l : List Obj) : List Obj := l.filter (fun o => !spoiled.contains o.key)
      let st1 := { st with lists := lists, nLists := doneLists, lastCache := c, spoiled := spoiled, lastNow := now }
      let fail (m : String) : KState × String := ({ st1 with dead := true }, m)
      -- ---- C14: list failures are fail-stop and reported; nothing else is fatal
      if failed && !st.closing then
        let wantErr := if st.faultKind == "error" || st.faultKind == "errorlist" then "list-error" else if st.faultKind == "canceled" then "canceled" else "list-invalid"
        if st.faultAt == 1 && r then fail s!"reject C08/C14 Ready() is closed although the first list failed ({st.faultKind})"
        else if !d then fail s!"reject C14/C11/C13 list {st.faultAt} failed ({st.faultKind}) but the controller is not done (a fatal list error must stop it and close everything below; if it goes on running it must go on listing)"
        else if err != wantErr then fail s!"reject C14 list {st.faultAt} failed ({st.faultKind}): Error() is {err}, expected {wantErr}"
        else if r != decide (st.faultAt > 1) then fail s!"reject C14/C08 list {st.faultAt} failed: Ready() is {r}"
        else if sd == .atom "false" then fail "reject C14/C11 the controller stopped on a list failure but its subscriber is not done"
        else (st1, "ok")
      else if d && !st.closing then
        fail s!"reject C14/C04/C03/C13 the controller stopped (Error {err}) although no list failed and nobody closed it"
      else if st.closing && st.lagging && !d then
        -- the controller waits for its client; its subscriber (everything below it) must be closed already
        if sd == .atom "false" then fail "reject C11 the controller was closed but its subscriber is not done: the tree below a controller must not wait for the controller's client calls to return"
        else (st1, "ok")
      else if st.closing then
        if !d then fail "reject C12/C11 the controller is not done at the quiescent point after Close/cancel"
        else if err != "nil" && err != "canceled" && !failed then fail s!"reject C14 a deliberately closed controller reports Error {err}"
        else if sd == .atom "false" then fail "reject C11 the controller is done but its subscriber is not"
        else (st1, "ok")
      else
      -- ---- running
      if !r then
        (if nLists > 0 && (lists.all fun l => l.finish > 0) && now > (lists.getLast?.map (·.finish)).getD 0 + 50 then
          fail "reject C08/C03 the first list completed but the controller is not ready" else (st1, "ok"))
      else
      match c with
      | none => fail "diff controller cache unreadable while running"
      | some cache =>
        -- C13: one list at a time
        if (maxActive.toNat?).getD 0 > 1 then fail s!"reject C13 {maxActive} list calls were in flight at once" else
        -- C13: spacing of consecutive lists (period with fuzz), and relisting never stops
        let lo := st.period * (1000 - st.fuzzPermille) / 1000
        let hi := st.period * (1000 + st.fuzzPermille) / 1000 + 1
        let spacingBad := (lists.zip (lists.drop 1)).find? (fun p => p.2.start + 5 < p.1.finish + lo)
        let lastEnd := (lists.getLast?.map (·.finish)).getD 0
        let lastStart := (lists.getLast?.map (·.start)).getD 0
        let inFlight := listing
        if spacingBad.isSome then
          fail s!"reject C13 a list started {(spacingBad.map fun p => p.2.start - p.1.finish)} ms after the previous result, less than {lo}"
        else if !inFlight && now > lastEnd + hi + st.latency + 2000 then
          fail s!"reject C13/C03 no list call for {now - lastEnd} ms (period {st.period}): relisting has stopped"
        else
        -- C03/C04: the cache is the accepted server state at some point of the history, never going backwards;
        -- with a live watch (or right after a complete list of the current state) it is the current state
        let listedNow := newLists.any (fun l => l.2.2.2 == toString (rvAt st.history n)) || (n == 0 && !newLists.isEmpty)
        let views := prefixViews st.filter st.history
        let viewAt (j : Nat) : List Obj := views.getD j []
        let candidates0 := (List.range (n + 1)).filter (fun j => j ≥ st.applied &&
          sameObjSet (unspoil cache) (unspoil (viewAt j)) &&
          -- a spoiled key is either gone or as the server has it
          cache.all (fun o => !spoiled.contains o.key || (viewAt j).contains o))
        -- after a stale list: per key, the cache holds what the server held for that key at some point
        let perKey := (st.stale || st.lossy) &&
          ((cache.map (·.key)) ++ (st.history.map (·.2.2.key))).eraseDups.all (fun k =>
            spoiled.contains k || (List.range (n + 1)).any (fun j =>
              cache.find? (·.key == k) == (viewAt j).find? (·.key == k)))
        let candidates := if candidates0.isEmpty && perKey then [st.applied] else candidates0
        -- (a server without list versions restarts every watch "from now": only a list makes the cache current)
        let mustBeCurrent := ((live > 0 && !st.emptyRV && !st.lossy) || listedNow) && !st.inBurst
        -- with watches restarting "from now" changes are lost between sessions: between lists the cache is only
        -- per key a past state; such scenarios are judged at the completed lists (C03) and at readiness (C08)
        if st.emptyRV && !mustBeCurrent then ({ st1 with wasReady := true }, "ok") else
        -- C03/C05: no object ever goes back to an older version
        -- (an object deleted in between may come back with whatever version a slow list carries: the cache keeps no
        -- tombstones; the re-armed watch then replays its way forward again)
        let regressed := cache.find? (fun o => match (st.lastCache.getD []).find? (·.key == o.key) with
          | some b => (oVer o).getD 0 < (oVer b).getD 0 &&
              !(st.history.any (fun e => e.2.1 == .delete && e.2.2.key == o.key && e.1 > (oVer b).getD 0))
          | none => false)
        if regressed.isSome then
          fail s!"reject C03/C05/C01 the cache went back to an older version: {showObjs ((regressed.map (fun o => [o])).getD [])} after {showObjs (st.lastCache.getD [])}"
        else
        match candidates.head? with
        | none =>
          fail s!"reject {if st.wasReady then "C03/C04" else "C03/C04/C08"} the cache {showObjs cache} is not the accepted server state at any point from event {st.applied} on (now: {showObjs (viewOf st.filter (stateAt st.history n))})"
        | some j =>
          let jmax := (candidates.getLast?).getD j
          -- C04: the server has been quiet for three reconnect delays and no Watch call is stuck
          if st.settled && !st.blocked && live == 0 then
            fail "reject C04 the server has been quiet for three reconnect delays (no Watch call is stuck) but no watch is connected: the watch was never re-established"
          else if mustBeCurrent && jmax != n then
            fail (s!"reject {if st.wasReady then "C03/C04" else "C03/C04/C08"} the watch is connected (or a list of the current state just completed) but the cache {showObjs cache} is behind the server {showObjs (viewOf st.filter (stateAt st.history n))}")
          else
            -- C02/C03: the subscriber's events account for the difference
            let before := st.lastCache.getD []
            -- (the content of the first list is not published as events: the mirror starts at readiness)
            -- (after an overflow the harness's own subscriber has overrun as well: its stream is not a delta)
            let evOk := !st.wasReady || st.lossy || (match replayObjs ievs before with
              | some m' => sameObjSet m' cache
              | none => false)
            if !evOk then fail s!"reject C02/C03/C05 subscriber events {showEvs ievs} do not lead from {showObjs before} to {showObjs cache}"
            else
              -- C04: every watch resumes from a version the controller has actually reached
              -- (after an overflow the watcher's resume version has moved past the lost changes)
              let wbad := if st.lossy then none else calls.find? (fun cl => cl.1 == "watch" &&
                (match cl.2.2.2.toInt? with
                 | some v => v > rvAt st.history (if mustBeCurrent then n else jmax) && v > (match lists.getLast? with | some l => l.rv.toInt?.getD 0 | none => 0)
                 | none => !(st.emptyRV && cl.2.2.2 == "")))
              -- … and not from before the last event received: when every list had completed by the previous
              -- observation, what the cache reflected then (event `st.applied`) had been received, and a reconnect since
              -- must not go back behind it (the server would replay what was already delivered)
              let listsOld := lists.all (fun l => l.finish > 0 && l.finish ≤ st.lastNow) && !listing
              let wlow := if st.lossy || st.stale || st.emptyRV || !st.spoiled.isEmpty || !spoiled.isEmpty || !listsOld || !st.wasReady then none
                else calls.find? (fun cl => cl.1 == "watch" &&
                  (match cl.2.2.2.toInt? with
                   | some v => v < rvAt st.history st.applied
                   | none => false))
              match wbad with
              | some cl => fail s!"reject C04 Watch was called with resourceVersion {cl.2.2.2}, beyond what the controller has received"
              | none =>
              match wlow with
              | some cl => fail s!"reject C04 Watch was called with resourceVersion {cl.2.2.2} although the controller had already received the change at version {rvAt st.history st.applied}: the reconnect does not resume after the last event received"
              | none => ({ st1 with applied := if mustBeCurrent then n else j, wasReady := true,
                                    lossy := st.lossy && !listedNow }, "ok")
    | _, _, _, _, _ => (st, "bad cobs")
  | _ => (st, "bad line")

end Driver
