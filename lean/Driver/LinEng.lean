/- lin engine: single-writer / many-reader histories of the real cache, checked for atomicity
   (no half-applied state, no value outside its real-time window, no new-old inversion) -/
import Driver.SExp
import KcacheModel.Lin
namespace Driver
open KC.Lin

abbrev Read := ReadOp

structure NState where
  writes : List (Nat × Nat × Nat) := []      -- k, call, ret
  reads : List Read := []
  gets : List (Nat × Nat × String × Option Nat) := []   -- call, ret, key, version
  bad : Option String := none
  /-- a round with 260+ objects per state -/
  big : Bool := false

def linKeys : List String := ["a/x", "a/y", "b/x", "b/y", "c/x"]

/-- the names of the objects of complete state `k` (the harness builds the same ones) -/
def linStateNames (big : Bool) (j : Nat) : List String :=
  if j == 0 then [] else
  let v := (j + 1) / 2
  let n := if big then 260 + v % 3 else v % 3 + 2
  let n := if j % 2 == 0 then (n + 1) / 2 else n
  (List.range n).map (fun i => if big then "n/" ++ toString ((v + i) % 400) else linKeys.getD ((v + i) % 5) "")

def parseItem (s : String) : Option (String × Nat) :=
  match s.splitOn "@" with
  | [n, v] => v.toNat?.map (fun v => (n, v))
  | _ => none

def sameNames (a b : List String) : Bool := a.length == b.length && (a.mergeSort (· ≤ ·)) == (b.mergeSort (· ≤ ·))

def classifyRead (big : Bool) (items : List String) : Except String Nat :=
  match items.mapM parseItem with
  | none => .error "unparsable item"
  | some [] => .ok 0
  | some ((n, v) :: rest) =>
    let names := ((n, v) :: rest).map (·.1)
    if !(rest.all (·.2 == v)) then .error s!"List() returned a mix of versions {items}: a half-applied relist/refilter"
    else if sameNames names (linStateNames big (2 * v - 1)) then .ok (2 * v - 1)
    else if sameNames names (linStateNames big (2 * v)) then .ok (2 * v)
    else .error s!"List() returned {items}, which is neither the complete state of version {v} nor its shrunk successor"

/-- the states a Get may have read: inside its real-time window, and holding the key at the returned version -/
def getStates (big : Bool) (wcall wret : Array Nat) (n : Nat) (g : Nat × Nat × String × Option Nat) : List Nat :=
  let (c, r, key, v) := g
  (List.range (n + 1)).filter fun k =>
    (k == 0 || wcall.getD k 0 < r) && (k == n || c < wret.getD (k + 1) 0) &&
    (if (linStateNames big k).contains key then v == some ((k + 1) / 2) else v == none)

/-- real-time order between reads that may each have read several states: (call, ret, lo, hi). A read that is
called after another one has returned cannot have read an older state: its newest candidate must not be older than
the oldest candidate of the earlier one. Returns a violating read together with the bound it misses. -/
def orderBad (items : List (Nat × Nat × Nat × Nat)) : Option ((Nat × Nat × Nat × Nat) × Nat) :=
  let a := items.mergeSort (fun x y => x.1 ≤ y.1)
  let b := items.mergeSort (fun x y => x.2.1 ≤ y.2.1)
  let step (acc : List (Nat × Nat × Nat × Nat) × Nat × Option ((Nat × Nat × Nat × Nat) × Nat)) (x : Nat × Nat × Nat × Nat) :=
    let (b, m, bad) := acc
    if bad.isSome then acc else
    let (done, rest) := b.span (fun y => y.2.1 < x.1)
    let m := done.foldl (fun m y => max m y.2.2.1) m
    if x.2.2.2 < m then (rest, m, some (x, m)) else (rest, m, none)
  (a.foldl step (b, 0, none)).2.2

def linLine (st : NState) (e : SExp) : NState × String :=
  match e with
  | .list [.atom "scenario", _, .atom m] => ({ big := m == "lin-big" }, "ok")
  | .list [.atom "w", .atom k, .atom c, .atom r] =>
    ({ st with writes := ((k.toNat?).getD 0, (c.toNat?).getD 0, (r.toNat?).getD 0) :: st.writes }, "ok")
  | .list [.atom "r", .atom id, .atom c, .atom r, items] =>
    match items with
    | .atom "err" => ({ st with bad := st.bad.orElse fun _ => some "List() failed while the cache was running" }, "ok")
    | .list xs =>
      match classifyRead st.big (xs.filterMap SExp.str) with
      | .ok k => ({ st with reads := ⟨(id.toNat?).getD 0, (c.toNat?).getD 0, (r.toNat?).getD 0, k⟩ :: st.reads }, "ok")
      | .error m => ({ st with bad := st.bad.orElse fun _ => some m }, "ok")
    | _ => (st, "bad r")
  | .list [.atom "g", .atom _, .atom c, .atom r, .atom key, .atom res] =>
    ({ st with gets := ((c.toNat?).getD 0, (r.toNat?).getD 0, key, res.toNat?) :: st.gets }, "ok")
  | .list [.atom "lin-end", .atom n] =>
    match st.bad with
    | some m => (st, "reject C15 " ++ m)
    | none =>
      let n := (n.toNat?).getD 0
      let ws : List WriteOp := st.writes.map fun w => ⟨w.1, w.2.1, w.2.2⟩
      let wcall (k : Nat) : Nat := KC.Lin.wcall ws k
      let wret (k : Nat) : Nat := KC.Lin.wret ws k
      -- the judgement is `KC.Lin.accepts` (proved sound and complete in Props/C15.lean); the three searches below are
      -- its conjuncts, kept apart only to word the verdict
      let early := earlyRead ws n st.reads
      let late := lateRead ws n st.reads
      let inv := inversionAt st.reads n
      let maxCallBelow (k : Nat) : Nat := KC.Lin.maxCallBelow st.reads k
      let minRetFrom (k : Nat) : Nat := (KC.Lin.minRetFrom st.reads k).getD 0
      -- (3) Get: the version of the key in some state of its window
      let getBad := st.gets.find? (fun g =>
        let (c, r, key, v) := g
        !((List.range (n + 1)).any (fun k =>
          (k == 0 || wcall k < r) && (k == n || c < wret (k + 1)) &&
          (if (linStateNames st.big k).contains key then v == some ((k + 1) / 2) else v == none))))
      -- (4) Gets and Lists together in real-time order: a Get pins the cache to the states in which the key has the
      -- returned version; a read called after another one returned must not need an older state
      let wcallA : Array Nat := ((List.range (n + 2)).map wcall).toArray
      let wretA : Array Nat := ((List.range (n + 2)).map wret).toArray
      let items : List (Nat × Nat × Nat × Nat) :=
        (st.gets.filterMap fun g =>
          match getStates st.big wcallA wretA n g with
          | [] => none
          | k :: ks => some (g.1, g.2.1, (k :: ks).foldl min k, (k :: ks).foldl max k)) ++
        (st.reads.map fun r => (r.call, r.ret, r.k, r.k))
      let ordBad := if getBad.isSome then none else orderBad items
      if !writesSequential ws n then (st, "diff the writer's own history is not sequential (harness fault)") else
      if early.isNone && late.isNone && inv.isNone && getBad.isNone && ordBad.isSome then
        -- the linear sweep found something: exhibit the pair with the search that `C15.backwardsPair_rejects_sound` is about
        (st, match backwardsPair (items.map fun i => ⟨i.1, i.2.1, i.2.2.1, i.2.2.2⟩) with
          | some (y, x) => s!"reject C15 a read in [{x.call},{x.ret}] returned a value the cache held no later than state {x.hi}, although the read in [{y.call},{y.ret}] had already returned one it held no earlier than state {y.lo}: reads went backwards (a half-applied write was visible)"
          | none => "diff the sweep over Gets and Lists reports a backwards pair that the reference search does not find") else
      match early, late, inv, getBad with
      | some r, _, _, _ => (st, s!"reject C15 reader {r.id} saw state {r.k} in [{r.call},{r.ret}] before its write was issued at {wcall r.k}")
      | _, some r, _, _ => (st, s!"reject C15 reader {r.id} still saw state {r.k} in [{r.call},{r.ret}] after write {r.k + 1} had returned at {wret (r.k + 1)}")
      | _, _, some k, _ => (st, s!"reject C15 new-old inversion around write {k}: a read that began at {maxCallBelow k} missed it after another read had returned it at {minRetFrom k}")
      | _, _, _, some g => (st, s!"reject C15 Get({g.2.2.1}) in [{g.1},{g.2.1}] returned {g.2.2.2}, not the key's version in any state of its window")
      | none, none, none, none => (st, if accepts ws n st.reads then "ok" else "diff checker conjuncts and Lin.accepts disagree")
  | _ => (st, "bad line")

end Driver
