/-
  kdriver: reads protocol lines on stdin, answers one line per input line.
  usage: kdriver <engine>       engines: filter | cache
-/
import Driver.SExp
import Driver.Decode
import Driver.FilterEng
import Driver.CacheEng
import Driver.TreeEng
import Driver.CtrlEng
import Driver.ListerEng
import Driver.LinEng
import Driver.JoinEng
import Driver.TypedEng
open Driver

partial def loopFilter (h : IO.FS.Stream) (out : IO.FS.Stream) (univ : List KC.Obj) : IO Unit := do
  let line ← h.getLine
  if line.isEmpty then return ()
  match parseLine line with
  | some (.list [.atom "universe", os]) =>
    match decObjs os with
    | some os => out.putStrLn "ok"; loopFilter h out os
    | none => out.putStrLn "bad universe"; loopFilter h out univ
  | some e => out.putStrLn (filterLine univ e); loopFilter h out univ
  | none => out.putStrLn "bad parse"; loopFilter h out univ

partial def loopCache (evMode : Bool) (h : IO.FS.Stream) (out : IO.FS.Stream) (st : CState) : IO Unit := do
  let line ← h.getLine
  if line.isEmpty then return ()
  match parseLine line with
  | some e =>
    let (st', o) := cacheLine evMode st e
    out.putStrLn o
    loopCache evMode h out st'
  | none =>
    out.putStrLn "bad parse"
    loopCache evMode h out st

partial def loopTree (h : IO.FS.Stream) (out : IO.FS.Stream) (st : TState) : IO Unit := do
  let line ← h.getLine
  if line.isEmpty then return ()
  match parseLine line with
  | some e =>
    let (st', o) := treeLine st e
    out.putStrLn o
    loopTree h out st'
  | none =>
    out.putStrLn "bad parse"
    loopTree h out st

partial def loopCtrl (h : IO.FS.Stream) (out : IO.FS.Stream) (st : KState) : IO Unit := do
  let line ← h.getLine
  if line.isEmpty then return ()
  match parseLine line with
  | some e =>
    let (st', o) := ctrlLine st e
    out.putStrLn o
    loopCtrl h out st'
  | none =>
    out.putStrLn "bad parse"
    loopCtrl h out st

partial def loopLister (h : IO.FS.Stream) (out : IO.FS.Stream) (st : LState) : IO Unit := do
  let line ← h.getLine
  if line.isEmpty then return ()
  match parseLine line with
  | some e =>
    let (st', o) := listerLine st e
    out.putStrLn o
    loopLister h out st'
  | none =>
    out.putStrLn "bad parse"
    loopLister h out st

partial def loopLin (h : IO.FS.Stream) (out : IO.FS.Stream) (st : NState) : IO Unit := do
  let line ← h.getLine
  if line.isEmpty then return ()
  match parseLine line with
  | some e =>
    let (st', o) := linLine st e
    out.putStrLn o
    loopLin h out st'
  | none =>
    out.putStrLn "bad parse"
    loopLin h out st

partial def loopJoin (h : IO.FS.Stream) (out : IO.FS.Stream) (st : JState) : IO Unit := do
  let line ← h.getLine
  if line.isEmpty then return ()
  match parseLine line with
  | some e =>
    let (st', o) := joinLine st e
    out.putStrLn o
    loopJoin h out st'
  | none =>
    out.putStrLn "bad parse"
    loopJoin h out st

partial def loopTyped (h : IO.FS.Stream) (out : IO.FS.Stream) (st : YState) : IO Unit := do
  let line ← h.getLine
  if line.isEmpty then return ()
  match parseLine line with
  | some e =>
    let (st', o) := typedLine st e
    out.putStrLn o
    loopTyped h out st'
  | none =>
    out.putStrLn "bad parse"
    loopTyped h out st

partial def loopRest (h : IO.FS.Stream) (out : IO.FS.Stream) : IO Unit := do
  let line ← h.getLine
  if line.isEmpty then return ()
  match parseLine line with
  | some e => out.putStrLn (restLine e); loopRest h out
  | none => out.putStrLn "bad parse"; loopRest h out

def main (args : List String) : IO UInt32 := do
  let stdin ← IO.getStdin
  let stdout ← IO.getStdout
  match args with
  | ["filter"] => loopFilter stdin stdout []; return 0
  | ["cache"] => loopCache false stdin stdout {}; return 0
  | ["typed"] => loopTyped stdin stdout {}; return 0
  | ["rest"] => loopRest stdin stdout; return 0
  | ["join"] => loopJoin stdin stdout {}; return 0
  | ["lin"] => loopLin stdin stdout {}; return 0
  | ["lister"] => loopLister stdin stdout {}; return 0
  | ["ctrl"] => loopCtrl stdin stdout {}; return 0
  | ["tree"] => loopTree stdin stdout {}; return 0
  | ["cache-events"] => loopCache true stdin stdout {}; return 0
  | _ => IO.eprintln "usage: kdriver <filter|cache>"; return 2
