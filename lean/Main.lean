def main : IO Unit := IO.println "kdriver"
