import KcacheModel.Base
import KcacheModel.Filter
import KcacheModel.Workloads
import KcacheModel.Proofs.Filters
import KcacheModel.Props.C17
import KcacheModel.Props.C18
import KcacheModel.Props.C19
