/-
  The cache as an actor (cache.go: `run` + the request/response plumbing of sync/update/refilter/List/Get):
  callers enqueue requests on unbuffered channels, the single cache goroutine takes one request at a time,
  applies it to its state and hands the result back on the request's own buffered result channel.
  One label = one observable instant: a caller's call, the goroutine processing a request, a caller's return.
  Generic in the state, the operations and the sequential semantics `apply`.
-/
namespace KC

inductive AEv (Op Res : Type)
  | call (i : Nat) (op : Op)
  | proc (i : Nat)
  | ret (i : Nat)

structure ASt (S Op Res : Type) where
  st : S
  /-- requests whose caller is blocked in the `select` sending it -/
  pending : List (Nat × Op) := []
  /-- results sitting in a result channel, not yet received by the caller -/
  computed : List (Nat × Res) := []
  /-- ghost: the order in which requests were processed, with their results -/
  lin : List (Nat × Op × Res) := []
  /-- ghost: results received by callers -/
  returned : List (Nat × Res) := []
  /-- ghost: all call ids so far -/
  called : List Nat := []
  /-- ghost: (i, j): call `i` had returned when call `j` was made -/
  before : List (Nat × Nat) := []

section
variable {S Op Res : Type} (apply : S → Op → S × Res)

def lookupId {α : Type} (i : Nat) : List (Nat × α) → Option α
  | [] => none
  | (j, a) :: rest => if j = i then some a else lookupId i rest

def removeId {α : Type} (i : Nat) : List (Nat × α) → List (Nat × α)
  | [] => []
  | (j, a) :: rest => if j = i then removeId i rest else (j, a) :: removeId i rest

def ASt.enabled (s : ASt S Op Res) : AEv Op Res → Bool
  | .call i _ => !s.called.contains i
  | .proc i => (lookupId i s.pending).isSome
  | .ret i => (lookupId i s.computed).isSome

def ASt.step (s : ASt S Op Res) : AEv Op Res → ASt S Op Res
  | .call i op =>
    { s with pending := s.pending ++ [(i, op)], called := i :: s.called,
             before := s.before ++ s.returned.map (fun p => (p.1, i)) }
  | .proc i =>
    match lookupId i s.pending with
    | some op =>
      let r := apply s.st op
      { s with st := r.1, pending := removeId i s.pending, computed := s.computed ++ [(i, r.2)],
               lin := s.lin ++ [(i, op, r.2)] }
    | none => s
  | .ret i =>
    match lookupId i s.computed with
    | some r => { s with computed := removeId i s.computed, returned := s.returned ++ [(i, r)] }
    | none => s

def ASt.run (s : ASt S Op Res) : List (AEv Op Res) → Option (ASt S Op Res)
  | [] => some s
  | e :: es => if s.enabled e then (s.step apply e).run es else none

/-- the sequential specification: apply the operations one after the other -/
def seqRun (s : S) : List Op → S × List Res
  | [] => (s, [])
  | op :: ops => let r := apply s op; let rest := seqRun r.1 ops; (rest.1, r.2 :: rest.2)

def idxOf (i : Nat) : List (Nat × Op × Res) → Option Nat
  | [] => none
  | (j, _, _) :: rest => if j = i then some 0 else (idxOf i rest).map (· + 1)

end
end KC
