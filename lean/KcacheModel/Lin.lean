/-
  Single-writer / many-reader histories of the cache (C15): the checker used by the lin engine, and what a
  linearization of such a history is. (cache.go serves reads and writes from one goroutine; the harness stamps
  calls and returns with one atomic counter.)
-/
namespace KC.Lin

structure WriteOp where
  k : Nat
  call : Nat
  ret : Nat

structure ReadOp where
  id : Nat
  call : Nat
  ret : Nat
  /-- which complete state the read returned -/
  k : Nat

def findW (ws : List WriteOp) (k : Nat) : Option WriteOp := ws.find? (·.k == k)
def wcall (ws : List WriteOp) (k : Nat) : Nat := if k == 0 then 0 else ((findW ws k).map (·.call)).getD 0
def wret (ws : List WriteOp) (k : Nat) : Nat := if k == 0 then 0 else ((findW ws k).map (·.ret)).getD 0

/-- the writer is one goroutine: write k+1 is issued after write k returned -/
def writesSequential (ws : List WriteOp) (n : Nat) : Bool :=
  (List.range n).all fun i => wcall ws (i + 1) < wret ws (i + 1) && wret ws i < wcall ws (i + 1)

def maxCall (rs : List ReadOp) : Nat := rs.foldl (fun m r => max m r.call) 0
def minRet : List ReadOp → Option Nat
  | [] => none
  | r :: rs => some (rs.foldl (fun m r => min m r.ret) r.ret)

def maxCallBelow (rs : List ReadOp) (k : Nat) : Nat := maxCall (rs.filter (·.k < k))
def minRetFrom (rs : List ReadOp) (k : Nat) : Option Nat := minRet (rs.filter (fun r => decide (r.k ≥ k)))

def earlyRead (ws : List WriteOp) (n : Nat) (rs : List ReadOp) : Option ReadOp :=
  rs.find? fun r => decide (r.k > n) || !(decide (wcall ws r.k < r.ret)) || !(decide (r.call < r.ret))
def lateRead (ws : List WriteOp) (n : Nat) (rs : List ReadOp) : Option ReadOp :=
  rs.find? fun r => decide (r.k < n) && !(decide (r.call < wret ws (r.k + 1)))
def inversionAt (rs : List ReadOp) (n : Nat) : Option Nat :=
  (List.range (n + 2)).find? fun k => decide (k ≥ 1) && (match minRetFrom rs k with
    | none => false
    | some m => !(decide (maxCallBelow rs k < m)))

def accepts (ws : List WriteOp) (n : Nat) (rs : List ReadOp) : Bool :=
  (earlyRead ws n rs).isNone && (lateRead ws n rs).isNone && (inversionAt rs n).isNone

/-! ### the linearization the checker's acceptance yields -/

/-- position of an operation in the linearization: writes and reads ordered by the state they write / return,
a write before the reads of its state, reads of one state by invocation time -/
abbrev Rank := Nat × Nat × Nat
def rankW (k : Nat) : Rank := (k, 0, 0)
def rankR (r : ReadOp) : Rank := (r.k, 1, r.call)
def Rank.lt (a b : Rank) : Prop := a.1 < b.1 ∨ (a.1 = b.1 ∧ (a.2.1 < b.2.1 ∨ (a.2.1 = b.2.1 ∧ a.2.2 < b.2.2)))

/-- what it means for rankings of the writes `1..n` and of the reads to be a linearization of the history:
* real time is respected — whenever one operation returned before another was invoked it ranks lower;
* it is legal — a read of state `k` ranks above exactly the writes `1..k`, i.e. the last write before it in the
  linearization is the write of the state it returned (state 0 is the initial, empty cache). -/
structure IsLinearization (ws : List WriteOp) (n : Nat) (rs : List ReadOp) (wk : Nat → Rank) (rk : ReadOp → Rank) : Prop where
  write_read : ∀ r ∈ rs, ∀ k, 1 ≤ k → k ≤ n → wret ws k < r.call → (wk k).lt (rk r)
  read_write : ∀ r ∈ rs, ∀ k, 1 ≤ k → k ≤ n → r.ret < wcall ws k → (rk r).lt (wk k)
  read_read : ∀ r1 ∈ rs, ∀ r2 ∈ rs, r1.ret < r2.call → (rk r1).lt (rk r2)
  write_write : ∀ j k, 1 ≤ j → j < k → k ≤ n → (wk j).lt (wk k)
  legal : ∀ r ∈ rs, r.k ≤ n ∧ ∀ j, 1 ≤ j → j ≤ n → ((wk j).lt (rk r) ↔ j ≤ r.k)

/-- the history is well formed: every read returns after it was invoked, and no two time stamps of different
operations coincide (the harness draws them from one atomic counter) -/
structure WellFormed (ws : List WriteOp) (n : Nat) (rs : List ReadOp) : Prop where
  read_pos : ∀ r ∈ rs, r.call < r.ret
  rw_distinct : ∀ r ∈ rs, ∀ k, 1 ≤ k → k ≤ n → r.ret ≠ wcall ws k ∧ r.call ≠ wret ws k
  rr_distinct : ∀ r1 ∈ rs, ∀ r2 ∈ rs, r1.ret ≠ r2.call

/-! ### reads that pin the cache to a range of states (Get) -/

/-- a read whose answer is consistent with the states `lo..hi` only (a `List()` has `lo = hi`; a `Get` is consistent
with every state in which the key has the returned version) -/
structure RangeRead where
  call : Nat
  ret : Nat
  lo : Nat
  hi : Nat

/-- an atomic cache assigns to every read one state it actually read: inside its range, and never older than what a
read that had already returned before this one was invoked was given -/
def ValidAssign (items : List RangeRead) (s : RangeRead → Nat) : Prop :=
  (∀ x ∈ items, x.lo ≤ s x ∧ s x ≤ x.hi) ∧ (∀ x ∈ items, ∀ y ∈ items, y.ret < x.call → s y ≤ s x)

/-- is `(y, x)` a backwards pair: `y` returned before `x` was invoked, yet everything `x` may have read is older than
everything `y` may have read -/
def backwards (y x : RangeRead) : Bool := decide (y.ret < x.call) && decide (x.hi < y.lo)

/-- search for a backwards pair (quadratic; the driver runs it only to confirm what its linear sweep found) -/
def backwardsPair (items : List RangeRead) : Option (RangeRead × RangeRead) :=
  items.findSome? fun x => (items.find? fun y => backwards y x).map fun y => (y, x)

end KC.Lin
