/-
  Typed layer (types/*/generated.go) and REST clients (client/client.go, types/*/client.go).

  The typed layer is the generic core behind an adapter `adapt : O → Option T` (the type assertion of
  `_adapter.adaptObject`): cache reads, subscription events and monitor callbacks are mapped through it and
  what it rejects is skipped.
-/
import KcacheModel.Cache
import KcacheModel.Mon
namespace KC

section
variable {O T : Type} (adapt : O → Option T)

/-- `adaptList`: objects of another type are skipped -/
def adaptList (l : List O) : List T := l.filterMap adapt

/-- `cache.Get`: not-found stays not-found; a foreign object is an error -/
inductive TGet (T : Type)
  | notFound
  | invalidType
  | found (t : T)
  deriving Repr

def typedGet (r : Option O) : TGet T :=
  match r with
  | none => .notFound
  | some o => match adapt o with
    | some t => .found t
    | none => .invalidType

/-- `subscription.run`: every untyped event is wrapped; one that does not wrap is logged and skipped -/
def typedEvents (evs : List (Ev O)) : List (Ev T) :=
  evs.filterMap fun e => (adapt e.obj).map fun t => ⟨e.t, t⟩

/-- the handler that `NewMonitor` registers with the untyped monitor -/
def typedCallback : Callback O → Option (Callback T)
  | .init l => some (.init (adaptList adapt l))
  | .create o => (adapt o).map .create
  | .update o => (adapt o).map .update
  | .delete o => (adapt o).map .delete

def typedLog (log : List (Callback O)) : List (Callback T) := log.filterMap (typedCallback adapt)
end

/-! ### REST requests -/

/-- `metav1.ListOptions` as far as the controller sets it -/
structure ListOpts where
  resourceVersion : String := ""
  watch : Bool := false
  deriving DecidableEq, Repr

structure RestReq where
  verb : String
  segments : List String
  query : List (String × String)
  deriving DecidableEq, Repr

/-- `Namespace(ns)`: rest.Request omits the namespace segments when `ns` is empty -/
def nsSegments (ns : String) : List String := if ns = "" then [] else ["namespaces", ns]

/-- `VersionedParams(&opts, scheme.ParameterCodec)`: zero-valued fields are omitted -/
def optsQuery (o : ListOpts) : List (String × String) :=
  (if o.resourceVersion = "" then [] else [("resourceVersion", o.resourceVersion)]) ++
  (if o.watch then [("watch", "true")] else [])

/-- `makeResourceListFn`: `c.Get().Namespace(ns).Resource(res).VersionedParams(&opts)` -/
def listReq (apiPrefix : List String) (res ns : String) (o : ListOpts) : RestReq :=
  ⟨"GET", apiPrefix ++ nsSegments ns ++ [res], optsQuery o⟩

/-- `makeResourceWatchFn`: `c.Get().Prefix("watch").Namespace(ns).Resource(res).VersionedParams(&opts).Watch` -/
def watchReq (apiPrefix : List String) (res ns : String) (o : ListOpts) : RestReq :=
  ⟨"GET", apiPrefix ++ ["watch"] ++ nsSegments ns ++ [res], optsQuery o⟩

inductive RestCall
  | list (o : ListOpts)
  | watch (o : ListOpts)

/-- a client is stateless: the k-th request depends on the k-th call only -/
def clientReqs (apiPrefix : List String) (res ns : String) (calls : List RestCall) : List RestReq :=
  calls.map fun
    | .list o => listReq apiPrefix res ns o
    | .watch o => watchReq apiPrefix res ns o

/-- the API resource of each typed package: (package, API path prefix, resource) — the group/version that
serves the package's object type (`ObjectType` in its generated.go) -/
def apiTable : List (String × List String × String) :=
  [ ("daemonset", ["apis", "apps", "v1"], "daemonsets"),
    ("deployment", ["apis", "apps", "v1"], "deployments"),
    ("event", ["api", "v1"], "events"),
    ("ingress", ["apis", "networking.k8s.io", "v1beta1"], "ingresses"),
    ("job", ["apis", "batch", "v1"], "jobs"),
    ("node", ["api", "v1"], "nodes"),
    ("pod", ["api", "v1"], "pods"),
    ("replicaset", ["apis", "apps", "v1"], "replicasets"),
    ("replicationcontroller", ["api", "v1"], "replicationcontrollers"),
    ("secret", ["api", "v1"], "secrets"),
    ("service", ["api", "v1"], "services"),
    ("statefulset", ["apis", "apps", "v1"], "statefulsets") ]

def apiOf (pkg : String) : Option (List String × String) := (apiTable.find? (·.1 == pkg)).map (·.2)

end KC
