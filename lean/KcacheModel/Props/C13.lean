/-
  C13 — Periodic relisting never stops while the controller runs.
  Property theorems only (model: Tick.lean). Every (period, list latency, consumption delay) combination and
  every schedule = every label list accepted by `Tick.run`.
-/
import KcacheModel.Tick
namespace KC.C13
open KC

structure TInv (s : Tick) : Prop where
  bounds : s.lo ≤ s.hi
  not_stuck : s.stuck = false
  /-- while waiting for a tick: the timer was armed by the Reset at consumption time … -/
  armed_window : s.ph = .waiting → ∀ dl, s.tmr = .armed dl → s.lastConsumed + s.lo ≤ dl ∧ dl ≤ s.lastConsumed + s.hi
  fired_late : s.ph = .waiting → s.tmr = .fired → s.lastConsumed + s.lo ≤ s.now
  offer_late : s.ph = .waiting → s.offer = true → s.lastConsumed + s.lo ≤ s.now
  /-- … and something will produce the next tick: the timer is armed or fired, or the tick is on offer -/
  idle_offer : s.ph = .waiting → s.tmr = .idle → s.offer = true
  consumed_past : s.lastConsumed ≤ s.now

theorem tinv_init (lo hi lat d : Nat) (h : lo ≤ hi) : TInv (Tick.init lo hi lat d) := by
  refine ⟨h, rfl, ?_, ?_, ?_, ?_, by simp [Tick.init]⟩ <;> (intro hp; simp [Tick.init] at hp)

theorem tinv_step (s : Tick) (l : TLabel) (h : TInv s) (hen : s.enabled l = true) : TInv (Tick.step true s l) := by
  obtain ⟨hb, hs, haw, hfl, hol, hio, hcp⟩ := h
  cases l with
  | advance t =>
    simp only [Tick.step]
    exact ⟨hb, hs, haw, (fun h1 h2 => by have := hfl h1 h2; show s.lastConsumed + s.lo ≤ s.now + t; omega),
      (fun h1 h2 => by have := hol h1 h2; show s.lastConsumed + s.lo ≤ s.now + t; omega), hio,
      by show s.lastConsumed ≤ s.now + t; omega⟩
  | fire =>
    simp only [Tick.enabled] at hen
    simp only [Tick.step]
    cases ht : s.tmr with
    | armed dl =>
      simp only [ht, decide_eq_true_eq] at hen
      refine ⟨hb, hs, (fun _ dl' h' => by cases h'), fun hp _ => ?_, hol, (fun _ h' => by cases h'), hcp⟩
      have := (haw hp dl ht).1; show s.lastConsumed + s.lo ≤ s.now; omega
    | fired => simp [ht] at hen
    | idle => simp [ht] at hen
  | recv =>
    simp only [Tick.enabled, Bool.and_eq_true, Bool.not_eq_true', beq_iff_eq] at hen
    simp only [Tick.step]
    exact ⟨hb, hs, (fun _ dl h' => by cases h'), (fun _ h' => by cases h'), fun hp _ => hfl hp hen.2, fun _ _ => rfl, hcp⟩
  | tick lat d =>
    simp only [Tick.step]
    exact ⟨hb, hs, (fun hp => by cases hp), (fun hp => by cases hp), (fun hp => by cases hp), (fun hp => by cases hp), hcp⟩
  | done =>
    simp only [Tick.step]
    exact ⟨hb, hs, (fun hp => by cases hp), (fun hp => by cases hp), (fun hp => by cases hp), (fun hp => by cases hp), hcp⟩
  | consume d =>
    simp only [Tick.enabled, Bool.and_eq_true, Bool.not_eq_true', beq_iff_eq, decide_eq_true_eq] at hen
    obtain ⟨⟨⟨_, _⟩, hlo⟩, hhi⟩ := hen
    simp only [Tick.step, Bool.not_true, Bool.false_and, Bool.false_eq_true, ↓reduceIte]
    refine ⟨hb, hs, ?_, (fun _ h' => by cases h'), (fun _ h' => by cases h'), (fun _ h' => by cases h'), Nat.le_refl _⟩
    intro _ dl hdl
    simp only [Tmr.armed.injEq] at hdl
    subst hdl
    exact ⟨by show s.now + s.lo ≤ s.now + d; omega, by show s.now + d ≤ s.now + s.hi; omega⟩

theorem tinv_run (s : Tick) (ls : List TLabel) (s' : Tick) (h : TInv s) (hr : s.run true ls = some s') : TInv s' := by
  induction ls generalizing s with
  | nil => simp [Tick.run] at hr; subst hr; exact h
  | cons l ls ih =>
    simp only [Tick.run] at hr
    split at hr
    · rename_i hen; exact ih _ (tinv_step s l h hen) hr
    · cases hr

/-- **the ticker never blocks**: in no reachable state is the ticker goroutine stuck in a drain — for every
period, list latency (slower than the period included), consumption delay and schedule -/
theorem never_stuck (lo hi lat d : Nat) (h : lo ≤ hi) (ls : List TLabel) (s : Tick)
    (hr : (Tick.init lo hi lat d).run true ls = some s) : s.stuck = false :=
  (tinv_run _ ls s (tinv_init lo hi lat d h) hr).not_stuck

/-- **one list at a time**: a new list can only start while no list is running and no result is pending -/
theorem one_list_at_a_time (s : Tick) (lat d : Nat) (hen : s.enabled (.tick lat d) = true) : s.ph = .waiting := by
  simp only [Tick.enabled, Bool.and_eq_true, beq_iff_eq] at hen
  exact hen.1.1.2

/-- **minimum spacing**: every list (after the first) starts no earlier than `lo` = period − fuzz after the
previous result was consumed -/
theorem min_spacing (lo hi lat0 d0 : Nat) (h : lo ≤ hi) (ls : List TLabel) (s : Tick)
    (hr : (Tick.init lo hi lat0 d0).run true ls = some s) (lat d : Nat) (hen : s.enabled (.tick lat d) = true) :
    s.lastConsumed + s.lo ≤ s.now := by
  have hi' := tinv_run _ ls s (tinv_init lo hi lat0 d0 h) hr
  simp only [Tick.enabled, Bool.and_eq_true, beq_iff_eq] at hen
  exact hi'.offer_late hen.1.1.2 hen.1.1.1.2

/-- **relisting never stops**: while waiting for the next tick, once `hi` = period + fuzz has passed since the
result was consumed, a step towards the next list is enabled — the timer fires, its tick is received, or the
tick is handed to the lister, which starts the list. Together with `never_stuck` nothing can prevent it. -/
theorem relist_progress (lo hi lat0 d0 : Nat) (h : lo ≤ hi) (ls : List TLabel) (s : Tick)
    (hr : (Tick.init lo hi lat0 d0).run true ls = some s) (hw : s.ph = .waiting)
    (ht : s.lastConsumed + s.hi ≤ s.now) :
    s.enabled .fire = true ∨ s.enabled .recv = true ∨ s.enabled (.tick 0 s.lo) = true := by
  have hi' := tinv_run _ ls s (tinv_init lo hi lat0 d0 h) hr
  cases htm : s.tmr with
  | armed dl =>
    left
    have := (hi'.armed_window hw dl htm).2
    simp only [Tick.enabled, htm, decide_eq_true_eq]; omega
  | fired => right; left; simp [Tick.enabled, htm, hi'.not_stuck]
  | idle =>
    right; right
    have ho := hi'.idle_offer hw htm
    simp [Tick.enabled, hi'.not_stuck, ho, hw, hi'.bounds]

/-- while a list is running or its result is pending the lister does not wait for ticks at all: a finished
list is always followed by `done`, a pending result can always be consumed -/
theorem result_always_consumable (lo hi lat0 d0 : Nat) (h : lo ≤ hi) (ls : List TLabel) (s : Tick)
    (hr : (Tick.init lo hi lat0 d0).run true ls = some s) (hp : s.ph = .pending) :
    s.enabled (.consume s.lo) = true := by
  have hi' := tinv_run _ ls s (tinv_init lo hi lat0 d0 h) hr
  simp [Tick.enabled, hi'.not_stuck, hp, hi'.bounds]

/-- **the code before the repair does get stuck** (finding D4, fixed): a list slower than the period —
the timer fires and its tick is received while the list runs; consuming the result then blocks the ticker
forever, so no further list is ever issued -/
theorem unrepaired_gets_stuck : ∃ s, (Tick.init 9 11 20 10).run false
    [.advance 10, .fire, .recv, .advance 10, .done, .consume 10] = some s ∧ s.stuck = true :=
  ⟨_, rfl, by decide⟩

/-- … and once stuck, nothing the ticker does is enabled any more -/
theorem stuck_is_dead (s : Tick) (hs : s.stuck = true) (lat d : Nat) :
    s.enabled .recv = false ∧ s.enabled (.tick lat d) = false ∧ s.enabled (.consume d) = false := by
  simp [Tick.enabled, hs]

/-! non-vacuity: a slow list (latency 20 > period ≈ 10) with the repaired ticker keeps relisting -/
example : ∃ s, (Tick.init 9 11 20 10).run true
    [.advance 10, .fire, .recv, .advance 10, .done, .consume 10, .advance 10, .fire, .recv, .tick 20 10] = some s ∧
    s.starts = [30] ∧ s.stuck = false := ⟨_, rfl, by decide, by decide⟩

end KC.C13

#print axioms KC.C13.never_stuck
#print axioms KC.C13.one_list_at_a_time
#print axioms KC.C13.min_spacing
#print axioms KC.C13.relist_progress
#print axioms KC.C13.result_always_consumable
#print axioms KC.C13.unrepaired_gets_stuck
