/-
  C13 — Periodic relisting never stops while the controller runs.
  Property theorems only (model: Tick.lean). Every (period, list latency, consumption delay) combination and
  every schedule = every label list accepted by `Tick.run`.
-/
import KcacheModel.Tick
import KcacheModel.Proofs.Tick
namespace KC.C13
open KC

/-- **the ticker never blocks**: in no reachable state is the ticker goroutine stuck in a drain — for every
period, list latency (slower than the period included), consumption delay and schedule -/
theorem never_stuck (lo hi lat d : Nat) (h : lo ≤ hi) (ls : List TLabel) (s : Tick)
    (hr : (Tick.init lo hi lat d).run true ls = some s) : s.stuck = false :=
  (tinv_run _ ls s (tinv_init lo hi lat d h) hr).not_stuck

/-- **one list at a time**: a new list can only start while no list is running and no result is pending -/
theorem one_list_at_a_time (s : Tick) (lat d : Nat) (hen : s.enabled (.tick lat d) = true) : s.ph = .waiting := by
  simp only [Tick.enabled, Bool.and_eq_true, beq_iff_eq] at hen
  exact hen.1.1.2

/-- **minimum spacing**: every list (after the first) starts no earlier than `lo` = period − fuzz after the
previous result was consumed -/
theorem min_spacing (lo hi lat0 d0 : Nat) (h : lo ≤ hi) (ls : List TLabel) (s : Tick)
    (hr : (Tick.init lo hi lat0 d0).run true ls = some s) (lat d : Nat) (hen : s.enabled (.tick lat d) = true) :
    s.lastConsumed + s.lo ≤ s.now := by
  have hi' := tinv_run _ ls s (tinv_init lo hi lat0 d0 h) hr
  simp only [Tick.enabled, Bool.and_eq_true, beq_iff_eq] at hen
  exact hi'.offer_late hen.1.1.2 hen.1.1.1.2

/-- **relisting never stops**: while waiting for the next tick, once `hi` = period + fuzz has passed since the
result was consumed, a step towards the next list is enabled — the timer fires, its tick is received, or the
tick is handed to the lister, which starts the list. Together with `never_stuck` nothing can prevent it. -/
theorem relist_progress (lo hi lat0 d0 : Nat) (h : lo ≤ hi) (ls : List TLabel) (s : Tick)
    (hr : (Tick.init lo hi lat0 d0).run true ls = some s) (hw : s.ph = .waiting)
    (ht : s.lastConsumed + s.hi ≤ s.now) :
    s.enabled .fire = true ∨ s.enabled .recv = true ∨ s.enabled (.tick 0 s.lo) = true := by
  have hi' := tinv_run _ ls s (tinv_init lo hi lat0 d0 h) hr
  cases htm : s.tmr with
  | armed dl =>
    left
    have := (hi'.armed_window hw dl htm).2
    simp only [Tick.enabled, htm, decide_eq_true_eq]; omega
  | fired => right; left; simp [Tick.enabled, htm, hi'.not_stuck]
  | idle =>
    right; right
    have ho := hi'.idle_offer hw htm
    simp [Tick.enabled, hi'.not_stuck, ho, hw, hi'.bounds]

/-- while a list is running or its result is pending the lister does not wait for ticks at all: a finished
list is always followed by `done`, a pending result can always be consumed -/
theorem result_always_consumable (lo hi lat0 d0 : Nat) (h : lo ≤ hi) (ls : List TLabel) (s : Tick)
    (hr : (Tick.init lo hi lat0 d0).run true ls = some s) (hp : s.ph = .pending) :
    s.enabled (.consume s.lo) = true := by
  have hi' := tinv_run _ ls s (tinv_init lo hi lat0 d0 h) hr
  simp [Tick.enabled, hi'.not_stuck, hp, hi'.bounds]

/-- **the code before the repair does get stuck** (finding D4, fixed): a list slower than the period —
the timer fires and its tick is received while the list runs; consuming the result then blocks the ticker
forever, so no further list is ever issued -/
theorem unrepaired_gets_stuck : ∃ s, (Tick.init 9 11 20 10).run false
    [.advance 10, .fire, .recv, .advance 10, .done, .consume 10] = some s ∧ s.stuck = true :=
  ⟨_, rfl, by decide⟩

/-- … and once stuck, nothing the ticker does is enabled any more -/
theorem stuck_is_dead (s : Tick) (hs : s.stuck = true) (lat d : Nat) :
    s.enabled .recv = false ∧ s.enabled (.tick lat d) = false ∧ s.enabled (.consume d) = false := by
  simp [Tick.enabled, hs]

/-! non-vacuity: a slow list (latency 20 > period ≈ 10) with the repaired ticker keeps relisting -/
example : ∃ s, (Tick.init 9 11 20 10).run true
    [.advance 10, .fire, .recv, .advance 10, .done, .consume 10, .advance 10, .fire, .recv, .tick 20 10] = some s ∧
    s.starts = [30] ∧ s.stuck = false := ⟨_, rfl, by decide, by decide⟩

end KC.C13

#print axioms KC.C13.never_stuck
#print axioms KC.C13.one_list_at_a_time
#print axioms KC.C13.min_spacing
#print axioms KC.C13.relist_progress
#print axioms KC.C13.result_always_consumable
#print axioms KC.C13.unrepaired_gets_stuck
