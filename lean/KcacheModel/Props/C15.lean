/-
  C15 — Cache reads are atomic snapshots, linearizable with updates.
  Property theorems only (model: Actor.lean). All numbers of callers and all interleavings of calls,
  processing instants and returns = all event lists accepted by `ASt.run`.
-/
import KcacheModel.Actor
import KcacheModel.Cache
import KcacheModel.Proofs.Actor
import KcacheModel.Lin
import KcacheModel.Proofs.Lin
namespace KC.C15
open KC

section
variable {S Op Res : Type} (apply : S → Op → S × Res)

/-- **linearizable, with the processing instant as linearization point** — for every number of callers and
every interleaving of calls, processing instants and returns:
(1) the processed requests applied one after the other to the initial state give the current state and exactly
    the results that were computed (sequential specification);
(2) every result a caller received is the one computed for its request at its processing instant;
(3) real-time order: a request that had returned before another one was issued is processed before it. -/
theorem actor_linearizable (s0 : S) (es : List (AEv Op Res)) (s : ASt S Op Res)
    (hr : ({ st := s0 } : ASt S Op Res).run apply es = some s) :
    seqRun apply s0 (s.lin.map (·.2.1)) = (s.st, s.lin.map (·.2.2)) ∧
    (∀ i r, (i, r) ∈ s.returned → ∃ op, (i, op, r) ∈ s.lin) ∧
    (∀ i j, (i, j) ∈ s.before → ∀ a b, idxOf i s.lin = some a → idxOf j s.lin = some b → a < b) := by
  have hi := ainv_run apply s0 _ es s (ainv_init apply s0) hr
  exact ⟨hi.seq, hi.returned_lin, fun i j h => (hi.rt i j h).2⟩

/-- a request that has returned has been processed (its effect is in the state every later request sees) -/
theorem returned_is_processed (s0 : S) (es : List (AEv Op Res)) (s : ASt S Op Res)
    (hr : ({ st := s0 } : ASt S Op Res).run apply es = some s) (i j : Nat) (h : (i, j) ∈ s.before) :
    ∃ a, idxOf i s.lin = some a :=
  ((ainv_run apply s0 _ es s (ainv_init apply s0) hr).rt i j h).1

end

/-! ### the cache instance: List() is a snapshot at one instant, never a half-applied sync or refilter -/
section
variable {K O F : Type} [DecidableEq K]
variable (key : O → K) (ver : O → Option Int) (accF : F → O → Bool)

inductive COp (O F : Type)
  | write (op : CacheOp O F)
  | list
  | get (k : O)

inductive CRes (O : Type)
  | events (evs : List (Ev O))
  | objs (l : List O)
  | obj (o : Option O)

/-- one request processed by the cache goroutine: writes go through `cacheStep` as a whole; `List` copies the
objects of the current items into a fresh list; `Get` looks one key up -/
def cacheApply (s : CacheSt K O F) : COp O F → CacheSt K O F × CRes O
  | .write op => let r := cacheStep key ver accF s op; (r.1, .events r.2)
  | .list => (s, .objs (s.items.map (·.2.obj)))
  | .get o => (s, .obj ((AL.lookup (key o) s.items).map (·.obj)))

/-- **a List() result equals the cache content at one instant**: in the linearization every `list` returns the
objects of the state produced by the complete writes processed before it — reads do not change the state and
a write is applied in one step, so no reader can see a half-applied relist or refilter -/
theorem list_is_snapshot (s : CacheSt K O F) : (cacheApply key ver accF s .list).1 = s ∧
    (cacheApply key ver accF s .list).2 = .objs (s.items.map (·.2.obj)) := ⟨rfl, rfl⟩

theorem reads_do_not_write (s : CacheSt K O F) (o : O) : (cacheApply key ver accF s (.get o)).1 = s := rfl

/-- the returned slice belongs to the caller: it is a value computed from the items, later writes change the
state but not a result already computed (results are immutable values of the model; in the code `doList`
allocates a fresh slice, checked at run time by the engine mutating the returned slices) -/
theorem result_is_fresh (s : CacheSt K O F) (op : CacheOp O F) :
    (cacheApply key ver accF (cacheStep key ver accF s op).1 .list).2 =
      .objs ((cacheStep key ver accF s op).1.items.map (·.2.obj)) := rfl

end

/-! non-vacuity: two callers, interleaved: the list issued after the write returned sees it -/
example : ∃ s, ({ st := (0 : Nat) } : ASt Nat Nat Nat).run (fun st op => (st + op, st + op))
    [.call 1 5, .proc 1, .ret 1, .call 2 0, .call 3 7, .proc 3, .proc 2, .ret 2] = some s ∧
    s.returned = [(1, 5), (2, 12)] ∧ s.before = [(1, 2), (1, 3)] := ⟨_, rfl, by decide, by decide⟩

/-! ### the history checker of the lin engine decides linearizability

The lin engine records histories of the real cache (one writer, many readers, stamps from one atomic counter)
and `Lin.accepts` (KcacheModel/Lin.lean, the function the driver runs) judges them. It is sound and complete:
it accepts exactly the well-formed histories that have a linearization. -/
section
open KC.Lin

/-- **soundness of acceptance**: if the checker accepts a history of a sequential writer and any readers, the
ranking `rankW / rankR` is a linearization of it -/
theorem lin_accepts_sound (ws : List WriteOp) (n : Nat) (rs : List ReadOp)
    (hw : writesSequential ws n = true) (h : accepts ws n rs = true) :
    IsLinearization ws n rs rankW rankR := by
  unfold accepts at h
  simp only [Bool.and_eq_true, Option.isNone_iff_eq_none] at h
  obtain ⟨⟨he, hl⟩, hi⟩ := h
  have early : ∀ r ∈ rs, r.k ≤ n ∧ wcall ws r.k < r.ret ∧ r.call < r.ret := by
    intro r hr
    have := List.find?_eq_none.mp he r hr
    simp at this
    omega
  have late : ∀ r ∈ rs, r.k < n → r.call < wret ws (r.k + 1) := by
    intro r hr hk
    have := List.find?_eq_none.mp hl r hr
    simp at this
    exact this hk
  refine ⟨?_, ?_, ?_, ?_, ?_⟩
  · -- a write that returned before the read was invoked is not newer than what the read returned
    intro r hr k h1 hk hlt
    unfold Rank.lt rankW rankR
    simp only
    by_cases hle : k ≤ r.k
    · by_cases heq : k = r.k
      · right; exact ⟨heq, Or.inl (by omega)⟩
      · left; omega
    · exfalso
      have hrk : r.k < n := by omega
      have h2 := late r hr hrk
      by_cases heq : k = r.k + 1
      · subst heq; omega
      · have := wret_lt_wcall ws n hw (r.k + 1) k (by omega) hk
        have := wcall_lt_wret ws n hw k h1 hk
        omega
  · -- a write invoked after the read returned is newer than what the read returned
    intro r hr k h1 hk hlt
    unfold Rank.lt rankW rankR
    simp only
    left
    obtain ⟨hrn, hc, _⟩ := early r hr
    by_cases hle : k ≤ r.k
    · exfalso
      by_cases heq : k = r.k
      · subst heq; omega
      · have := wret_lt_wcall ws n hw k r.k (by omega) hrn
        have := wcall_lt_wret ws n hw k h1 hk
        omega
    · omega
  · -- no new-old inversion between reads
    intro r1 h1 r2 h2 hlt
    unfold Rank.lt rankR
    simp only
    obtain ⟨hn1, _, hc1⟩ := early r1 h1
    obtain ⟨_, _, hc2⟩ := early r2 h2
    by_cases hk : r1.k < r2.k
    · left; exact hk
    · by_cases heq : r1.k = r2.k
      · right; exact ⟨heq, Or.inr ⟨trivial, by omega⟩⟩
      · exfalso
        have := no_inversion rs n hi r1 r2 h1 h2 (by omega) hn1
        omega
  · intro j k _ hjk _
    left; exact hjk
  · intro r hr
    refine ⟨(early r hr).1, ?_⟩
    intro j _ _
    unfold Rank.lt rankW rankR
    simp only
    constructor
    · rintro (h | ⟨h, _⟩) <;> omega
    · intro hle
      by_cases heq : j = r.k
      · right; exact ⟨heq, Or.inl (by omega)⟩
      · left; omega

/-- **soundness of rejection** (the checker raises no false alarm): a well-formed history that has *any*
linearization — whatever rankings `wk`, `rk` one proposes — is accepted -/
theorem lin_rejects_sound (ws : List WriteOp) (n : Nat) (rs : List ReadOp) (wk : Nat → Rank) (rk : ReadOp → Rank)
    (hwf : WellFormed ws n rs) (hlin : IsLinearization ws n rs wk rk) : accepts ws n rs = true := by
  unfold accepts
  simp only [Bool.and_eq_true, Option.isNone_iff_eq_none]
  refine ⟨⟨?_, ?_⟩, ?_⟩
  · -- no read of a state not yet written
    apply List.find?_eq_none.mpr
    intro r hr
    have hl := hlin.legal r hr
    have hp := hwf.read_pos r hr
    simp only [Bool.or_eq_true, decide_eq_true_eq, Bool.not_eq_eq_eq_not, Bool.not_true, decide_eq_false_iff_not, not_or, Nat.not_lt]
    refine ⟨⟨hl.1, ?_⟩, by omega⟩
    by_cases hk : r.k = 0
    · simp [wcall, hk]; omega
    · have h1 : 1 ≤ r.k := by omega
      rcases Nat.lt_or_ge (wcall ws r.k) r.ret with h | h
      · omega
      · exfalso
        have hne := (hwf.rw_distinct r hr r.k h1 hl.1).1
        have := hlin.read_write r hr r.k h1 hl.1 (by omega)
        exact Rank.lt_asymm _ _ this ((hl.2 r.k h1 hl.1).mpr (Nat.le_refl _))
  · -- no read of an overwritten state
    apply List.find?_eq_none.mpr
    intro r hr
    simp only [Bool.and_eq_true, decide_eq_true_eq, Bool.not_eq_eq_eq_not, Bool.not_true, decide_eq_false_iff_not, not_and, Nat.not_lt]
    intro hk
    rcases Nat.lt_or_ge r.call (wret ws (r.k + 1)) with h | h
    · omega
    · exfalso
      have hne := (hwf.rw_distinct r hr (r.k + 1) (by omega) (by omega)).2
      have := hlin.write_read r hr (r.k + 1) (by omega) (by omega) (by omega)
      have := ((hlin.legal r hr).2 (r.k + 1) (by omega) (by omega)).mp this
      omega
  · -- no new-old inversion
    apply List.find?_eq_none.mpr
    intro k hk
    have hkn : k < n + 2 := List.mem_range.mp hk
    simp only [Bool.and_eq_true, decide_eq_true_eq, not_and]
    intro hk1
    cases hm : minRetFrom rs k with
    | none => simp
    | some m =>
      simp only [Bool.not_eq_eq_eq_not, Bool.not_true, decide_eq_false_iff_not, Nat.not_lt]
      unfold minRetFrom at hm
      obtain ⟨r1, hr1, he1⟩ := minRet_attained _ m hm
      have hr1' := List.mem_filter.mp hr1
      have hk1' : r1.k ≥ k := by simpa using hr1'.2
      have hp1 := hwf.read_pos r1 hr1'.1
      rcases Nat.lt_or_ge (maxCallBelow rs k) m with h | h
      · simp [h]
      · exfalso
        unfold maxCallBelow at h
        rcases maxCall_attained (rs.filter (·.k < k)) with h0 | ⟨r2, hr2, he2⟩
        · omega
        · have hr2' := List.mem_filter.mp hr2
          have hk2 : r2.k < k := by simpa using hr2'.2
          have hne := hwf.rr_distinct r1 hr1'.1 r2 hr2'.1
          have hrr := hlin.read_read r1 hr1'.1 r2 hr2'.1 (by omega)
          have hl1 := hlin.legal r1 hr1'.1
          have hl2 := hlin.legal r2 hr2'.1
          have h1 : (wk r1.k).lt (rk r1) := (hl1.2 r1.k (by omega) hl1.1).mpr (Nat.le_refl _)
          have h2 : (wk r1.k).lt (rk r2) := Rank.lt_trans _ _ _ h1 hrr
          have := (hl2.2 r1.k (by omega) hl1.1).mp h2
          omega


/-- non-vacuity: a stale read (state 1 returned by a read invoked after write 2 returned) is rejected, the
same read overlapping write 2 is accepted -/
example : accepts [⟨1, 1, 2⟩, ⟨2, 3, 6⟩] 2 [⟨0, 7, 8, 1⟩] = false ∧
    accepts [⟨1, 1, 2⟩, ⟨2, 3, 6⟩] 2 [⟨0, 4, 5, 1⟩] = true ∧ writesSequential [⟨1, 1, 2⟩, ⟨2, 3, 6⟩] 2 = true := by decide
end


/-! ### Gets: reads that pin the cache to a range of states -/
section
open KC.Lin

/-- **a backwards pair refutes atomicity**: if a read `y` had returned before a read `x` was invoked, and everything
`x` may have read is older than everything `y` may have read, then no assignment of one state to every read is
consistent with an atomic cache — whatever the other reads were (this is the pair the lin engine exhibits when it
rejects on Gets, e.g. `Get(a)` answered from inside a relist that a later `Get(d)` does not see yet) -/
theorem backwards_pair_refutes (items : List RangeRead) (x y : RangeRead) (hx : x ∈ items) (hy : y ∈ items)
    (hb : backwards y x = true) : ¬ ∃ s, ValidAssign items s := by
  rintro ⟨s, hr, ho⟩
  simp only [backwards, Bool.and_eq_true, decide_eq_true_eq] at hb
  have h1 := (hr x hx).2
  have h2 := (hr y hy).1
  have h3 := ho x hx y hy hb.1
  omega

/-- the search the driver runs returns only genuine backwards pairs of the history -/
theorem backwardsPair_sound (items : List RangeRead) (x y : RangeRead) (h : backwardsPair items = some (y, x)) :
    x ∈ items ∧ y ∈ items ∧ backwards y x = true := by
  unfold backwardsPair at h
  obtain ⟨x', hx', hf⟩ := List.exists_of_findSome?_eq_some h
  cases hy : items.find? (fun y => backwards y x') with
  | none => rw [hy] at hf; cases hf
  | some y' =>
    rw [hy] at hf
    simp only [Option.map_some, Option.some.injEq, Prod.mk.injEq] at hf
    obtain ⟨rfl, rfl⟩ := hf
    exact ⟨hx', List.mem_of_find?_eq_some hy, List.find?_some (p := fun y => backwards y x') hy⟩

/-- hence: whenever the search finds a pair, the history has no atomic explanation -/
theorem backwardsPair_rejects_sound (items : List RangeRead) (p : RangeRead × RangeRead)
    (h : backwardsPair items = some p) : ¬ ∃ s, ValidAssign items s := by
  obtain ⟨y, x⟩ := p
  obtain ⟨hx, hy, hb⟩ := backwardsPair_sound items x y h
  exact backwards_pair_refutes items x y hx hy hb

/-- … and when there is no such pair among reads with point ranges (Lists only) that are mutually ordered by their
states, the identity assignment is valid (non-vacuity of `ValidAssign`) -/
example : ValidAssign [⟨1, 2, 3, 3⟩, ⟨3, 4, 3, 5⟩] (fun r => r.lo) := by
  refine ⟨?_, ?_⟩
  · intro x hx; simp at hx; rcases hx with rfl | rfl <;> simp
  · intro x hx y hy h; simp at hx hy; rcases hx with rfl | rfl <;> rcases hy with rfl | rfl <;> simp_all

/-- the witness of seeded change C15fa: `Get(a)` = new inside the relist, then `Get(d)` = old -/
example : (backwardsPair [⟨10, 11, 7, 7⟩, ⟨12, 13, 6, 6⟩]).map (fun p => (p.1.call, p.2.call)) = some (10, 12) := by decide

end

end KC.C15

#print axioms KC.C15.actor_linearizable
#print axioms KC.C15.returned_is_processed
#print axioms KC.C15.list_is_snapshot
#print axioms KC.C15.result_is_fresh
#print axioms KC.C15.backwards_pair_refutes
#print axioms KC.C15.backwardsPair_sound
#print axioms KC.C15.backwardsPair_rejects_sound
