/-
  C18 — Filter combinators implement boolean and label-selector semantics.
  Property theorems only.
-/
import KcacheModel.Filter
import KcacheModel.Proofs.Filters
namespace KC.C18
open KC

variable (fns : Nat → Obj → Bool) (o : Obj)

/-- Null accepts every object -/
theorem accept_null : accept fns .null o = true := rfl
/-- All rejects every object -/
theorem accept_all : accept fns .all o = false := rfl
/-- Not is logical negation -/
theorem accept_not (c : Filter) : accept fns (.not c) o = !accept fns c o := rfl
/-- And is the conjunction of its children; the empty And accepts -/
theorem accept_and (cs : List Filter) : accept fns (.and cs) o = cs.all (accept fns · o) := by
  simp [accept, acceptAll_eq_all]
/-- Or is the disjunction of its children; the empty Or rejects -/
theorem accept_or (cs : List Filter) : accept fns (.or cs) o = cs.any (accept fns · o) := by
  simp [accept, acceptAny_eq_any]
theorem accept_and_nil : accept fns (.and []) o = true := rfl
theorem accept_or_nil : accept fns (.or []) o = false := rfl

/-- an NSName entry matches an object: an empty field matches any value of that field -/
def entryMatches (id : Key) (o : Obj) : Prop :=
  (id.ns = "" ∨ id.ns = o.ns) ∧ (id.name = "" ∨ id.name = o.name)

/-- NSName accepts iff some entry matches (entries with both fields empty are outside the contract) -/
theorem accept_nsname (ids : List Key) (hc : ∀ id ∈ ids, ¬(id.ns = "" ∧ id.name = "")) :
    accept fns (nsnameF ids) o = true ↔ ∃ id ∈ ids, entryMatches id o := by
  have hpm : ∀ id : Key, partialMatches id o.key = true ↔
      ((id.ns = "" ∧ id.name = o.name) ∨ (id.ns ≠ "" ∧ id.name = "" ∧ id.ns = o.ns)) := by
    intro id
    unfold partialMatches
    by_cases h1 : id.ns = ""
    · simp [h1, Obj.key]
    · by_cases h2 : id.name = ""
      · simp [h1, h2, Obj.key]
      · simp [h1, h2]
  simp only [nsnameF, accept, Bool.or_eq_true, List.contains_iff_mem, List.mem_filter, List.any_eq_true,
    entryMatches, hpm]
  constructor
  · rintro (⟨hm, _⟩ | ⟨id, ⟨hid, _⟩, hm⟩)
    · exact ⟨o.key, hm, Or.inr rfl, Or.inr rfl⟩
    · refine ⟨id, hid, ?_⟩
      rcases hm with ⟨h1, h2⟩ | ⟨_, h2, h3⟩
      · exact ⟨Or.inl h1, Or.inr h2⟩
      · exact ⟨Or.inr h3, Or.inl h2⟩
  · rintro ⟨id, hid, hns, hname⟩
    have hboth := hc id hid
    by_cases h1 : id.ns = ""
    · have h2 : id.name ≠ "" := fun e => hboth ⟨h1, e⟩
      right
      exact ⟨id, ⟨hid, by simp [h1]⟩, Or.inl ⟨h1, hname.resolve_left h2⟩⟩
    · by_cases h2 : id.name = ""
      · right
        exact ⟨id, ⟨hid, by simp [h2]⟩, Or.inr ⟨h1, h2, hns.resolve_left h1⟩⟩
      · left
        have e1 : id.ns = o.ns := hns.resolve_left h1
        have e2 : id.name = o.name := hname.resolve_left h2
        have : id = o.key := by cases id; simp_all [Obj.key]
        subst this
        exact ⟨hid, by simp [h1, h2]⟩

/-- Labels(m) accepts iff m is a subset of the object's labels -/
theorem accept_labels (m : List (String × String)) :
    accept fns (labelsF m) o = true ↔ ∀ kv ∈ m, AL.lookup kv.1 o.labels = some kv.2 := by
  rw [labelsF_accept]; simp [subsetLabels]

/-- LabelSelector accepts iff every matchLabels pair and every matchExpressions entry holds in the
Kubernetes sense -/
theorem accept_labelSelector (s : LabelSelector) (hv : ∀ e ∈ s.matchExpressions, e.valid = true) :
    accept fns (labelSelectorF (some s)) o = true ↔
      (∀ kv ∈ s.matchLabels, AL.lookup kv.1 o.labels = some kv.2) ∧
      (∀ e ∈ s.matchExpressions, e.holds o.labels = true) := by
  rw [labelSelectorF_accept fns s hv]; simp [LabelSelector.holds, subsetLabels]

/-- a nil LabelSelector selects nothing, an empty one everything -/
theorem accept_labelSelector_nil : accept fns (labelSelectorF none) o = false := rfl
theorem accept_labelSelector_empty : accept fns (labelSelectorF (some {})) o = true := rfl

/-- Selector accepts iff every requirement matches; In/NotIn/Exists/DoesNotExist/=/==/!= as in Kubernetes -/
theorem accept_selector (rs : List Req) : accept fns (.selector (.reqs rs)) o = rs.all (·.matches o.labels) := rfl
theorem req_in (k : String) (vs : List String) (ls : List (String × String)) :
    Req.matches ⟨k, .in_, vs⟩ ls = true ↔ ∃ v, AL.lookup k ls = some v ∧ v ∈ vs := by
  simp only [Req.matches]; cases AL.lookup k ls <;> simp
theorem req_notIn (k : String) (vs : List String) (ls : List (String × String)) :
    Req.matches ⟨k, .notIn, vs⟩ ls = true ↔ ∀ v, AL.lookup k ls = some v → v ∉ vs := by
  simp only [Req.matches]; cases AL.lookup k ls <;> simp
theorem req_exists (k : String) (ls : List (String × String)) :
    Req.matches ⟨k, .exists_, []⟩ ls = true ↔ ∃ v, AL.lookup k ls = some v := by
  simp only [Req.matches]; cases AL.lookup k ls <;> simp
theorem req_doesNotExist (k : String) (ls : List (String × String)) :
    Req.matches ⟨k, .doesNotExist, []⟩ ls = true ↔ AL.lookup k ls = none := by
  simp only [Req.matches]; cases AL.lookup k ls <;> simp

/-! non-vacuity -/
example : accept (fun _ _ => false) (nsnameF [⟨"a", ""⟩, ⟨"b", "y"⟩]) { ns := "a", name := "q" } = true := by decide
example : ∀ id ∈ [(⟨"a", ""⟩ : Key), ⟨"b", "y"⟩], ¬(id.ns = "" ∧ id.name = "") := by decide

end KC.C18

#print axioms KC.C18.accept_and
#print axioms KC.C18.accept_or
#print axioms KC.C18.accept_nsname
#print axioms KC.C18.accept_labels
#print axioms KC.C18.accept_labelSelector
#print axioms KC.C18.req_in
#print axioms KC.C18.req_notIn
