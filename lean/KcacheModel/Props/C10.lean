/-
  C10 — Slow consumers are isolated: they lose only their own events.
  Property theorems only (model: Pipe.lean; lemmas: Proofs/Pipe.lean).
-/
import KcacheModel.Pipe
import KcacheModel.Proofs.Pipe
import KcacheModel.Sys
namespace KC.C10
open KC

section
variable {α : Type}

/-- **a publisher can always make progress**: its `forward` step is enabled exactly when its own buffer is
non-empty — whatever the state of its children (full buffers, consumers that never read) -/
theorem forward_always_enabled (s : Pipe α) (p : Nat) (hp : p < s.len) (hpub : (s.node p).isPub = true) :
    s.enabled (.forward p) = !(s.node p).q.isEmpty := by
  simp [Pipe.enabled, hp, hpub]

/-- and the controller can always publish -/
theorem publish_always_enabled (s : Pipe α) (e : α) : s.enabled (.publish e) = true := rfl

/-- **non-interference**: take any run and any consumer `l`; delete all of `l`'s reads (a consumer that
never reads). What remains is still a run, and the controller's published sequence and every other node —
buffers, forwarded and read sequences of publishers, clones and sibling subscribers at any depth — are
exactly the same. So C05's exactness for healthy subscribers holds whatever the others do. -/
theorem stall_noninterference (ls : List (PLabel α)) (s0 s : Pipe α) (l : Nat)
    (hl : 0 < l ∧ l < s0.len ∧ (s0.node l).isPub = false) (hrun : s0.run ls = some s) :
    ∃ t, s0.run (ls.filter (fun lab => !isConsumeOf l lab)) = some t ∧
      t.published = s.published ∧ ∀ i, i ≠ l → t.node i = s.node i := by
  obtain ⟨t, ht, he⟩ := stall_noninterference_aux l ls s0 s0 s
    ⟨rfl, rfl, rfl, fun _ _ => rfl, rfl, rfl, hl.2.2, hl.1, hl.2.1⟩ hrun
  exact ⟨t, ht, he.2.1.symm, fun i hi => (he.2.2.2.1 i hi).symm⟩

/-- **what a stalled consumer does receive is an in-order subsequence** of what was forwarded to it,
buffer overruns or not -/
theorem stalled_gets_subsequence (cap : Nat) (ls : List (PLabel α)) (s : Pipe α)
    (h : (Pipe.init cap).run ls = some s) (c : Nat) (h1 : 0 < c) (h2 : c < s.len) :
    ((s.node c).out ++ (s.node c).q).Sublist (((s.node (s.node c).parent).out).drop (s.node c).attachedAt) :=
  (pinv_run _ ls s (pinv_init cap) h).sub c h1 h2

/-- **it loses only what exceeds its buffer**: a consumer that has not read anything holds exactly the first
`cap` events forwarded to it since it was attached -/
theorem stalled_keeps_first_cap (cap : Nat) (ls : List (PLabel α)) (s : Pipe α)
    (h : (Pipe.init cap).run ls = some s) (c : Nat) (h1 : 0 < c) (h2 : c < s.len) (ho : (s.node c).out = []) :
    (s.node c).q = (((s.node (s.node c).parent).out).drop (s.node c).attachedAt).take s.cap :=
  (pinv_pkeep_run _ ls s (pinv_init cap) (pkeep_init cap) h).2 c h1 h2 ho

/-- **a batch is delivered as far as it fits, never all-or-nothing** (subscription_filter.go hands a Refilter's or a
relist's batch to the consumer event by event, each with a non-blocking send): a buffer that holds the first `cap` of
what it was offered so far holds, after a whole batch, the first `cap` of everything offered — the head of the batch
fills whatever room there was -/
theorem batch_fills_the_room (cap : Nat) (offered batch : List α) :
    offerAll cap (offered.take cap) batch = (offered ++ batch).take cap := by
  induction batch generalizing offered with
  | nil => simp [offerAll]
  | cons e rest ih =>
    show offerAll cap (offer cap (offered.take cap) e) rest = _
    rw [offer_take, ih (offered ++ [e])]
    simp

/-- … in particular the events of the batch that fit are all there: with `r` free slots the first `r` events of the
batch are kept -/
theorem batch_head_kept (cap : Nat) (q batch : List α) (hq : q.length ≤ cap) :
    offerAll cap q batch = q ++ batch.take (cap - q.length) := by
  have h := batch_fills_the_room cap q batch
  rw [List.take_of_length_le hq] at h
  rw [h, List.take_append, List.take_of_length_le hq]

/-- the same for the controller's own stage: in-order subsequence of what was published -/
theorem root_subsequence (cap : Nat) (ls : List (PLabel α)) (s : Pipe α) (h : (Pipe.init cap).run ls = some s) :
    ((s.node 0).out ++ (s.node 0).q).Sublist s.published :=
  (pinv_run _ ls s (pinv_init cap) h).root_sub

end

/-! non-vacuity: a stalled subscriber (node 1) with capacity 2 keeps the first two events while its
sibling (node 2) receives all three -/
example : ∃ s, (Pipe.init 2 : Pipe Nat).run
    [.attach 0 false, .attach 0 false, .publish 1, .forward 0, .consume 2, .publish 2, .forward 0, .consume 2,
     .publish 3, .forward 0, .consume 2] = some s
    ∧ (s.node 1).q = [1, 2] ∧ (s.node 2).out = [1, 2, 3] ∧ (s.node 1).dropped = true :=
  ⟨_, rfl, by decide, by decide, by decide⟩

/-- the capacity the code uses (`EventBufsiz`, regenerated from subscription.go on every run) is a real
buffer: with capacity 0 the non-blocking hand-over of subscription.go would drop every event -/
theorem code_capacity_positive : 0 < evCap := by decide


end KC.C10

#print axioms KC.C10.forward_always_enabled
#print axioms KC.C10.stall_noninterference
#print axioms KC.C10.stalled_gets_subsequence
#print axioms KC.C10.stalled_keeps_first_cap
#print axioms KC.C10.root_subsequence
#print axioms KC.C10.code_capacity_positive
#print axioms KC.C10.batch_fills_the_room
#print axioms KC.C10.batch_head_kept
