/-
  C20 — Typed packages and generated joins are faithful instances of the generic core.
  Property theorems only.

  (a) source level: each generated file's token stream (regenerated from /repo by kextract on every run)
      equals the template instantiated for the package's type — 12 + 8 kernel-checked equalities;
  (b) the typed layer is the untyped core mapped through the adapter, skipping what it rejects;
  (c) the REST requests of a typed client.
-/
import KcacheModel.Typed
import KcacheModel.Gen
import KcacheModel.Extracted.Gen
namespace KC.C20
open KC KC.Gen KC.Extracted.Gen

/-! ### (a) generated sources = instantiated templates -/

theorem generated_daemonset_eq : instantiateTyped pkgTok_daemonset ty_daemonset templateToks = gen_daemonset := by decide +kernel
theorem generated_deployment_eq : instantiateTyped pkgTok_deployment ty_deployment templateToks = gen_deployment := by decide +kernel
theorem generated_event_eq : instantiateTyped pkgTok_event ty_event templateToks = gen_event := by decide +kernel
theorem generated_ingress_eq : instantiateTyped pkgTok_ingress ty_ingress templateToks = gen_ingress := by decide +kernel
theorem generated_job_eq : instantiateTyped pkgTok_job ty_job templateToks = gen_job := by decide +kernel
theorem generated_node_eq : instantiateTyped pkgTok_node ty_node templateToks = gen_node := by decide +kernel
theorem generated_pod_eq : instantiateTyped pkgTok_pod ty_pod templateToks = gen_pod := by decide +kernel
theorem generated_replicaset_eq : instantiateTyped pkgTok_replicaset ty_replicaset templateToks = gen_replicaset := by decide +kernel
theorem generated_replicationcontroller_eq :
    instantiateTyped pkgTok_replicationcontroller ty_replicationcontroller templateToks = gen_replicationcontroller := by decide +kernel
theorem generated_secret_eq : instantiateTyped pkgTok_secret ty_secret templateToks = gen_secret := by decide +kernel
theorem generated_service_eq : instantiateTyped pkgTok_service ty_service templateToks = gen_service := by decide +kernel
theorem generated_statefulset_eq : instantiateTyped pkgTok_statefulset ty_statefulset templateToks = gen_statefulset := by decide +kernel

theorem join_service_pod_eq : instantiateJoin joinParams_service_pod joinTemplateCodes = joinGen_service_pod := by decide +kernel
theorem join_rc_pod_eq : instantiateJoin joinParams_rc_pod joinTemplateCodes = joinGen_rc_pod := by decide +kernel
theorem join_rs_pod_eq : instantiateJoin joinParams_rs_pod joinTemplateCodes = joinGen_rs_pod := by decide +kernel
theorem join_deployment_pod_eq : instantiateJoin joinParams_deployment_pod joinTemplateCodes = joinGen_deployment_pod := by decide +kernel
theorem join_job_pod_eq : instantiateJoin joinParams_job_pod joinTemplateCodes = joinGen_job_pod := by decide +kernel
theorem join_daemonset_pod_eq : instantiateJoin joinParams_daemonset_pod joinTemplateCodes = joinGen_daemonset_pod := by decide +kernel
theorem join_ingress_service_eq : instantiateJoin joinParams_ingress_service joinTemplateCodes = joinGen_ingress_service := by decide +kernel
theorem join_statefulset_pod_eq : instantiateJoin joinParams_statefulset_pod joinTemplateCodes = joinGen_statefulset_pod := by decide +kernel

/-- every generated file on disk has a generation rule (and so one of the equalities above), and vice versa -/
theorem generated_files_all_covered : typedDirs = typedPackages ∧ joinFiles = joinNamesSorted := by decide

/-- the twelve packages and eight joins are exactly the ones named above -/
theorem packages_enumerated :
    typedPackages = ["daemonset","deployment","event","ingress","job","node","pod","replicaset",
                     "replicationcontroller","secret","service","statefulset"] ∧
    joinNames = ["service_pod","rc_pod","rs_pod","deployment_pod","job_pod","daemonset_pod","ingress_service","statefulset_pod"] := by
  decide

/-! ### (b) the typed layer is the untyped core restricted to the type -/

section
variable {O T : Type} (adapt : O → Option T)

/-- restriction is a homomorphism on event streams: observing incrementally or in one go is the same -/
theorem typedEvents_append (a b : List (Ev O)) :
    typedEvents adapt (a ++ b) = typedEvents adapt a ++ typedEvents adapt b := by
  simp [typedEvents, List.filterMap_append]

theorem typedLog_append (a b : List (Callback O)) :
    typedLog adapt (a ++ b) = typedLog adapt a ++ typedLog adapt b := by
  simp [typedLog, List.filterMap_append]

/-- a foreign object never produces a typed event, and never stops the stream: the events after it are
delivered as if it had not been there -/
theorem foreign_event_skipped (a b : List (Ev O)) (e : Ev O) (h : adapt e.obj = none) :
    typedEvents adapt (a ++ e :: b) = typedEvents adapt (a ++ b) := by
  simp [typedEvents, List.filterMap_append, List.filterMap_cons, h]

theorem foreign_callback_skipped (a b : List (Callback O)) (o : O) (h : adapt o = none) :
    typedLog adapt (a ++ .create o :: b) = typedLog adapt (a ++ b) ∧
    typedLog adapt (a ++ .update o :: b) = typedLog adapt (a ++ b) ∧
    typedLog adapt (a ++ .delete o :: b) = typedLog adapt (a ++ b) := by
  simp [typedLog, List.filterMap_append, List.filterMap_cons, typedCallback, h]

/-- the typed monitor's callbacks are the callbacks of the typed events -/
theorem typedLog_events (evs : List (Ev O)) :
    typedLog adapt (evs.map callbackOf) = (typedEvents adapt evs).map callbackOf := by
  induction evs with
  | nil => rfl
  | cons e es ih =>
    have hc : typedCallback adapt (callbackOf e) = (adapt e.obj).map fun t => callbackOf ⟨e.t, t⟩ := by
      cases e with | mk t o => cases t <;> cases h : adapt o <;> simp [callbackOf, typedCallback, h]
    simp only [typedLog, List.map_cons, List.filterMap_cons, typedEvents] at ih ⊢
    rw [hc]
    cases h : adapt e.obj with
    | none => simpa using ih
    | some t => simpa using ih

/-- the typed monitor of any monitor execution: `OnInitialize` with the restricted list, then exactly the
callbacks of the typed events -/
theorem typed_monitor_log (l : List O) (evs : List (Ev O)) :
    typedLog adapt (Callback.init l :: evs.map callbackOf) =
      Callback.init (adaptList adapt l) :: (typedEvents adapt evs).map callbackOf := by
  have := typedLog_events adapt evs
  simp only [typedLog, List.filterMap_cons, typedCallback] at this ⊢
  rw [this]

/-- with an adapter that accepts everything the typed layer is the identity -/
theorem typed_total_adapter (f : O → T) (evs : List (Ev O)) (l : List O) :
    typedEvents (fun o => some (f o)) evs = evs.map (fun e => ⟨e.t, f e.obj⟩) ∧
    adaptList (fun o => some (f o)) l = l.map f := by
  constructor
  · induction evs with
    | nil => rfl
    | cons e es ih => simp [typedEvents] at ih ⊢
  · induction l with
    | nil => rfl
    | cons o os ih => simp [adaptList] at ih ⊢

/-- `Get`: found for the own type, ErrInvalidType for a foreign object, not-found passed through -/
theorem typedGet_spec (r : Option O) :
    (r = none → typedGet adapt r = .notFound) ∧
    (∀ o t, r = some o → adapt o = some t → typedGet adapt r = .found t) ∧
    (∀ o, r = some o → adapt o = none → typedGet adapt r = .invalidType) := by
  refine ⟨?_, ?_, ?_⟩
  · intro h; subst h; rfl
  · intro o t h h2; subst h; simp [typedGet, h2]
  · intro o h h2; subst h; simp [typedGet, h2]

/-! #### the typed event stream replays to the typed cache

The untyped cache is keyed by namespace/name alone. If objects of two types never share a key (as with any
real API resource, where one client serves one type), restricting commutes with replaying: a typed
subscriber that mirrors the typed events holds exactly the typed cache. -/

variable {K : Type} [DecidableEq K]
variable (key : O → K) (ver : O → Option Int) (keyT : T → K) (verT : T → Option Int)

/-- the typed view of an abstract cache -/
def restrictA (a : AMap K O) : AMap K T :=
  fun k => (a k).bind fun e => (adapt e.obj).map fun t => ⟨e.ver, t⟩

/-- the adapter keeps identity and version -/
def Faithful : Prop := ∀ o t, adapt o = some t → keyT t = key o ∧ verT t = ver o

/-- `own k` says which keys belong to the type: what is stored and what arrives agrees with it -/
def KindStable (own : K → Bool) (a : AMap K O) (evs : List (Ev O)) : Prop :=
  (∀ k e, a k = some e → (adapt e.obj).isSome = own k) ∧ (∀ e ∈ evs, (adapt e.obj).isSome = own (key e.obj))

theorem restrictA_set_foreign (a : AMap K O) (k : K) (x : Option (Entry O))
    (hx : ∀ e, x = some e → adapt e.obj = none) (ha : ∀ e, a k = some e → adapt e.obj = none) :
    restrictA adapt (a.set k x) = restrictA adapt a := by
  funext k'
  unfold restrictA AMap.set
  by_cases hk : k' = k
  · subst hk
    simp only [if_true]
    have h1 : (x.bind fun e => (adapt e.obj).map fun t => (⟨e.ver, t⟩ : Entry T)) = none := by
      cases x with
      | none => rfl
      | some e => simp [hx e rfl]
    have h2 : ((a k').bind fun e => (adapt e.obj).map fun t => (⟨e.ver, t⟩ : Entry T)) = none := by
      cases h : a k' with
      | none => rfl
      | some e => simp [ha e h]
    rw [h1, h2]
  · simp [hk]

theorem typed_replay (hf : Faithful adapt key ver keyT verT) (own : K → Bool) :
    ∀ (evs : List (Ev O)) (a a' : AMap K O), KindStable adapt key own a evs →
      replay key ver evs a = some a' →
      replay keyT verT (typedEvents adapt evs) (restrictA adapt a) = some (restrictA adapt a') := by
  intro evs
  induction evs with
  | nil =>
    intro a a' _ h
    simp only [replay] at h
    cases h
    rfl
  | cons e es ih =>
    intro a a' hs h
    simp only [replay] at h
    cases hstep : applyEv key ver a e with
    | none => simp [hstep] at h
    | some a1 =>
      simp only [hstep] at h
      have hown := hs.2 e List.mem_cons_self
      -- stability is preserved by the step
      have hs1 : KindStable adapt key own a1 es := by
        refine ⟨?_, fun e' he' => hs.2 e' (List.mem_cons_of_mem _ he')⟩
        intro k x hx
        unfold applyEv at hstep
        cases ht : e.t <;> simp only [ht] at hstep
        · -- create
          cases hv : ver e.obj <;> cases hk : a (key e.obj) <;> simp only [hv, hk] at hstep <;> try cases hstep
          simp only [AMap.set] at hx
          split at hx
          · next heq => cases hx; rw [heq] at *; exact hown
          · exact hs.1 k x hx
        · -- update
          cases hv : ver e.obj <;> cases hk : a (key e.obj) <;> simp only [hv, hk] at hstep <;> try cases hstep
          split at hstep
          · cases hstep
            simp only [AMap.set] at hx
            split at hx
            · next heq => cases hx; rw [heq] at *; exact hown
            · exact hs.1 k x hx
          · cases hstep
        · -- delete
          cases hk : a (key e.obj) <;> simp only [hk] at hstep <;> try cases hstep
          simp only [AMap.set] at hx
          split at hx
          · cases hx
          · exact hs.1 k x hx
      have ih' := ih a1 a' hs1 h
      cases had : adapt e.obj with
      | none =>
        -- a foreign event: skipped by the typed stream, invisible in the typed view
        have hte : typedEvents adapt (e :: es) = typedEvents adapt es := by
          simp [typedEvents, List.filterMap_cons, had]
        rw [hte]
        have hfor : own (key e.obj) = false := by rw [← hown, had]; rfl
        have hcur : ∀ x, a (key e.obj) = some x → adapt x.obj = none := by
          intro x hx
          have := hs.1 _ x hx
          rw [hfor] at this
          cases h' : adapt x.obj with
          | none => rfl
          | some _ => simp [h'] at this
        have : restrictA adapt a1 = restrictA adapt a := by
          unfold applyEv at hstep
          cases ht : e.t <;> simp only [ht] at hstep
          · cases hv : ver e.obj <;> cases hk : a (key e.obj) <;> simp only [hv, hk] at hstep <;> try cases hstep
            exact restrictA_set_foreign adapt a _ _ (fun x hx => by cases hx; exact had) hcur
          · cases hv : ver e.obj <;> cases hk : a (key e.obj) <;> simp only [hv, hk] at hstep <;> try cases hstep
            split at hstep
            · cases hstep
              exact restrictA_set_foreign adapt a _ _ (fun x hx => by cases hx; exact had) hcur
            · cases hstep
          · cases hk : a (key e.obj) <;> simp only [hk] at hstep <;> try cases hstep
            exact restrictA_set_foreign adapt a _ _ (fun x hx => by cases hx) hcur
        rw [← this]
        exact ih'
      | some t =>
        have hte : typedEvents adapt (e :: es) = ⟨e.t, t⟩ :: typedEvents adapt es := by
          simp [typedEvents, List.filterMap_cons, had]
        rw [hte]
        simp only [replay]
        obtain ⟨hkey, hver⟩ := hf e.obj t had
        have hownT : own (key e.obj) = true := by rw [← hown, had]; rfl
        have hcur : ∀ x, a (key e.obj) = some x → ∃ tx, adapt x.obj = some tx := by
          intro x hx
          have := hs.1 _ x hx
          rw [hownT] at this
          cases h' : adapt x.obj with
          | none => simp [h'] at this
          | some tx => exact ⟨tx, rfl⟩
        have hset : ∀ (y : Option (Entry O)) (ty : Option (Entry T)),
            (y.bind fun e => (adapt e.obj).map fun t => (⟨e.ver, t⟩ : Entry T)) = ty →
            restrictA adapt (a.set (key e.obj) y) = (restrictA adapt a).set (key e.obj) ty := by
          intro y ty hy
          funext k'
          unfold restrictA AMap.set
          by_cases hk' : k' = key e.obj
          · simp [hk', hy]
          · simp [hk']
        have hstepT : applyEv keyT verT (restrictA adapt a) ⟨e.t, t⟩ = some (restrictA adapt a1) := by
          unfold applyEv at hstep ⊢
          simp only [hkey, hver]
          cases ht : e.t <;> simp only [ht] at hstep ⊢
          · cases hv : ver e.obj <;> cases hk : a (key e.obj) <;> simp only [hv, hk] at hstep <;> try cases hstep
            rename_i v
            have : restrictA adapt a (key e.obj) = none := by simp [restrictA, hk]
            simp only [this]
            rw [hset _ (some ⟨v, t⟩) (by simp [had])]
          · cases hv : ver e.obj <;> cases hk : a (key e.obj) <;> simp only [hv, hk] at hstep <;> try cases hstep
            rename_i v c
            obtain ⟨tc, htc⟩ := hcur c hk
            have : restrictA adapt a (key e.obj) = some ⟨c.ver, tc⟩ := by simp [restrictA, hk, htc]
            simp only [this]
            split at hstep
            · next hlt =>
              cases hstep
              simp only [hlt, if_true]
              rw [hset _ (some ⟨v, t⟩) (by simp [had])]
            · cases hstep
          · cases hk : a (key e.obj) <;> simp only [hk] at hstep <;> try cases hstep
            rename_i c
            obtain ⟨tc, htc⟩ := hcur c hk
            have : restrictA adapt a (key e.obj) = some ⟨c.ver, tc⟩ := by simp [restrictA, hk, htc]
            simp only [this]
            rw [hset none none rfl]
        rw [hstepT]
        exact ih'
end

/-- the hypothesis is needed: when a foreign object takes over a key, the typed object vanishes from the
typed cache without any typed event (objects: (key, version, ownType)) -/
theorem typed_replay_needs_kind_stable :
    let adapt : Nat × Int × Bool → Option (Nat × Int × Bool) := fun o => if o.2.2 then some o else none
    let key : Nat × Int × Bool → Nat := (·.1)
    let ver : Nat × Int × Bool → Option Int := fun o => some o.2.1
    let evs : List (Ev (Nat × Int × Bool)) := [⟨.create, (1, 1, true)⟩, ⟨.update, (1, 2, false)⟩]
    typedEvents adapt evs = [⟨.create, (1, 1, true)⟩] ∧
    (∃ a', replay key ver evs (fun _ => none) = some a' ∧ restrictA adapt a' 1 = none) := by
  refine ⟨(by simp [typedEvents]), ?_⟩
  refine ⟨_, rfl, ?_⟩
  simp [restrictA, AMap.set]

/-- non-vacuity of `typed_replay`'s hypotheses: two pods and a secret on distinct keys -/
example :
    let adapt : Nat × Int × Bool → Option (Nat × Int × Bool) := fun o => if o.2.2 then some o else none
    KindStable adapt (·.1) (fun k => k != 3) (fun _ => none)
      [⟨.create, (1, 1, true)⟩, ⟨.create, (3, 2, false)⟩, ⟨.update, (1, 3, true)⟩, ⟨.delete, (3, 4, false)⟩] := by
  refine ⟨(by intro k e h; cases h), ?_⟩
  intro e he
  simp at he
  rcases he with rfl | rfl | rfl | rfl <;> rfl

/-! ### (c) REST requests -/

/-- all namespaces when none is given: no `namespaces` segment at all -/
theorem list_path_all_namespaces (p : List String) (res : String) (o : ListOpts) :
    (listReq p res "" o).segments = p ++ [res] ∧ (watchReq p res "" o).segments = p ++ ["watch", res] := by
  simp [listReq, watchReq, nsSegments]

/-- the requested namespace, for list and watch alike -/
theorem path_namespaced (p : List String) (res ns : String) (o : ListOpts) (h : ns ≠ "") :
    (listReq p res ns o).segments = p ++ ["namespaces", ns, res] ∧
    (watchReq p res ns o).segments = p ++ ["watch", "namespaces", ns, res] := by
  simp [listReq, watchReq, nsSegments, h]

/-- list and watch address the same resource in the same namespace: the watch path is the list path with
`watch` inserted after the API prefix -/
theorem watch_path_is_list_path (p : List String) (res ns : String) (o o' : ListOpts) :
    (watchReq p res ns o).segments = p ++ "watch" :: ((listReq p res ns o').segments.drop p.length) := by
  simp [listReq, watchReq]

/-- different namespaces, different requests -/
theorem namespace_determines_path (p : List String) (res ns ns' : String) (o o' : ListOpts)
    (h : (listReq p res ns o).segments = (listReq p res ns' o').segments) : ns = ns' := by
  simp only [listReq, List.append_assoc, List.append_cancel_left_eq] at h
  unfold nsSegments at h
  split at h <;> split at h
  · next h1 h2 => rw [h1, h2]
  · simp at h
  · simp at h
  · simp at h; exact h

/-- the query carries the call's own options and nothing else: no parameter twice, the version that was asked for -/
theorem query_spec (o : ListOpts) :
    ((optsQuery o).map (·.1)).Nodup ∧
    (o.resourceVersion ≠ "" → ("resourceVersion", o.resourceVersion) ∈ optsQuery o) ∧
    (∀ v, ("resourceVersion", v) ∈ optsQuery o → v = o.resourceVersion) ∧
    (("watch", "true") ∈ optsQuery o ↔ o.watch = true) := by
  unfold optsQuery
  by_cases h1 : o.resourceVersion = "" <;> by_cases h2 : o.watch = true <;> simp [h1, h2]

/-- a client is stateless: the request made for a call does not depend on the calls before it -/
theorem requests_stateless (p : List String) (res ns : String) (before after : List RestCall) (c : RestCall) :
    (clientReqs p res ns (before ++ c :: after))[before.length]? = (clientReqs p res ns [c])[0]? := by
  simp [clientReqs]

/-- every typed package has an API resource of its own -/
theorem api_table_covers_packages : apiTable.map (·.1) = typedPackages := by decide

theorem api_resources_distinct : (apiTable.map (·.2)).Nodup := by decide

end KC.C20
