/-
  C02 — Emitted events are an exact, minimal, well-formed delta of the cache.
  Property theorems only.
-/
import KcacheModel.Cache
import KcacheModel.Proofs.Cache
namespace KC.C02
open KC AL

section
variable {K O : Type} [DecidableEq K]
variable (key : O → K) (ver : O → Option Int) (acc : O → Bool)

/-- the events of an update, replayed in order on the content before it, give the content after it
(`replay` fails on any ill-formed event: Create of a present key, Update of an absent key or to a
version that is not strictly newer, Delete of an absent key) -/
theorem update_events_replay (m : Items K O) (t : EvT) (o : O) :
    replay key ver (doUpdate key ver acc m t o).2 (abs m) = some (abs (doUpdate key ver acc m t o).1) := by
  unfold doUpdate
  cases hv : ver o with
  | none => rfl
  | some v =>
    simp only
    have habs : abs m (key o) = lookup (key o) m := rfl
    cases t with
    | delete =>
      cases hc : lookup (key o) m with
      | none => rfl
      | some cur => simp [replay, applyEv, habs, hc, abs_erase]
    | create | update =>
      cases hc : lookup (key o) m with
      | none => by_cases ha : acc o = true <;> simp [ha, replay, applyEv, habs, hc, hv, abs_insert]
      | some cur =>
        by_cases hlt : cur.ver < v
        · by_cases ha : acc o = true <;> simp [hlt, ha, replay, applyEv, habs, hc, hv, abs_insert, abs_erase]
        · simp [hlt, replay]

/-- the same for a sync or refilter, for every list (duplicates and malformed entries included) -/
theorem sync_events_replay (m : Items K O) (l : List O) (hwf : WF key m) :
    replay key ver (doSync key ver acc m l).2 (abs m) = some (abs (doSync key ver acc m l).1) := by
  unfold doSync syncFold
  simp only [replay_append]
  rw [fold_replay key ver acc m l ⟨m, [], []⟩ rfl]
  simp only [Option.bind_some]
  exact dropped_replay_abs key ver _ _ (fold_WF key ver acc l ⟨m, [], []⟩ hwf)

/-- well-formedness of the stored items is an invariant (needed by `sync_events_replay`) -/
theorem update_WF (m : Items K O) (t : EvT) (o : O) (h : WF key m) : WF key (doUpdate key ver acc m t o).1 := by
  unfold doUpdate
  cases hv : ver o with
  | none => simpa using h
  | some v =>
    simp only
    cases t <;> cases hc : lookup (key o) m <;> simp only [] <;> (repeat' split) <;>
      first | exact h | exact WF_insert key h o v | exact WF_erase key h _

theorem sync_WF (m : Items K O) (l : List O) (h : WF key m) : WF key (doSync key ver acc m l).1 :=
  WF_keep key (fold_WF key ver acc l ⟨m, [], []⟩ h) _

/-- **minimality**: an update that leaves the content unchanged emits no event … -/
theorem update_noop_silent (m : Items K O) (t : EvT) (o : O)
    (h : abs (doUpdate key ver acc m t o).1 = abs m) : (doUpdate key ver acc m t o).2 = [] := by
  unfold doUpdate at h ⊢
  cases hv : ver o with
  | none => rfl
  | some v =>
    simp only [hv] at h ⊢
    have hk := congrFun h (key o)
    simp only [abs] at hk
    cases t with
    | delete =>
      cases hc : lookup (key o) m with
      | none => rfl
      | some cur => simp [hc] at hk
    | create | update =>
      cases hc : lookup (key o) m with
      | none =>
        by_cases ha : acc o = true
        · simp [hc, ha] at hk
        · simp [ha]
      | some cur =>
        by_cases hlt : cur.ver < v
        · by_cases ha : acc o = true
          · simp only [hc, hlt, ↓reduceIte, ha, lookup_insert_self, Option.some.injEq] at hk
            rw [← hk] at hlt; simp at hlt
          · simp [hc, hlt, ha] at hk
        · simp [hlt]

/-- … and so does a sync or refilter (e.g. an unchanged relist) -/
theorem sync_noop_silent (m : Items K O) (l : List O)
    (h : abs (doSync key ver acc m l).1 = abs m) : (doSync key ver acc m l).2 = [] := by
  unfold doSync syncFold at h ⊢
  simp only at h ⊢
  have hT := fold_Touched key ver acc m l ⟨m, [], []⟩ (by
    intro k
    refine ⟨fun ⟨ev, hev, _⟩ => by simp at hev, fun _ => rfl⟩)
  generalize l.foldl (syncStep key ver acc) ⟨m, [], []⟩ = st at h hT
  have hevs : st.evs = [] := by
    cases hE : st.evs with
    | nil => rfl
    | cons ev rest =>
      exfalso
      have ht : touches key st.evs (key ev.obj) := ⟨ev, by simp [hE], rfl⟩
      obtain ⟨hin, hnew⟩ := (hT (key ev.obj)).1 ht
      have := congrFun h (key ev.obj)
      simp only [abs, lookup_keep_mem _ _ _ hin] at this
      exact hnew.ne this
  rw [hevs, List.nil_append]
  cases hD : dropped st.set st.items with
  | nil => rfl
  | cons d ds =>
    exfalso
    obtain ⟨k, e, he, hk⟩ := dropped_ne_nil st.set st.items (by simp [hD])
    have hnt : ¬ touches key st.evs k := by rintro ⟨ev, hev, _⟩; simp [hevs] at hev
    have h0 := (hT k).2 hnt
    have := congrFun h k
    simp only [abs, lookup_keep_not_mem _ _ _ hk] at this
    rw [← h0, he] at this; cases this

/-- redelivered or stale versions emit nothing -/
theorem redelivery_silent (m : Items K O) (t : EvT) (o : O) (v : Int) (cur : Entry O) (ht : t ≠ .delete)
    (hv : ver o = some v) (hc : lookup (key o) m = some cur) (hle : v ≤ cur.ver) :
    doUpdate key ver acc m t o = (m, []) := by
  unfold doUpdate
  have : ¬ cur.ver < v := by omega
  cases t <;> simp_all <;> (intro h; omega)

/-- deleting an unknown key emits nothing -/
theorem delete_unknown_silent (m : Items K O) (o : O) (hc : lookup (key o) m = none) :
    doUpdate key ver acc m .delete o = (m, []) := by
  unfold doUpdate
  cases ver o <;> simp [hc]

/-- a rejected unknown object emits nothing -/
theorem rejected_unknown_silent (m : Items K O) (t : EvT) (o : O) (ht : t ≠ .delete)
    (hc : lookup (key o) m = none) (ha : acc o = false) : doUpdate key ver acc m t o = (m, []) := by
  unfold doUpdate
  cases ver o <;> cases t <;> simp_all

end

section
variable {K O F : Type} [DecidableEq K]
variable (key : O → K) (ver : O → Option Int) (accF : F → O → Bool)

theorem step_WF (s : CacheSt K O F) (op : CacheOp O F) (h : WF key s.items) :
    WF key (cacheStep key ver accF s op).1.items := by
  cases op with
  | sync l => exact sync_WF key ver _ s.items l h
  | refilter l g => exact sync_WF key ver _ s.items l h
  | update t o => exact update_WF key ver _ s.items t o h

/-- every batch, for every operation with arbitrary arguments, replays from the content before the
operation to the content after it -/
theorem step_events_replay (s : CacheSt K O F) (op : CacheOp O F) (h : WF key s.items) :
    replay key ver (cacheStep key ver accF s op).2 (abs s.items)
      = some (abs (cacheStep key ver accF s op).1.items) := by
  cases op with
  | sync l => exact sync_events_replay key ver _ s.items l h
  | refilter l g => exact sync_events_replay key ver _ s.items l h
  | update t o => exact update_events_replay key ver _ s.items t o

theorem step_noop_silent (s : CacheSt K O F) (op : CacheOp O F)
    (h : abs (cacheStep key ver accF s op).1.items = abs s.items) : (cacheStep key ver accF s op).2 = [] := by
  cases op with
  | sync l => exact sync_noop_silent key ver _ s.items l h
  | refilter l g => exact sync_noop_silent key ver _ s.items l h
  | update t o => exact update_noop_silent key ver _ s.items t o h

/-- all events emitted along a history, batch after batch -/
def runEvents (s : CacheSt K O F) : List (CacheOp O F) → List (Ev O)
  | [] => []
  | op :: ops => (cacheStep key ver accF s op).2 ++ runEvents (cacheStep key ver accF s op).1 ops

/-- **a consumer that mirrors the cache by replaying events never diverges from it**: starting from
the cache content at any point, replaying everything emitted since yields the current content, for
every history -/
theorem mirror_never_diverges (s : CacheSt K O F) (ops : List (CacheOp O F)) (h : WF key s.items) :
    replay key ver (runEvents key ver accF s ops) (abs s.items)
      = some (abs (cacheRun key ver accF s ops).items) := by
  induction ops generalizing s with
  | nil => rfl
  | cons op ops ih =>
    simp only [runEvents, replay_append, step_events_replay key ver accF s op h, Option.bind_some]
    simpa [cacheRun] using ih _ (step_WF key ver accF s op h)

/-- the initial (empty) cache is well-formed, so the above applies to every reachable state -/
theorem reachable_WF (f0 : F) (ops : List (CacheOp O F)) :
    WF key (cacheRun key ver accF ⟨[], f0⟩ ops).items := by
  suffices H : ∀ (s : CacheSt K O F), WF key s.items → WF key (cacheRun key ver accF s ops).items from
    H ⟨[], f0⟩ (WF_nil key)
  induction ops with
  | nil => intro s h; exact h
  | cons op ops ih =>
    intro s h
    simpa [cacheRun] using ih _ (step_WF key ver accF s op h)

end

/-! non-vacuity: a concrete batch that replays, and an ill-formed one that does not -/
example : (replay (K := String) (O := String × Int) (·.1) (fun o => some o.2)
    [⟨.create, ("a", 1)⟩, ⟨.update, ("a", 2)⟩, ⟨.delete, ("a", 2)⟩] (fun _ => none)).isSome = true := by decide
example : (replay (K := String) (O := String × Int) (·.1) (fun o => some o.2)
    [⟨.create, ("a", 1)⟩, ⟨.update, ("a", 1)⟩] (fun _ => none)).isNone = true := by decide

end KC.C02

#print axioms KC.C02.update_events_replay
#print axioms KC.C02.sync_events_replay
#print axioms KC.C02.update_noop_silent
#print axioms KC.C02.sync_noop_silent
#print axioms KC.C02.redelivery_silent
#print axioms KC.C02.delete_unknown_silent
#print axioms KC.C02.rejected_unknown_silent
#print axioms KC.C02.step_events_replay
#print axioms KC.C02.step_noop_silent
#print axioms KC.C02.mirror_never_diverges
#print axioms KC.C02.reachable_WF
