/-
  C09 — Joins select exactly the destination objects matched by current source objects.
  Property theorems only. A join = a deferred filtered clone of the destination (C06/C08 machinery) whose
  filter is recomputed from the source cache by a monitor on the source (C16 machinery) at OnInitialize and at
  every source event, plus a helper that closes the monitor when the clone is done (C11 machinery).
-/
import KcacheModel.FSubWorld
import KcacheModel.Proofs.FSub
import KcacheModel.Proofs.Filters
import KcacheModel.Props.C06
import KcacheModel.Props.C08
import KcacheModel.Props.C11
import KcacheModel.Props.C16
import KcacheModel.Props.C19
import KcacheModel.Proofs.Join
namespace KC.C09
open KC AL

/-! ### the last Refilter is computed from the final source cache -/

/-- **once the source side has quiesced** (the monitor is initialised and has handled every source change), the
filter most recently handed to `Refilter` was computed from the source cache in its final state — whatever the
relative timing of source changes, handler calls and their cache reads was -/
theorem join_last_refilter_is_current (s0 : Nat) (ls : List JL) (t : JS)
    (hr : (⟨s0, s0, s0, 0, false⟩ : JS).run ls = some t) (hi : t.inited = true) (hq : t.handled = t.n) :
    t.last = t.n := by
  have := jsinv_run _ ls t ⟨Nat.le_refl _, fun _ => rfl, (fun h => by cases h)⟩ hr
  have := this.2.2 hi
  omega

/-! ### the join's cache -/

section
variable {K O F : Type} [DecidableEq K]
variable (key : O → K) (ver : O → Option Int) (accF : F → O → Bool) (feq : F → F → Bool) (cap : Nat)
variable (hfeq : ∀ f g, feq f g = true → ∀ o, accF f o = accF g o)
include hfeq

/-- **convergence**: when both sides have quiesced — the clone has consumed every destination event and the
filter last handed to it accepts exactly what the selection rule `sel` (computed from the current sources)
selects — the join's cache is exactly the destination objects selected by the current sources -/
theorem join_converges {w : World K O F} (h : Reach key ver accF feq cap w) (hr : w.fs.ready = true)
    (hq : w.consumed = w.plog.length) (sel : O → Bool) (hsel : ∀ o, accF w.fs.lastF o = sel o) (k : K) :
    lookup k w.fs.items = view sel (w.pnow key ver k) := by
  rw [C06.fsub_converges key ver accF feq cap hfeq h hr hq k]
  exact view_congr hsel _

/-- **ready only after both sides**: the join's clone is a deferred filtered subscription; it is ready only
after the destination's readiness was observed and a filter was supplied — and filters are supplied only by the
source monitor's callbacks, which run only after the source is ready (C16: no callback if never ready) -/
theorem join_ready_after_both {w : World K O F} (h : Reach key ver accF feq cap w) (hd : w.fs.deferReady = true)
    (hr : w.fs.ready = true) : w.fs.pseen = true ∧ w.fs.refilterSeen = true := by
  obtain ⟨h1, h2⟩ := C08.deferred_ready_needs_parent_and_filter key ver accF feq cap hfeq h hr
  exact ⟨h1, h2 hd⟩

omit hfeq in
/-- its events are a well-formed delta of its cache (C06) -/
theorem join_events_delta {w : World K O F} (h : Reach key ver accF feq cap w) (l : FLabel O F) :
    replay key ver (FSub.emitted key ver accF feq w.fs l) (abs w.fs.items)
      = some (abs (FSub.step key ver accF feq cap w.fs l).items) ∨
    FSub.emitted key ver accF feq w.fs l = [] :=
  C06.fsub_events_delta key ver accF feq cap h l

end

/-- a monitor calls its handler (and so supplies a filter) only after its subscription became ready -/
theorem refilter_only_after_source_ready {O : Type} (ls : List (MonLabel O)) (m : Mon O)
    (hr : ({} : Mon O).run ls = some m) (hlog : m.log ≠ []) : ∃ l, m.log.head? = some (.init l) := by
  rcases C16.callbacks_shape ls m hr with ⟨h, _⟩ | ⟨l, h⟩
  · exact absurd h hlog
  · exact ⟨l, by rw [h]; rfl⟩

/-! ### the selection rule (from C19): what the pods joins select -/

/-- with the apps/batch PodsFilter as filter function, "selected by the current sources" is: some source workload
of the pod's namespace whose selector (or, lacking one, template labels) matches the pod's labels -/
theorem pods_join_selects (fns : Nat → Obj → Bool) (ws : List Workload) (hns : ∀ w ∈ ws, w.key.ns ≠ "")
    (hv : ∀ w ∈ ws, w.valid = true) (p : Obj) :
    accept fns (podsFilter ws) p = ws.any (C19.owns · p) :=
  C19.podsFilter_spec fns ws hns hv p

theorem service_join_selects (fns : Nat → Obj → Bool) (ws : List Workload) (hns : ∀ w ∈ ws, w.key.ns ≠ "") (p : Obj) :
    accept fns (servicePodsFilter ws) p = ws.any (C19.serviceOwns · p) :=
  C19.servicePods_spec fns ws hns p

/-! ### closing the join result stops what the join created, and nothing else -/

/-- the components around one join: 0 = the process (never closed), 1 = source controller, 2 = destination
controller, 3 = the join's monitor (fed by 1), 4 = the join's filtered clone (fed by 2), 5 = a subscriber of the
join result (fed by 4), 6 = an unrelated subscriber of the destination (fed by 2) -/
def joinTree : Life := ⟨7, fun i => if i = 3 then 1 else if i = 4 then 2 else if i = 5 then 4 else if i = 6 then 2 else 0,
  fun _ => false, fun _ => false, fun _ => false⟩

/-- closing the join result (node 4) and, through the helper goroutine, its monitor (node 3): everything the
join created ends done; source, destination and the unrelated subscriber keep running -/
theorem join_close_scope : ∃ s, joinTree.run [.close 4, .stop 4, .stop 5, .finish 5, .finish 4, .close 3, .stop 3, .finish 3] = some s ∧
    (∀ i, i < 7 → s.enabled (.stop i) = false ∧ s.enabled (.finish i) = false) ∧
    s.done 3 = true ∧ s.done 4 = true ∧ s.done 5 = true ∧
    s.stopping 1 = false ∧ s.stopping 2 = false ∧ s.stopping 6 = false ∧ s.stopping 0 = false := by
  refine ⟨_, rfl, ?_, by decide, by decide, by decide, by decide, by decide, by decide, by decide⟩
  intro i h
  have : i = 0 ∨ i = 1 ∨ i = 2 ∨ i = 3 ∨ i = 4 ∨ i = 5 ∨ i = 6 := by omega
  rcases this with rfl | rfl | rfl | rfl | rfl | rfl | rfl <;> exact ⟨by decide, by decide⟩

/-- and in general (any tree): what is not under a closed component is never touched (C11) -/
theorem join_close_leaves_bases (s0 : Life) (hf : C11.Fresh s0) (ls : List LLabel) (s : Life) (hr : s0.run ls = some s)
    (i : Nat) (h : ¬ ∃ a, C11.Anc s a i ∧ s.stopReq a = true) : s.stopping i = false ∧ s.done i = false :=
  C11.survivors_untouched s0 hf ls s hr i h

end KC.C09

#print axioms KC.C09.join_last_refilter_is_current
#print axioms KC.C09.join_converges
#print axioms KC.C09.join_ready_after_both
#print axioms KC.C09.join_events_delta
#print axioms KC.C09.refilter_only_after_source_ready
#print axioms KC.C09.pods_join_selects
#print axioms KC.C09.join_close_scope
