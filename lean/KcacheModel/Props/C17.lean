/-
  C17 — Filter equality is sound: equal filters accept exactly the same objects.
  Property theorems only; the model is KcacheModel/Filter.lean and Workloads.lean.
-/
import KcacheModel.Filter
import KcacheModel.Workloads
import KcacheModel.Proofs.Filters
namespace KC.C17

open KC

mutual
  /-- **Soundness of `Equals`**: for every pair of filters of any shape and depth, if the
  library reports them equal they accept exactly the same objects (whatever the opaque FN
  predicates are). -/
  theorem equals_sound (fns : Nat → Obj → Bool) :
      ∀ (f g : Filter), equals f g = true → ∀ o, accept fns f o = accept fns g o
    | .null, g, h, o => by cases g <;> simp_all [equals]
    | .all, g, h, o => by cases g <;> simp_all [equals]
    | .not c, g, h, o => by
      cases g with
      | not d =>
        simp only [equals, Bool.and_eq_true] at h
        simp [accept, equals_sound fns c d h.2 o]
      | _ => simp [equals] at h
    | .and cs, g, h, o => by
      cases g with
      | and ds =>
        simp only [equals] at h
        simp [accept, equalsList_sound fns cs ds h o]
      | _ => simp [equals] at h
    | .or cs, g, h, o => by
      cases g with
      | or ds =>
        simp only [equals] at h
        simp [accept, equalsList_sound fns cs ds h o]
      | _ => simp [equals] at h
    | .nsname f p, g, h, o => by
      cases g with
      | nsname f' p' =>
        simp only [equals, Bool.and_eq_true, beq_iff_eq] at h
        obtain ⟨h1, h2⟩ := h
        subst h2
        simp only [accept]
        rw [contains_of_setEq h1]
      | _ => simp [equals] at h
    | .selector s, g, h, o => by
      cases g with
      | selector s' =>
        simp only [equals, beq_iff_eq] at h
        subst h; rfl
      | _ => simp [equals] at h
    | .fn id, g, h, o => by cases g <;> simp [equals] at h
    | .node ns, g, h, o => by
      cases g with
      | node ns' =>
        simp only [equals] at h
        simp only [accept]
        rw [contains_of_setEq h]
      | _ => simp [equals] at h
    | .involved k n m, g, h, o => by
      cases g with
      | involved k' n' m' =>
        simp only [equals, Bool.and_eq_true, beq_iff_eq] at h
        obtain ⟨⟨h1, h2⟩, h3⟩ := h
        subst h1 h2 h3; rfl
      | _ => simp [equals] at h
    | .selectorMatch t, g, h, o => by
      cases g with
      | selectorMatch t' =>
        simp only [equals, beq_iff_eq] at h
        subst h; rfl
      | _ => simp [equals] at h
  theorem equalsList_sound (fns : Nat → Obj → Bool) :
      ∀ (cs ds : List Filter), equalsList cs ds = true →
        ∀ o, (acceptAll fns cs o = acceptAll fns ds o) ∧ (acceptAny fns cs o = acceptAny fns ds o)
    | [], [], _, o => by simp [acceptAll, acceptAny]
    | [], _ :: _, h, o => by simp [equalsList] at h
    | _ :: _, [], h, o => by simp [equalsList] at h
    | c :: cs, d :: ds, h, o => by
      simp only [equalsList, Bool.and_eq_true] at h
      obtain ⟨⟨⟨_, _⟩, h3⟩, h4⟩ := h
      have e1 := equals_sound fns c d h3 o
      have e2 := equalsList_sound fns cs ds h4 o
      simp [acceptAll, acceptAny, e1, e2.1, e2.2]
end

/-- `filter.FiltersEqual` (nil handling included) is sound. -/
theorem filtersEqual_sound (fns : Nat → Obj → Bool) (f g : Filter)
    (h : filtersEqual (some f) (some g) = true) (o : Obj) : accept fns f o = accept fns g o :=
  equals_sound fns f g (by simpa [filtersEqual] using h) o

theorem filtersEqual_nil (f : Filter) :
    filtersEqual none none = true ∧ filtersEqual none (some f) = false ∧ filtersEqual (some f) none = false := by
  simp [filtersEqual]

mutual
  /-- Comparable filters built twice from the same arguments compare equal. -/
  theorem equals_refl : ∀ (f : Filter), fnFree f = true → equals f f = true
    | .null, _ => by simp [equals]
    | .all, _ => by simp [equals]
    | .not c, h => by
      simp only [fnFree] at h
      simp [equals, equals_refl c h, comparable_of_fnFree h]
    | .and cs, h => by simp only [fnFree] at h; simp [equals, equalsList_refl cs h]
    | .or cs, h => by simp only [fnFree] at h; simp [equals, equalsList_refl cs h]
    | .nsname f p, _ => by simp [equals, setEq_refl]
    | .selector s, _ => by simp [equals]
    | .fn _, h => by simp [fnFree] at h
    | .node ns, _ => by simp [equals, setEq_refl]
    | .involved _ _ _, _ => by simp [equals]
    | .selectorMatch _, _ => by simp [equals]
  theorem equalsList_refl : ∀ (cs : List Filter), fnFree.fnFreeList cs = true → equalsList cs cs = true
    | [], _ => by simp [equalsList]
    | c :: cs, h => by
      simp only [fnFree.fnFreeList, Bool.and_eq_true] at h
      simp [equalsList, equals_refl c h.1, equalsList_refl cs h.2, comparable_of_fnFree h.1]
end

/-! ### Workload filters are independent of the order of their sources -/

theorem sortW_perm_eq {ws ws' : List Workload} (hp : ws.Perm ws') (hn : (ws.map (·.key)).Nodup) :
    sortW ws = sortW ws' := sortW_eq_of_perm hp hn

/-- permuting sources with distinct (namespace, name) gives the *same* filter term for the
replica-set/deployment/daemon-set/stateful-set/job pods filter … -/
theorem podsFilter_perm {ws ws' : List Workload} (hp : ws.Perm ws') (hn : (ws.map (·.key)).Nodup) :
    podsFilter ws = podsFilter ws' := by
  unfold podsFilter; rw [sortW_perm_eq hp hn]

theorem servicePodsFilter_perm {ws ws' : List Workload} (hp : ws.Perm ws') (hn : (ws.map (·.key)).Nodup) :
    servicePodsFilter ws = servicePodsFilter ws' := by
  unfold servicePodsFilter; rw [sortW_perm_eq hp hn]

theorem rcPodsFilter_perm {ws ws' : List Workload} (hp : ws.Perm ws') (hn : (ws.map (·.key)).Nodup) :
    rcPodsFilter ws = rcPodsFilter ws' := by
  unfold rcPodsFilter; rw [sortW_perm_eq hp hn]

/-- … and such a term is FN-free, hence compares equal to itself: `Equals` reports the two
filters equal. -/
theorem podsFilter_equal {ws ws' : List Workload} (hp : ws.Perm ws') (hn : (ws.map (·.key)).Nodup) :
    equals (podsFilter ws) (podsFilter ws') = true := by
  rw [podsFilter_perm hp hn]; exact equals_refl _ (podsFilter_fnFree ws')

theorem servicePodsFilter_equal {ws ws' : List Workload} (hp : ws.Perm ws') (hn : (ws.map (·.key)).Nodup) :
    equals (servicePodsFilter ws) (servicePodsFilter ws') = true := by
  rw [servicePodsFilter_perm hp hn]; exact equals_refl _ (servicePodsFilter_fnFree ws')

theorem rcPodsFilter_equal {ws ws' : List Workload} (hp : ws.Perm ws') (hn : (ws.map (·.key)).Nodup) :
    equals (rcPodsFilter ws) (rcPodsFilter ws') = true := by
  rw [rcPodsFilter_perm hp hn]; exact equals_refl _ (rcPodsFilter_fnFree ws')

/-- ingress services filter: any permutation of namespaced ingresses gives an equal filter -/
theorem servicesFilter_equal {is is' : List Ingress} (hp : is.Perm is')
    (hns : ∀ i ∈ is, i.ns ≠ "") : equals (servicesFilter is) (servicesFilter is') = true :=
  servicesFilter_equal_of_perm hp hns

/-! non-vacuity: concrete instances of the hypotheses -/
example : equals (.and [.nsname [⟨"a", "x"⟩, ⟨"b", "y"⟩] [⟨"a", ""⟩], .not (.selector (.reqs [⟨"l", .eq, ["1"]⟩]))])
                 (.and [.nsname [⟨"b", "y"⟩, ⟨"a", "x"⟩] [⟨"a", ""⟩], .not (.selector (.reqs [⟨"l", .eq, ["1"]⟩]))]) = true := by
  decide
example : equals (.not (.fn 0)) (.not (.fn 0)) = false := by decide
example : ([⟨⟨"a", "x"⟩, none, [("l", "1")]⟩, ⟨⟨"b", "y"⟩, none, []⟩] : List Workload).Perm
          [⟨⟨"b", "y"⟩, none, []⟩, ⟨⟨"a", "x"⟩, none, [("l", "1")]⟩] := List.Perm.swap _ _ _

/-- three "everything" selectors: `Everything()` / an empty `LabelSelector{}` (`reqs []`) and the nil requirement slice
of `NewSelector()` / `Parse("")` (`nilReqs`) accept the same objects; the code tells them apart (`reflect.DeepEqual`
of a nil and an empty slice), which soundness allows — and neither is ever equal to the match-nothing selector -/
example (fns : Nat → Obj → Bool) (o : Obj) : accept fns (.selector .nilReqs) o = accept fns (.selector (.reqs [])) o := by
  simp [accept, Sel.matches]
example : equals (.selector .nilReqs) (.selector (.reqs [])) = false ∧ equals (.selector .nilReqs) (.selector .nilReqs) = true ∧
    equals (.selector .nilReqs) (.selector .nothing) = false ∧ equals (.selector (.reqs [])) (.selector .nothing) = false := by decide

end KC.C17

#print axioms KC.C17.equals_sound
#print axioms KC.C17.filtersEqual_sound
#print axioms KC.C17.equals_refl
#print axioms KC.C17.podsFilter_equal
#print axioms KC.C17.servicePodsFilter_equal
#print axioms KC.C17.rcPodsFilter_equal
#print axioms KC.C17.servicesFilter_equal
