/-
  C14 — List failures are fail-stop and reported; watch failures are never fatal.
  Decision logic of the controller loop, stated outright on the model (Ctrl.lean).
-/
import KcacheModel.Ctrl
import KcacheModel.Proofs.Ctrl
import KcacheModel.Proofs.CtrlWitness
namespace KC.C14
open KC AL

section
variable {K O : Type} [DecidableEq K]
variable (key : O → K) (ver : O → Option Int) (acc : O → Bool)

/-- a failed list (error, or something that is not a list of API objects) at ANY point stops the controller
and records the cause; Ready() is unaffected (closed iff an earlier list had succeeded); the watch is torn down -/
theorem list_failure_stops (w : CW K O) (k : StopKind) :
    (w.step key ver acc (.listFail k)).stopped = some k ∧
    (w.step key ver acc (.listFail k)).ready = w.ready ∧
    (w.step key ver acc (.listFail k)).live = false := by
  simp [CW.step]

/-- a failed first list never makes anything ready -/
theorem failed_first_list_never_ready {w : CW K O} (hs : w.stopped.isSome = true)
    (hr : w.ready = false) (l : CLabel O) (hen : w.enabled key ver l) : (w.step key ver acc l).ready = false := by
  have hrun : w.running = false := by
    cases hst : w.stopped with
    | none => rw [hst] at hs; cases hs
    | some _ => simp [CW.running, hst]
  cases l with
  | listApplied j plist => obtain ⟨h1, _⟩ := hen; rw [hrun] at h1; cases h1
  | apply =>
    simp only [CW.step]
    cases w.hist[w.a]? <;> exact hr
  | _ => exact hr

/-- **fail-stop**: once stopped, the controller applies nothing any more: no list result, no watch event, no
reconnect is enabled -/
theorem stopped_is_final (w : CW K O) (hs : w.stopped.isSome = true) :
    (∀ j plist, ¬ w.enabled key ver (.listApplied j plist)) ∧ ¬ w.enabled key ver .apply ∧
    ¬ w.enabled key ver .retry ∧ ¬ w.enabled key ver .take ∧ ¬ w.enabled key ver .decode := by
  have hrun : w.running = false := by
    cases hst : w.stopped with
    | none => rw [hst] at hs; cases hs
    | some _ => simp [CW.running, hst]
  refine ⟨fun j plist h => ?_, fun h => ?_, fun h => ?_, fun h => ?_, fun h => ?_⟩ <;>
    (have := h.1; rw [hrun] at this; cases this)

/-- **watch failures are never fatal**: no watch-side step changes whether the controller runs -/
theorem watch_failure_not_fatal (w : CW K O) (l : CLabel O)
    (hl : l = .sessEnd ∨ l = .retry ∨ l = .decode ∨ l = .take ∨ l = .apply) :
    (w.step key ver acc l).stopped = w.stopped := by
  rcases hl with rfl | rfl | rfl | rfl | rfl <;> simp only [CW.step]
  cases w.hist[w.a]? <;> rfl

/-- a controller that is closed deliberately reports no failure … -/
theorem deliberate_close_no_error (w : CW K O) (hrun : w.running = true) :
    (w.step key ver acc .close).stopped = some .closed := by
  have : w.stopped = none := by simpa [CW.running, Option.isNone_iff_eq_none] using hrun
  simp [CW.step, this]

/-- … and closing after a failure keeps the recorded cause -/
theorem close_keeps_cause (w : CW K O) (k : StopKind) (hs : w.stopped = some k) :
    (w.step key ver acc .close).stopped = some k := by
  simp [CW.step, hs]

/-- the only stop causes the controller knows are a list failure or a Close -/
theorem stop_causes (k : StopKind) :
    k = .listError ∨ k = .listInvalid ∨ k = .closed := by
  cases k <;> simp

end
/-! non-vacuity: in the reachable, ready state of Proofs/CtrlWitness.lean a list failure is enabled; it stops the
controller with its cause and leaves Ready() closed; after a watch failure (session end) the controller still runs -/
example : CtrlWitness.w6.enabled CtrlWitness.kk CtrlWitness.vv (.listFail .listError) ∧
    (CtrlWitness.w6.step CtrlWitness.kk CtrlWitness.vv CtrlWitness.aa (.listFail .listError)).stopped = some .listError ∧
    (CtrlWitness.w6.step CtrlWitness.kk CtrlWitness.vv CtrlWitness.aa (.listFail .listError)).ready = true ∧
    (CtrlWitness.w6.step CtrlWitness.kk CtrlWitness.vv CtrlWitness.aa .sessEnd).running = true :=
  ⟨⟨rfl, by decide⟩, rfl, rfl, rfl⟩

end KC.C14

#print axioms KC.C14.list_failure_stops
#print axioms KC.C14.failed_first_list_never_ready
#print axioms KC.C14.stopped_is_final
#print axioms KC.C14.watch_failure_not_fatal
#print axioms KC.C14.deliberate_close_no_error
#print axioms KC.C14.close_keeps_cause
