/-
  C16 — Monitor callbacks: initialize once first, then one callback per event, serially.
  Property theorems only (model: Mon.lean). All event sequences, all moments of Close / readiness:
  all label lists accepted by `Mon.run`.
-/
import KcacheModel.Mon
import KcacheModel.Proofs.Mon
namespace KC.C16
open KC

section
variable {O : Type}

/-- **the callback log of every run**: either empty, or `OnInitialize(L)` followed by exactly one callback per
event received, of the matching kind and object, in event order — for every event sequence, every handler
timing and every moment of Close (any label list) -/
theorem callbacks_shape (ls : List (MonLabel O)) (m : Mon O) (hr : ({} : Mon O).run ls = some m) :
    (m.log = [] ∧ m.received = []) ∨ ∃ l, m.log = .init l :: m.received.map callbackOf := by
  obtain ⟨hw, hrun, hd⟩ := run_shape2 _ ls m shape2_init hr
  cases hp : m.phase with
  | waiting => exact Or.inl (hw hp)
  | running => exact Or.inr (hrun hp)
  | done => exact hd hp

/-- OnInitialize is invoked at most once and before any other callback -/
theorem init_once_first (ls : List (MonLabel O)) (m : Mon O) (hr : ({} : Mon O).run ls = some m) :
    ∀ i l, m.log[i]? = some (.init l) → i = 0 := by
  intro i l hi
  rcases callbacks_shape ls m hr with ⟨h, _⟩ | ⟨l0, h⟩
  · rw [h] at hi; simp at hi
  · rw [h] at hi
    cases i with
    | zero => rfl
    | succ j =>
      simp only [List.getElem?_cons_succ, List.getElem?_map] at hi
      cases hj : m.received[j]? with
      | none => simp [hj] at hi
      | some e =>
        simp only [hj, Option.map_some, Option.some.injEq] at hi
        unfold callbackOf at hi
        cases ht : e.t <;> rw [ht] at hi <;> cases hi

/-- **no callback after Done**: once the monitor is done no step is enabled that could log anything -/
theorem silent_after_done (m : Mon O) (l : MonLabel O) (hd : m.phase = .done) : m.enabled l = false := by
  cases l <;> simp [Mon.enabled, hd]

/-- if the publisher shuts down before the subscription becomes ready, no callback runs at all -/
theorem no_callback_if_never_ready (ls : List (MonLabel O)) (m : Mon O) (hr : ({} : Mon O).run ls = some m)
    (hnr : ∀ l ∈ ls, ∀ x, l ≠ .ready (some x)) : m.log = [] := by
  have H : ∀ (ls : List (MonLabel O)), (∀ l ∈ ls, ∀ x, l ≠ .ready (some x)) →
      ∀ (m0 : Mon O), m0.log = [] → m0.phase ≠ .running → m0.run ls = some m → m.log = [] := by
    intro ls
    induction ls with
    | nil => intro _ m0 h0 _ hr; simp [Mon.run] at hr; subst hr; exact h0
    | cons l ls ih =>
      intro hnr m0 h0 hp hr
      simp only [Mon.run] at hr
      split at hr
      · rename_i hen
        have hnr' : ∀ l' ∈ ls, ∀ x, l' ≠ .ready (some x) := fun l' hl' => hnr l' (List.mem_cons_of_mem _ hl')
        refine ih hnr' (m0.step l) ?_ ?_ hr
        · cases l with
          | subDone => exact h0
          | eventsClosed => exact h0
          | ready lst =>
            cases lst with
            | none => exact h0
            | some x => exact absurd rfl (hnr _ List.mem_cons_self x)
          | event e => simp only [Mon.enabled, beq_iff_eq] at hen; exact absurd hen hp
        · cases l with
          | subDone => simp [Mon.step]
          | eventsClosed => simp [Mon.step]
          | ready lst =>
            cases lst with
            | none => simp [Mon.step]
            | some x => exact absurd rfl (hnr _ List.mem_cons_self x)
          | event e => simp only [Mon.enabled, beq_iff_eq] at hen; exact absurd hen hp
      · cases hr
  exact H ls hnr {} rfl (by simp) hr

/-- each step appends at most one callback (callbacks never overlap in the model: one goroutine, one select) -/
theorem one_callback_per_step (m : Mon O) (l : MonLabel O) : (m.step l).log.length ≤ m.log.length + 1 := by
  cases l with
  | ready lst => cases lst <;> simp [Mon.step]
  | _ => simp [Mon.step]

end

/-! non-vacuity -/
example : (({} : Mon Nat).run [.ready (some [1, 2]), .event ⟨.create, 3⟩, .event ⟨.delete, 1⟩, .subDone]).isSome = true := by decide

end KC.C16

#print axioms KC.C16.callbacks_shape
#print axioms KC.C16.init_once_first
#print axioms KC.C16.silent_after_done
#print axioms KC.C16.no_callback_if_never_ready
#print axioms KC.C16.one_callback_per_step
