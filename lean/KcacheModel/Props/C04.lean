/-
  C04 — Watch continuity: events keep flowing across reconnects without a relist.
  Property theorems only (model: Ctrl.lean). A change may be lost to a buffer overflow of the watch pipeline
  (label `drop`, ghost `lost`): continuity is stated for the states in which nothing was lost since the last
  list — `overflow_breaks_continuity` shows that the hypothesis is needed, and C03 that the next relist repairs it.
-/
import KcacheModel.Ctrl
import KcacheModel.Proofs.Ctrl
import KcacheModel.Proofs.CtrlWitness
namespace KC.C04
open KC AL

section
variable {K O : Type} [DecidableEq K]
variable (key : O → K) (ver : O → Option Int) (acc : O → Bool)

/-- the pipeline positions are ordered in every reachable state: applied ≤ taken ≤ decoded ≤ |history| -/
theorem positions_ordered {w : CW K O} (h : CReach key ver acc w) : w.a ≤ w.b ∧ w.b ≤ w.c ∧ w.c ≤ w.hist.length :=
  (creach_inv key ver acc h).pipe

/-- **a reconnect resumes after the last event received**: the new session's cursor is the watcher's resume
point `b`; what the ended session had decoded but the watcher had not taken (`hist[b..c)`) is requested again,
so nothing the server reports later — and nothing it reported but that was not yet received — is skipped -/
theorem resume_after_last_received (w : CW K O) :
    (w.step key ver acc .retry).c = w.b ∧ (w.step key ver acc .retry).b = w.b ∧ (w.step key ver acc .retry).a = w.a := by
  simp [CW.step]

/-- … in particular never before what the cache has already applied: a reconnect does not make the server replay
changes the controller has consumed (the lower bound the controller engine checks on every `Watch(rv)` call) -/
theorem resume_not_before_applied {w : CW K O} (h : CReach key ver acc w) :
    w.a ≤ (w.step key ver acc .retry).c ∧ (w.step key ver acc .retry).c ≤ w.c := by
  have hp := (creach_inv key ver acc h).pipe
  simp only [CW.step]
  omega

/-- **events already received are not discarded**: the end of a session (server close, non-object frame,
connect error) leaves the watcher's out channel `hist[a..b)` and the cache untouched -/
theorem received_not_discarded (w : CW K O) :
    (w.step key ver acc .sessEnd).a = w.a ∧ (w.step key ver acc .sessEnd).b = w.b ∧
    (w.step key ver acc .sessEnd).items = w.items ∧ (w.step key ver acc .sessEnd).published = w.published := by
  simp [CW.step]

/-- no watch-side step (decode, take, session end, retry) touches the cache or what was published -/
theorem watch_steps_keep_cache (w : CW K O) (l : CLabel O)
    (hl : l = .decode ∨ l = .take ∨ l = .sessEnd ∨ l = .retry) :
    (w.step key ver acc l).items = w.items ∧ (w.step key ver acc l).published = w.published ∧
    (w.step key ver acc l).stopped = w.stopped := by
  rcases hl with rfl | rfl | rfl | rfl <;> simp [CW.step]

/-- **continuity**: whenever every server change has been applied (a = |history|) — after any number of
disconnects, connect errors, lagging consumers and relists, slow ones included — the cache equals the accepted
server state, key by key. No relist is needed for this. -/
theorem continuity {w : CW K O} (h : CReach key ver acc w) (hr : w.ready = true) (hq : w.a = w.hist.length)
    (hlost : w.lost = []) (k : K) :
    lookup k w.items = view acc (w.state key ver w.hist.length k) := by
  obtain ⟨s, hs, hl, hp⟩ := (creach_inv key ver acc h).cut hr k
  have hstab : w.state key ver w.hist.length k = w.state key ver s k := by
    apply state_stable key ver w k s _ hs (Nat.le_refl _)
    intro i h1 h2 e he hk
    rcases hp i h1 e he hk with h3 | h3
    · omega
    · rw [hlost] at h3; cases h3
  rw [hl, hstab]

/-- the watch alone loses nothing: without an overflow (`drop`) no step puts anything into `lost`, and a list
empties it -/
theorem only_overflow_loses (w : CW K O) (l : CLabel O) (hl : l ≠ .drop) (h : w.lost = []) :
    (w.step key ver acc l).lost = [] := by
  cases l with
  | drop => exact absurd rfl hl
  | apply => simp only [CW.step]; split <;> exact h
  | listApplied j plist => rfl
  | _ => exact h

/-- **progress**: while the controller runs, is ready and something the server reported has not reached the
cache yet, some step of the watch pipeline is enabled — a reconnect if the session is down, else decode, take
or apply. Nothing in the pipeline waits for a relist. -/
theorem watch_progress {w : CW K O} (h : CReach key ver acc w) (hrun : w.running = true) (hr : w.ready = true)
    (hb : w.a < w.hist.length) :
    w.enabled key ver .apply ∨ w.enabled key ver .take ∨ w.enabled key ver .decode ∨ w.enabled key ver .retry := by
  obtain ⟨h1, h2, h3⟩ := (creach_inv key ver acc h).pipe
  by_cases hab : w.a < w.b
  · exact Or.inl ⟨hrun, hab⟩
  · by_cases hbc : w.b < w.c
    · exact Or.inr (Or.inl ⟨hrun, hbc⟩)
    · cases hl : w.live with
      | true => exact Or.inr (Or.inr (Or.inl ⟨hrun, hl, by omega⟩))
      | false => exact Or.inr (Or.inr (Or.inr ⟨hrun, hl, hr⟩))

/-- each of those steps brings the pipeline strictly closer to "everything applied" -/
def lag (w : CW K O) : Nat :=
  (w.hist.length - w.a) + (w.hist.length - w.b) + (if w.live then w.hist.length - w.c else (w.hist.length - w.b) + 1)

theorem pipeline_step_decreases_lag {w : CW K O} (h : CReach key ver acc w) (l : CLabel O)
    (hl : l = .apply ∨ l = .take ∨ l = .decode ∨ l = .retry) (hen : w.enabled key ver l) :
    lag (w.step key ver acc l) < lag w := by
  obtain ⟨h1, h2, h3⟩ := (creach_inv key ver acc h).pipe
  rcases hl with rfl | rfl | rfl | rfl
  · obtain ⟨_, hab⟩ := hen
    have hlt : w.a < w.hist.length := by omega
    have he : w.hist[w.a]? = some w.hist[w.a] := List.getElem?_eq_getElem hlt
    cases hlv : w.live <;> simp only [CW.step, he, lag, hlv] <;> simp <;> omega
  · obtain ⟨_, hbc⟩ := hen
    cases hlv : w.live <;> simp only [CW.step, lag, hlv] <;> simp <;> omega
  · obtain ⟨_, hlive, hc⟩ := hen
    simp only [CW.step, lag, hlive]; simp; omega
  · obtain ⟨_, hlive, _⟩ := hen
    simp only [CW.step, lag, hlive]; simp

end
/-! ### the hypothesis "nothing lost" is needed: an overflow is not repaired by the watch (run: Proofs/CtrlCtrlWitness.lean) -/

/-- **an overflowed change is never recovered by the watch**: a reachable state in which the pipeline is
drained (a = |history|) and the cache still holds the version before the lost change. (C03: the next relist
repairs it.) -/
theorem overflow_breaks_continuity :
    ∃ w : CW Nat (Nat × Int), CReach CtrlWitness.kk CtrlWitness.vv CtrlWitness.aa w ∧ w.ready = true ∧ w.a = w.hist.length ∧
      w.lost ≠ [] ∧
      lookup 1 w.items ≠ view CtrlWitness.aa (w.state CtrlWitness.kk CtrlWitness.vv w.hist.length 1) := by
  refine ⟨CtrlWitness.w6, CtrlWitness.w6_reach, rfl, rfl, by decide, ?_⟩
  obtain ⟨_, _, _, h1, h2⟩ := CtrlWitness.w6_facts
  rw [h1, h2]
  decide

/-- … and the next relist repairs it (C03) -/
example : (CtrlWitness.w6.step CtrlWitness.kk CtrlWitness.vv CtrlWitness.aa (.listApplied 2 [(1, 2)])).lost = [] ∧
    lookup 1 (CtrlWitness.w6.step CtrlWitness.kk CtrlWitness.vv CtrlWitness.aa (.listApplied 2 [(1, 2)])).items
      = some ⟨2, (1, 2)⟩ := by decide

end KC.C04

#print axioms KC.C04.positions_ordered
#print axioms KC.C04.resume_after_last_received
#print axioms KC.C04.received_not_discarded
#print axioms KC.C04.watch_steps_keep_cache
#print axioms KC.C04.continuity
#print axioms KC.C04.only_overflow_loses
#print axioms KC.C04.overflow_breaks_continuity
#print axioms KC.C04.watch_progress
#print axioms KC.C04.pipeline_step_decreases_lag
#print axioms KC.C04.resume_not_before_applied
