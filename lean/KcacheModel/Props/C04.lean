/-
  C04 — Watch continuity: events keep flowing across reconnects without a relist.
  Property theorems only (model: Ctrl.lean). No buffer overflow (the positions model assumes every decoded
  event reaches the watcher and every taken event reaches the controller: C10's isolation of overflows).
-/
import KcacheModel.Ctrl
import KcacheModel.Proofs.Ctrl
namespace KC.C04
open KC AL

section
variable {K O : Type} [DecidableEq K]
variable (key : O → K) (ver : O → Option Int) (acc : O → Bool)

/-- the pipeline positions are ordered in every reachable state: applied ≤ taken ≤ decoded ≤ |history| -/
theorem positions_ordered {w : CW K O} (h : CReach key ver acc w) : w.a ≤ w.b ∧ w.b ≤ w.c ∧ w.c ≤ w.hist.length :=
  (creach_inv key ver acc h).pipe

/-- **a reconnect resumes after the last event received**: the new session's cursor is the watcher's resume
point `b`; what the ended session had decoded but the watcher had not taken (`hist[b..c)`) is requested again,
so nothing the server reports later — and nothing it reported but that was not yet received — is skipped -/
theorem resume_after_last_received (w : CW K O) :
    (w.step key ver acc .retry).c = w.b ∧ (w.step key ver acc .retry).b = w.b ∧ (w.step key ver acc .retry).a = w.a := by
  simp [CW.step]

/-- **events already received are not discarded**: the end of a session (server close, non-object frame,
connect error) leaves the watcher's out channel `hist[a..b)` and the cache untouched -/
theorem received_not_discarded (w : CW K O) :
    (w.step key ver acc .sessEnd).a = w.a ∧ (w.step key ver acc .sessEnd).b = w.b ∧
    (w.step key ver acc .sessEnd).items = w.items ∧ (w.step key ver acc .sessEnd).published = w.published := by
  simp [CW.step]

/-- no watch-side step (decode, take, session end, retry) touches the cache or what was published -/
theorem watch_steps_keep_cache (w : CW K O) (l : CLabel O)
    (hl : l = .decode ∨ l = .take ∨ l = .sessEnd ∨ l = .retry) :
    (w.step key ver acc l).items = w.items ∧ (w.step key ver acc l).published = w.published ∧
    (w.step key ver acc l).stopped = w.stopped := by
  rcases hl with rfl | rfl | rfl | rfl <;> simp [CW.step]

/-- **continuity**: whenever every server change has been applied (a = |history|) — after any number of
disconnects, connect errors, lagging consumers and relists, slow ones included — the cache equals the accepted
server state, key by key. No relist is needed for this. -/
theorem continuity {w : CW K O} (h : CReach key ver acc w) (hr : w.ready = true) (hq : w.a = w.hist.length) (k : K) :
    lookup k w.items = view acc (w.state key ver w.hist.length k) := by
  obtain ⟨s, hs, hl, hp⟩ := (creach_inv key ver acc h).cut hr k
  have hstab : w.state key ver w.hist.length k = w.state key ver s k := by
    apply state_stable key ver w k s _ hs (Nat.le_refl _)
    intro i h1 h2 e he hk
    have := hp i h1 e he hk
    omega
  rw [hl, hstab]

/-- **progress**: while the controller runs, is ready and something the server reported has not reached the
cache yet, some step of the watch pipeline is enabled — a reconnect if the session is down, else decode, take
or apply. Nothing in the pipeline waits for a relist. -/
theorem watch_progress {w : CW K O} (h : CReach key ver acc w) (hrun : w.running = true) (hr : w.ready = true)
    (hb : w.a < w.hist.length) :
    w.enabled key ver .apply ∨ w.enabled key ver .take ∨ w.enabled key ver .decode ∨ w.enabled key ver .retry := by
  obtain ⟨h1, h2, h3⟩ := (creach_inv key ver acc h).pipe
  by_cases hab : w.a < w.b
  · exact Or.inl ⟨hrun, hab⟩
  · by_cases hbc : w.b < w.c
    · exact Or.inr (Or.inl ⟨hrun, hbc⟩)
    · cases hl : w.live with
      | true => exact Or.inr (Or.inr (Or.inl ⟨hrun, hl, by omega⟩))
      | false => exact Or.inr (Or.inr (Or.inr ⟨hrun, hl, hr⟩))

/-- each of those steps brings the pipeline strictly closer to "everything applied" -/
def lag (w : CW K O) : Nat :=
  (w.hist.length - w.a) + (w.hist.length - w.b) + (if w.live then w.hist.length - w.c else (w.hist.length - w.b) + 1)

theorem pipeline_step_decreases_lag {w : CW K O} (h : CReach key ver acc w) (l : CLabel O)
    (hl : l = .apply ∨ l = .take ∨ l = .decode ∨ l = .retry) (hen : w.enabled key ver l) :
    lag (w.step key ver acc l) < lag w := by
  obtain ⟨h1, h2, h3⟩ := (creach_inv key ver acc h).pipe
  rcases hl with rfl | rfl | rfl | rfl
  · obtain ⟨_, hab⟩ := hen
    have hlt : w.a < w.hist.length := by omega
    have he : w.hist[w.a]? = some w.hist[w.a] := List.getElem?_eq_getElem hlt
    cases hlv : w.live <;> simp only [CW.step, he, lag, hlv] <;> simp <;> omega
  · obtain ⟨_, hbc⟩ := hen
    cases hlv : w.live <;> simp only [CW.step, lag, hlv] <;> simp <;> omega
  · obtain ⟨_, hlive, hc⟩ := hen
    simp only [CW.step, lag, hlive]; simp; omega
  · obtain ⟨_, hlive, _⟩ := hen
    simp only [CW.step, lag, hlive]; simp

end
end KC.C04

#print axioms KC.C04.positions_ordered
#print axioms KC.C04.resume_after_last_received
#print axioms KC.C04.received_not_discarded
#print axioms KC.C04.watch_steps_keep_cache
#print axioms KC.C04.continuity
#print axioms KC.C04.watch_progress
#print axioms KC.C04.pipeline_step_decreases_lag
