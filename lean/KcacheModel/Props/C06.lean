/-
  C06 — A filtered subscription or clone is exactly its filter applied to its parent.
  Property theorems only (model: FSub.lean, FSubWorld.lean; lemmas: Proofs/FSub.lean).
  "For every interleaving of parent events, relists and Refilter calls" = for every `Reach`able world:
  the label sequence is chosen by the scheduler/environment; a relist of the parent is just more parent events.
-/
import KcacheModel.FSubWorld
import KcacheModel.Proofs.FSub
namespace KC.C06
open KC AL

section
variable {K O F : Type} [DecidableEq K]
variable (key : O → K) (ver : O → Option Int) (accF : F → O → Bool) (feq : F → F → Bool) (cap : Nat)
-- soundness of filter equality (C17, `equals_sound`) is what the proofs need of `feq`
variable (hfeq : ∀ f g, feq f g = true → ∀ o, accF f o = accF g o)
include hfeq

/-- **the per-key cut invariant**: in every reachable ready state, for every key the child holds the
filtered parent content at some index `s` of the parent's event log, and every parent event on that key from
`s` on has not been consumed yet. No assumption on versions across incarnations of a key. -/
theorem fsub_cut_invariant {w : World K O F} (h : Reach key ver accF feq cap w) (hr : w.fs.ready = true) :
    CutInv key ver accF w :=
  (reach_inv key ver accF feq cap hfeq h).cut hr

/-- **convergence**: once the in-flight events have drained, the cache of the filtered subscription is
exactly the set of objects of the parent's cache that the most recently set filter accepts, at the parent's
versions — for every interleaving of parent events and Refilter calls (immediate and deferred). -/
theorem fsub_converges {w : World K O F} (h : Reach key ver accF feq cap w) (hr : w.fs.ready = true)
    (hq : w.consumed = w.plog.length) (k : K) :
    lookup k w.fs.items = view (accF w.fs.lastF) (w.pnow key ver k) := by
  have hi := reach_inv key ver accF feq cap hfeq h
  obtain ⟨s, hs, hl, hp⟩ := hi.cut hr k
  have hstab : w.pcontent key ver w.plog.length k = w.pcontent key ver s k := by
    apply pcontent_stable key ver w k s _ hs (Nat.le_refl _)
    intro i h1 h2 e he hk
    have := hp i h1 e he hk
    omega
  rw [hl, ← hstab, view_congr hi.last]
  rfl

/-- the filter the subscription remembers is the one its cache applies, and both accept exactly what the
most recently requested filter accepts -/
theorem filter_remembered {w : World K O F} (h : Reach key ver accF feq cap w) :
    w.fs.filter = w.fs.cfilter ∧ ∀ o, accF w.fs.cfilter o = accF w.fs.lastF o :=
  ⟨(reach_inv key ver accF feq cap hfeq h).filt, (reach_inv key ver accF feq cap hfeq h).last⟩

/-- every cached object of the child satisfies the current filter, in every reachable state -/
theorem fsub_all_accepted {w : World K O F} (h : Reach key ver accF feq cap w) (hr : w.fs.ready = true)
    (k : K) (e : Entry O) (he : lookup k w.fs.items = some e) : accF w.fs.cfilter e.obj = true := by
  obtain ⟨s, _, hl, _⟩ := (reach_inv key ver accF feq cap hfeq h).cut hr k
  rw [he] at hl
  exact (view_some_eq hl.symm).2

omit hfeq in
/-- its own event stream is a well-formed delta of its own cache: what a step hands to its subscribers
replays from its cache before the step to its cache after it (so anything below converges as well) -/
theorem fsub_events_delta {w : World K O F} (h : Reach key ver accF feq cap w) (l : FLabel O F) :
    replay key ver (FSub.emitted key ver accF feq w.fs l) (abs w.fs.items)
      = some (abs (FSub.step key ver accF feq cap w.fs l).items) ∨
    FSub.emitted key ver accF feq w.fs l = [] := by
  have hwf := reach_wf key ver accF feq cap h
  cases l with
  | stop => right; rfl
  | parentReady _ => right; rfl
  | parentEvent t o =>
    by_cases hr : w.fs.ready = true
    · left
      simp only [FSub.emitted, FSub.step, hr, ↓reduceIte, Bool.not_true, Bool.false_eq_true]
      exact doUpdate_replay key ver _ _ t o
    · right; simp [FSub.emitted, hr]
  | refilter f plist =>
    by_cases hc : (w.fs.pseen && !feq w.fs.filter f && w.fs.ready) = true
    · left
      simp only [Bool.and_eq_true, Bool.not_eq_true'] at hc
      obtain ⟨⟨hps, hnew⟩, hr⟩ := hc
      simp only [FSub.emitted, FSub.step, hps, hnew, hr, Bool.not_false, Bool.and_self, ↓reduceIte, Bool.not_true,
        Bool.false_and, Bool.and_false, Bool.false_eq_true, Bool.and_true]
      exact doSync_replay key ver _ _ plist hwf
    · right; simp only [FSub.emitted]; simp [hc]

end

/-- **filters nested through clones compose as conjunction** (any depth): filtering by `f₁`, then `f₂`, …
is filtering by their conjunction; together with `fsub_converges` at every level this gives the content of a
nested clone at quiescence -/
theorem nested_conjunction {O : Type} (fs : List (O → Bool)) (x : Option (Entry O)) :
    fs.foldl (fun y acc => view acc y) x = view (fun o => fs.all (fun f => f o)) x := by
  induction fs generalizing x with
  | nil => cases x <;> simp [view]
  | cons f fs ih =>
    simp only [List.foldl_cons, ih, List.all_cons]
    cases x with
    | none => simp [view]
    | some e =>
      by_cases hf : f e.obj = true
      · simp [view, hf]
      · simp [view, hf]

/-! non-vacuity: a concrete reachable world (integers as keys/objects, version = value, filter "even")
in which the child is ready, everything is consumed, and it holds exactly the accepted parent content -/
section
def exW0 : World Nat (Nat × Int) Bool := ⟨fun _ => none, [], 0, FSub.init false true⟩
def exKey (o : Nat × Int) : Nat := o.1
def exVer (o : Nat × Int) : Option Int := some o.2
def exAcc (f : Bool) (o : Nat × Int) : Bool := f && o.2 % 2 == 0
def exFeq (a b : Bool) : Bool := a == b
example : (exW0.step exKey exVer exAcc exFeq 100 (.parentReady [])).fs.ready = true := by decide
end

end KC.C06

#print axioms KC.C06.fsub_cut_invariant
#print axioms KC.C06.fsub_converges
#print axioms KC.C06.filter_remembered
#print axioms KC.C06.fsub_all_accepted
#print axioms KC.C06.fsub_events_delta
#print axioms KC.C06.nested_conjunction
