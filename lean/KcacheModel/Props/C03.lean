/-
  C03 — The controller converges to the API server at every relist, whatever went wrong.
  Property theorems only (model: Ctrl.lean; lemmas: Proofs/Ctrl.lean).
  All server histories, all fault sequences, all interleavings of list completion with in-flight watch
  events = all `CReach`able states (the scheduler/environment picks the labels; a list result may reflect
  ANY earlier point of the history — slow lists — and the watch may end, reconnect, lag, never deliver, or LOSE
  changes to a buffer overflow: label `drop`).
-/
import KcacheModel.Ctrl
import KcacheModel.Proofs.Ctrl
import KcacheModel.Proofs.CtrlWitness
namespace KC.C03
open KC AL

section
variable {K O : Type} [DecidableEq K]
variable (key : O → K) (ver : O → Option Int) (acc : O → Bool)

/-- the per-key cut invariant of the controller cache, in every reachable ready state -/
theorem ctrl_cut_invariant {w : CW K O} (h : CReach key ver acc w) (hr : w.ready = true) (k : K) :
    ∃ s, CCut key ver acc w k s :=
  (creach_inv key ver acc h).cut hr k

/-- **each completed list is applied exactly**: per key, the cache afterwards holds the newest of (cached,
listed) if the filter accepts it — never regressing to an older version — and keys that are not listed are gone -/
theorem list_applied_exact (w : CW K O) (j : Nat) (plist : List O) (hen : w.enabled key ver (.listApplied j plist)) (k : K) :
    lookup k (w.step key ver acc (.listApplied j plist)).items = csync acc (lookup k w.items) (w.state key ver j k) :=
  list_key key ver acc w j plist hen.2.2 k

/-- … and the batch published for it replays from the old content to the new one (only after the first
list: the first list's content is not published, Ready() is closed instead) -/
theorem list_events_delta {w : CW K O} (h : CReach key ver acc w) (j : Nat) (plist : List O) :
    replay key ver (doSync key ver acc w.items plist).2 (abs w.items) = some (abs (doSync key ver acc w.items plist).1) ∧
    (w.ready = false → (w.step key ver acc (.listApplied j plist)).published = w.published) := by
  refine ⟨doSync_replay key ver acc w.items plist (cwf h), fun hr => by simp [CW.step, hr]⟩
where
  cwf {w : CW K O} (h : CReach key ver acc w) : WF key w.items := by
    induction h with
    | init => exact WF_nil key
    | step w l _ _ ih =>
      cases l with
      | apply =>
        simp only [CW.step]
        cases w.hist[w.a]? with
        | none => exact ih
        | some e => exact doUpdate_WF key ver acc _ _ _ ih
      | listApplied j plist => exact doSync_WF key ver acc _ _ ih
      | _ => exact ih

/-- **convergence after one relist, even if the watch never delivers anything**: a list result that reflects
the server's current state leaves the cache equal to the accepted server state, key by key — from ANY
reachable state (stale, partially updated by a lagging or broken watch, ahead of an earlier slow list …) -/
theorem converges_after_one_relist {w : CW K O} (h : CReach key ver acc w) (plist : List O)
    (hen : w.enabled key ver (.listApplied w.hist.length plist)) (k : K) :
    lookup k (w.step key ver acc (.listApplied w.hist.length plist)).items
      = view acc (w.state key ver w.hist.length k) := by
  have hi := creach_inv key ver acc h
  rw [list_applied_exact key ver acc w _ plist hen k]
  by_cases hr : w.ready = true
  · obtain ⟨s, hs, hl, _⟩ := hi.cut hr k
    cases hP : w.state key ver w.hist.length k with
    | none => simp [csync, view]
    | some sn =>
      cases hc : lookup k w.items with
      | none => simp [csync]
      | some c =>
        by_cases hv : c.ver < sn.ver
        · simp [csync, hv]
        · rw [hc] at hl
          obtain ⟨hps, hacc⟩ := view_some_eq hl.symm
          rcases Nat.lt_or_ge s w.hist.length with hlt | hge
          · have heq := kept_is_snapshot key ver acc w hi k s _ hs (Nat.le_refl _) c sn hps hP hv hlt
            rw [hP, hps] at heq
            cases heq
            simp [csync, view, hacc]
          · have : s = w.hist.length := by omega
            subst this
            rw [hP] at hps; cases hps
            simp [csync, view, hacc]
  · have hr' : w.ready = false := by simpa using hr
    rw [(hi.notready hr').1]
    cases w.state key ver w.hist.length k <;> simp [csync, view]

/-- lost events are part of "whatever went wrong": a change that overflowed a buffer leaves the cache and the
published stream untouched (it is simply never seen), and `converges_after_one_relist` above holds in every
state reachable with any number of such losses -/
theorem lost_event_is_invisible (w : CW K O) :
    (w.step key ver acc .drop).items = w.items ∧ (w.step key ver acc .drop).published = w.published ∧
    (w.step key ver acc .drop).ready = w.ready := by
  simp [CW.step]

/-- every cached object occurred in the server's history (at the cached version) and is accepted -/
theorem cache_sound {w : CW K O} (h : CReach key ver acc w) (hr : w.ready = true) (k : K) (e : Entry O)
    (he : lookup k w.items = some e) : (∃ s, s ≤ w.hist.length ∧ w.state key ver s k = some e) ∧ acc e.obj = true := by
  obtain ⟨s, hs, hl, _⟩ := (creach_inv key ver acc h).cut hr k
  rw [he] at hl
  obtain ⟨h1, h2⟩ := view_some_eq hl.symm
  exact ⟨⟨s, hs, h1⟩, h2⟩

/-- the controller can accept a list result in every running state, whatever the watch is doing -/
theorem list_always_accepted (w : CW K O) (hrun : w.running = true) (j : Nat) (hj : j ≤ w.hist.length) (plist : List O)
    (hs : Snapshot key ver plist (w.state key ver j)) : w.enabled key ver (.listApplied j plist) :=
  ⟨hrun, hj, hs⟩

end
/-! non-vacuity of `converges_after_one_relist`: the run of Proofs/CtrlWitness.lean is reachable and ready, its
cache is stale (the update was lost to an overflow), a list of the current state is enabled there — and the
cache afterwards holds the server's object -/
example : CReach CtrlWitness.kk CtrlWitness.vv CtrlWitness.aa CtrlWitness.w6 ∧
    CtrlWitness.w6.enabled CtrlWitness.kk CtrlWitness.vv (.listApplied CtrlWitness.w6.hist.length [(1, 2)]) ∧
    lookup 1 CtrlWitness.w6.items = some ⟨1, (1, 1)⟩ ∧
    lookup 1 (CtrlWitness.w6.step CtrlWitness.kk CtrlWitness.vv CtrlWitness.aa
      (.listApplied CtrlWitness.w6.hist.length [(1, 2)])).items = some ⟨2, (1, 2)⟩ :=
  ⟨CtrlWitness.w6_reach, ⟨rfl, by decide, CtrlWitness.snap2⟩, by decide, by decide⟩

end KC.C03

#print axioms KC.C03.ctrl_cut_invariant
#print axioms KC.C03.list_applied_exact
#print axioms KC.C03.list_events_delta
#print axioms KC.C03.converges_after_one_relist
#print axioms KC.C03.cache_sound
#print axioms KC.C03.lost_event_is_invisible
#print axioms KC.C03.list_always_accepted
