/-
  C01 — Cache content is exactly the accepted, newest-version view of its inputs.
  Property theorems only (model: KcacheModel/Cache.lean; lemmas: Proofs/Cache.lean).
-/
import KcacheModel.Cache
import KcacheModel.Proofs.Cache
namespace KC.C01
open KC AL

section
variable {K O : Type} [DecidableEq K]
variable (key : O → K) (ver : O → Option Int) (acc : O → Bool)

/-- a create/update event is a version-aware upsert: it replaces only an older (or absent) entry,
and a newer version the filter rejects removes the object -/
theorem update_refines_upsert (m : Items K O) (t : EvT) (o : O) (v : Int) (ht : t ≠ .delete)
    (hv : ver o = some v) : abs (doUpdate key ver acc m t o).1 = specUpsert key acc (abs m) v o := by
  unfold doUpdate specUpsert
  simp only [hv]
  have habs : abs m (key o) = lookup (key o) m := rfl
  cases t with
  | delete => exact absurd rfl ht
  | create | update =>
    simp only [habs]
    cases hc : lookup (key o) m with
    | none => by_cases ha : acc o = true <;> simp [ha, abs_insert]
    | some cur =>
      by_cases hlt : cur.ver < v
      · by_cases ha : acc o = true <;> simp [hlt, ha, abs_insert, abs_erase]
      · simp [hlt]

/-- a delete event removes the key (the unspecified stale-delete case included) -/
theorem update_refines_delete (m : Items K O) (o : O) (v : Int) (hv : ver o = some v) :
    specDeleteOk key (abs m) (abs (doUpdate key ver acc m .delete o).1) v o := by
  left
  unfold doUpdate
  simp only [hv]
  cases hc : lookup (key o) m with
  | some cur => simp [abs_erase]
  | none =>
    funext k
    simp only [abs, AMap.set]
    split
    · rename_i h; subst h; exact hc
    · rfl

/-- an event whose resource version is not a number changes nothing and emits nothing -/
theorem update_malformed_ignored (m : Items K O) (t : EvT) (o : O) (hv : ver o = none) :
    doUpdate key ver acc m t o = (m, []) := by
  unfold doUpdate; simp [hv]

/-- **sync refines the reference semantics**: for every filter, cache content and list in which no
key is listed twice (by entries with a numeric version), the content after the sync is exactly:
not listed → absent; listed → newest of (cached, listed), present iff the filter accepts it. -/
theorem sync_refines (m : Items K O) (l : List O)
    (hnd : ∀ k, (listedAll key ver k l).length ≤ 1) :
    abs (doSync key ver acc m l).1 = specSync key ver acc (abs m) l := by
  funext k
  exact sync_refines_key key ver acc m l k (hnd k)

/-- refilter = the same reconciliation under the new filter -/
theorem refilter_refines (acc' : O → Bool) (m : Items K O) (l : List O)
    (hnd : ∀ k, (listedAll key ver k l).length ≤ 1) :
    abs (doSync key ver acc' m l).1 = specSync key ver acc' (abs m) l :=
  sync_refines key ver acc' m l hnd

/-- an empty (or all-malformed) list empties the cache -/
theorem sync_nil (m : Items K O) : abs (doSync key ver acc m []).1 = fun _ => none := by
  rw [sync_refines key ver acc m [] (by simp [listedAll])]
  funext k; simp [specSync, listedAll, specKey]

/-- every cached object satisfies the filter, after any update … -/
def AllAcc (m : Items K O) : Prop := ∀ k e, lookup k m = some e → acc e.obj = true

theorem update_all_accepted (m : Items K O) (t : EvT) (o : O) (h : AllAcc acc m) :
    AllAcc acc (doUpdate key ver acc m t o).1 := by
  unfold doUpdate
  cases hv : ver o with
  | none => simpa using h
  | some v =>
    simp only
    cases t with
    | delete =>
      cases hc : lookup (key o) m with
      | none => simpa using h
      | some cur =>
        intro k e he
        simp only [lookup_erase] at he
        split at he
        · cases he
        · exact h k e he
    | create | update =>
      cases hc : lookup (key o) m with
      | none =>
        by_cases ha : acc o = true
        · simp only [ha, ↓reduceIte]
          intro k e he
          rw [lookup_insert] at he
          split at he
          · cases he; exact ha
          · exact h k e he
        · simpa [ha] using h
      | some cur =>
        by_cases hlt : cur.ver < v
        · by_cases ha : acc o = true
          · simp only [hlt, ↓reduceIte, ha]
            intro k e he
            rw [lookup_insert] at he
            split at he
            · cases he; exact ha
            · exact h k e he
          · simp only [hlt, ↓reduceIte, ha, Bool.false_eq_true]
            intro k e he
            simp only [lookup_erase] at he
            split at he
            · cases he
            · exact h k e he
        · simpa [hlt] using h

/-- … and after any sync or refilter, whatever was cached before and whatever the list holds
(duplicates and malformed entries included): no hypothesis on the previous content -/
theorem sync_all_accepted (m : Items K O) (l : List O) : AllAcc acc (doSync key ver acc m l).1 := by
  intro k e he
  unfold doSync at he
  simp only [lookup_keep] at he
  split at he
  · rename_i hk
    exact fold_SetAcc key ver acc l ⟨m, [], []⟩ (by intro k hk; simp at hk) k hk e he
  · cases he

/-- a version that is not newer than the cached one never replaces it: across one update … -/
theorem update_never_regresses (m : Items K O) (t : EvT) (o : O) (k : K) (e e' : Entry O)
    (h : lookup k m = some e) (h' : lookup k (doUpdate key ver acc m t o).1 = some e') :
    e.ver ≤ e'.ver ∧ (e.ver = e'.ver → e' = e) := by
  unfold doUpdate at h'
  cases hv : ver o with
  | none => simp only [hv] at h'; rw [h] at h'; cases h'; exact ⟨Int.le_refl _, fun _ => rfl⟩
  | some v =>
    simp only [hv] at h'
    by_cases hk : key o = k
    · subst hk
      rw [h] at h'
      cases t with
      | delete => simp at h'
      | create | update =>
        simp only at h'
        by_cases hlt : e.ver < v
        · by_cases ha : acc o = true
          · simp only [hlt, ↓reduceIte, ha, lookup_insert_self, Option.some.injEq] at h'
            subst h'; simp; omega
          · simp [hlt, ha] at h'
        · simp only [hlt, ↓reduceIte] at h'; rw [h] at h'; cases h'; exact ⟨Int.le_refl _, fun _ => rfl⟩
    · have : lookup k (doUpdate key ver acc m t o).1 = lookup k m := by
        unfold doUpdate; simp only [hv]
        cases t <;> (cases lookup (key o) m <;> simp only [] <;> repeat' split) <;> simp [hk]
      unfold doUpdate at this; simp only [hv] at this
      rw [this, h] at h'; cases h'; exact ⟨Int.le_refl _, fun _ => rfl⟩

/-- … and across one sync or refilter (any list, duplicates included) -/
theorem sync_never_regresses (m : Items K O) (l : List O) (k : K) (e e' : Entry O)
    (h : lookup k m = some e) (h' : lookup k (doSync key ver acc m l).1 = some e') :
    e.ver ≤ e'.ver ∧ (e.ver = e'.ver → e' = e) := by
  unfold doSync at h'
  simp only [lookup_keep] at h'
  split at h'
  · obtain ⟨e'', he'', hle, heq⟩ := fold_Grows key ver acc l ⟨m, [], []⟩ k e h
    unfold syncFold at h'
    rw [he''] at h'; cases h'
    exact ⟨hle, heq⟩
  · cases h'

end

/-! ### the property over whole histories -/

section
variable {K O F : Type} [DecidableEq K]
variable (key : O → K) (ver : O → Option Int) (accF : F → O → Bool)

/-- the reference semantics of one operation (a relation: the stale delete is unspecified) -/
def SpecStep (a : AMap K O) (f : F) : CacheOp O F → AMap K O → F → Prop
  | .sync l, a', f' => f' = f ∧ a' = specSync key ver (accF f) a l
  | .refilter l g, a', f' => f' = g ∧ a' = specSync key ver (accF g) a l
  | .update t o, a', f' => f' = f ∧
      match ver o with
      | none => a' = a
      | some v => if t = .delete then specDeleteOk key a a' v o else a' = specUpsert key (accF f) a v o

def SpecRun : AMap K O → F → List (CacheOp O F) → AMap K O → F → Prop
  | a, f, [], a', f' => a' = a ∧ f' = f
  | a, f, op :: ops, a', f' => ∃ a1 f1, SpecStep key ver accF a f op a1 f1 ∧ SpecRun a1 f1 ops a' f'

/-- no sync/refilter list of the history lists a key twice -/
def NoDupLists : List (CacheOp O F) → Prop
  | [] => True
  | .sync l :: ops => (∀ k, (listedAll key ver k l).length ≤ 1) ∧ NoDupLists ops
  | .refilter l _ :: ops => (∀ k, (listedAll key ver k l).length ≤ 1) ∧ NoDupLists ops
  | .update _ _ :: ops => NoDupLists ops

theorem step_refines (s : CacheSt K O F) (op : CacheOp O F) (hnd : NoDupLists key ver [op]) :
    SpecStep key ver accF (abs s.items) s.filter op
      (abs (cacheStep key ver accF s op).1.items) (cacheStep key ver accF s op).1.filter := by
  cases op with
  | sync l => exact ⟨rfl, C01.sync_refines key ver _ s.items l hnd.1⟩
  | refilter l g => exact ⟨rfl, C01.sync_refines key ver _ s.items l hnd.1⟩
  | update t o =>
    refine ⟨rfl, ?_⟩
    cases hv : ver o with
    | none => simp only [cacheStep]; rw [C01.update_malformed_ignored key ver _ s.items t o hv]
    | some v =>
      simp only [cacheStep]
      by_cases ht : t = .delete
      · subst ht; simp only [↓reduceIte]; exact C01.update_refines_delete key ver _ s.items o v hv
      · simp only [ht, ↓reduceIte]; exact C01.update_refines_upsert key ver _ s.items t o v ht hv

/-- **C01, whole histories**: for every initial filter and content and every finite sequence of
sync / update / refilter operations with arbitrary arguments (lists without a doubly-listed key),
what the cache holds is what the reference semantics prescribes. -/
theorem run_refines (s : CacheSt K O F) (ops : List (CacheOp O F)) (hnd : NoDupLists key ver ops) :
    SpecRun key ver accF (abs s.items) s.filter ops
      (abs (cacheRun key ver accF s ops).items) (cacheRun key ver accF s ops).filter := by
  induction ops generalizing s with
  | nil => exact ⟨rfl, rfl⟩
  | cons op ops ih =>
    have h1 : NoDupLists key ver [op] := by
      cases op <;> simp_all [NoDupLists]
    have h2 : NoDupLists key ver ops := by
      cases op <;> simp_all [NoDupLists]
    refine ⟨_, _, step_refines key ver accF s op h1, ?_⟩
    simpa [cacheRun] using ih (cacheStep key ver accF s op).1 h2

/-- every cached object satisfies the *current* filter in every state reachable from an empty
cache by any history whatsoever (duplicates, malformed entries, any filters) -/
theorem all_accepted (f0 : F) (ops : List (CacheOp O F)) :
    let s := cacheRun key ver accF ⟨[], f0⟩ ops
    AllAcc (accF s.filter) s.items := by
  suffices H : ∀ (s : CacheSt K O F), AllAcc (accF s.filter) s.items →
      AllAcc (accF (cacheRun key ver accF s ops).filter) (cacheRun key ver accF s ops).items from
    H ⟨[], f0⟩ (by intro k e he; simp at he)
  induction ops with
  | nil => intro s h; exact h
  | cons op ops ih =>
    intro s h
    simp only [cacheRun, List.foldl_cons]
    apply ih
    cases op with
    | sync l => exact sync_all_accepted key ver _ s.items l
    | refilter l g => exact sync_all_accepted key ver _ s.items l
    | update t o => exact update_all_accepted key ver _ s.items t o h

end

/-! ### the literal statement with duplicate keys fails on the code as it is (known finding D2) -/

/-- full-strength `sync_refines` (no hypothesis on the list), instantiated at a small concrete type:
objects are (key, version, accepted-by-the-filter) -/
def sync_refines_full : Prop :=
  ∀ (m : Items String (String × Int × Bool)) (l : List (String × Int × Bool)),
    abs (doSync (·.1) (fun o => some o.2.1) (·.2.2) m l).1
      = specSync (·.1) (fun o => some o.2.1) (·.2.2) (abs m) l

/-- `[k@1 accepted, k@2 rejected]` into an empty cache leaves `k@1` cached although a newer version
of `k` was listed (and rejected): the literal reading of C01 fails for lists that list a key twice. -/
theorem sync_refines_full_false : ¬ sync_refines_full := by
  intro h
  have := congrFun (h [] [("k", 1, true), ("k", 2, false)]) "k"
  revert this
  decide

/-! non-vacuity of `sync_refines`' hypothesis and a concrete instance -/
example : ∀ k, (listedAll (O := String × Int × Bool) (·.1) (fun o => some o.2.1) k
    [("a", 1, true), ("b", 2, false)]).length ≤ 1 := by
  intro k
  by_cases h1 : "a" = k
  · subst h1; simp [listedAll]
  · by_cases h2 : "b" = k <;> simp [listedAll, h1, h2]

end KC.C01

#print axioms KC.C01.update_refines_upsert
#print axioms KC.C01.update_refines_delete
#print axioms KC.C01.update_malformed_ignored
#print axioms KC.C01.sync_refines
#print axioms KC.C01.refilter_refines
#print axioms KC.C01.sync_nil
#print axioms KC.C01.update_all_accepted
#print axioms KC.C01.sync_all_accepted
#print axioms KC.C01.update_never_regresses
#print axioms KC.C01.sync_never_regresses
#print axioms KC.C01.run_refines
#print axioms KC.C01.all_accepted
#print axioms KC.C01.sync_refines_full_false
