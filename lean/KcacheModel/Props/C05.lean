/-
  C05 — Every subscriber sees the published event sequence: in order, exactly once.
  Property theorems only (model: Pipe.lean; lemmas: Proofs/Pipe.lean, Proofs/Cache.lean).
  "All interleavings" = all label lists accepted by `Pipe.run` (the scheduler picks which publisher
  forwards, which consumer reads, when a subscription / clone is attached, at any depth).
-/
import KcacheModel.Pipe
import KcacheModel.Proofs.Pipe
import KcacheModel.Sys
import KcacheModel.Proofs.Cache
import KcacheModel.Ctrl
import KcacheModel.Proofs.Ctrl
import KcacheModel.Proofs.CtrlWitness
namespace KC.C05
open KC

section
variable {α : Type}

/-- **per stage, exact**: as long as a node's own buffer never overflowed, what it has taken plus what is
still waiting in its buffer is exactly what its parent has forwarded since the node was attached -/
theorem stage_exact (cap : Nat) (ls : List (PLabel α)) (s : Pipe α) (h : (Pipe.init cap).run ls = some s)
    (c : Nat) (h1 : 0 < c) (h2 : c < s.len) (hd : (s.node c).dropped = false) :
    (s.node c).out ++ (s.node c).q = ((s.node (s.node c).parent).out).drop (s.node c).attachedAt :=
  (pinv_run _ ls s (pinv_init cap) h).exact c h1 h2 hd

/-- **end to end, exact** (any tree, any depth, any interleaving): if no buffer on the path overflowed,
everything that has reached a node is one contiguous segment of the published sequence — no duplicate,
no omission, no reordering -/
theorem tree_exact (cap : Nat) (ls : List (PLabel α)) (s : Pipe α) (h : (Pipe.init cap).run ls = some s)
    (c : Nat) (hc : c < s.len) (hcl : Clean s c) :
    ((s.node c).out ++ (s.node c).q) <:+: s.published :=
  segment_of_published s (pinv_run _ ls s (pinv_init cap) h) c hc hcl

/-- hence it *is* a window `published[k .. k+m)` of the publication sequence: events are received at their
publication positions, so any two subscribers see common events in the same relative order -/
theorem seen_is_window (cap : Nat) (ls : List (PLabel α)) (s : Pipe α) (h : (Pipe.init cap).run ls = some s)
    (c : Nat) (hc : c < s.len) (hcl : Clean s c) :
    ∃ k, (s.node c).out ++ (s.node c).q = (s.published.drop k).take ((s.node c).out ++ (s.node c).q).length := by
  obtain ⟨pre, suf, hps⟩ := tree_exact cap ls s h c hc hcl
  refine ⟨pre.length, ?_⟩
  rw [← hps, List.append_assoc, List.drop_left, List.take_left]

/-- a subscriber attached late receives exactly the suffix forwarded after its attachment -/
theorem late_subscriber_gets_suffix (cap : Nat) (ls : List (PLabel α)) (s : Pipe α)
    (h : (Pipe.init cap).run ls = some s) (c : Nat) (h1 : 0 < c) (h2 : c < s.len)
    (hd : (s.node c).dropped = false) :
    (s.node c).out <+: ((s.node (s.node c).parent).out).drop (s.node c).attachedAt :=
  ⟨(s.node c).q, stage_exact cap ls s h c h1 h2 hd⟩

/-- **a subscriber created while events are in flight** (any interleaving before and after): take any run, attach a
subscription to the controller's publisher, continue with any run. Once the controller's own buffer is drained, what
the new subscriber has read or still holds in its buffer is `published.drop k` for some `k` that is at most the number
of events published *before* Subscribe returned — so it ENDS with every event published after Subscribe returned
(and may begin with events that were in flight at that moment). This is the rule the tree engine applies to a
subscriber created inside a burst. -/
theorem attached_gets_later_publications (cap : Nat) (pre post : List (PLabel α)) (isPub : Bool) (s1 s : Pipe α)
    (h1 : (Pipe.init cap).run pre = some s1) (h2 : (s1.step (.attach 0 isPub)).run post = some s)
    (hq : (s.node 0).q = []) (hd0 : (s.node 0).dropped = false) (hdc : (s.node s1.len).dropped = false) :
    (∃ k, k ≤ s1.published.length ∧ (s.node s1.len).out ++ (s.node s1.len).q = s.published.drop k) ∧
    (s.published.drop s1.published.length) <:+ ((s.node s1.len).out ++ (s.node s1.len).q) := by
  have hi1 := pinv_run _ pre s1 (pinv_init cap) h1
  have hen : s1.enabled (.attach 0 isPub) = true := by
    simp [Pipe.enabled, hi1.len_pos, hi1.root_pub]
  have hi2 := pinv_step s1 _ hi1 hen
  have hi := pinv_run _ post s hi2 h2
  have hlen2 : (s1.step (.attach 0 isPub)).len = s1.len + 1 := rfl
  obtain ⟨hle, hpar, hatt, _⟩ := run_static _ post s h2 s1.len (by rw [hlen2]; omega)
  have hpar' : (s.node s1.len).parent = 0 := by rw [hpar]; simp [Pipe.step]
  have hatt' : (s.node s1.len).attachedAt = (s1.node 0).out.length := by rw [hatt]; simp [Pipe.step]
  have hex := hi.exact s1.len hi1.len_pos (by rw [hlen2] at hle; omega) hdc
  rw [hpar', hatt'] at hex
  have hroot := hi.root_exact hd0
  rw [hq, List.append_nil] at hroot
  rw [hroot] at hex
  have hk : (s1.node 0).out.length ≤ s1.published.length := by
    have := hi1.root_sub.length_le
    simp only [List.length_append] at this
    omega
  refine ⟨⟨_, hk, hex⟩, ?_⟩
  rw [hex]
  have : s.published.drop s1.published.length
      = (s.published.drop (s1.node 0).out.length).drop (s1.published.length - (s1.node 0).out.length) := by
    rw [List.drop_drop]; congr 1; omega
  rw [this]
  exact List.drop_suffix _ _

/-- non-vacuity: one event in flight when the subscription is created, one published afterwards; the controller's
buffer drained; the new subscriber holds both -/
example : ∃ s1 s, (Pipe.init 4 : Pipe Nat).run [.publish 1] = some s1 ∧
    (s1.step (.attach 0 false)).run [.publish 2, .forward 0, .forward 0] = some s ∧
    (s.node 0).q = [] ∧ (s.node 0).dropped = false ∧ (s.node s1.len).dropped = false ∧ (s.node s1.len).q = [1, 2] :=
  ⟨_, _, rfl, rfl, by decide, by decide, by decide, by decide⟩

/-- the controller's own stage: read + buffered = published -/
theorem root_exact (cap : Nat) (ls : List (PLabel α)) (s : Pipe α) (h : (Pipe.init cap).run ls = some s)
    (hd : (s.node 0).dropped = false) : (s.node 0).out ++ (s.node 0).q = s.published :=
  (pinv_run _ ls s (pinv_init cap) h).root_exact hd

end

/-! ### the single publisher: the controller publishes in the order in which it changes its cache -/
section
variable {K O : Type} [DecidableEq K]
variable (key : O → K) (ver : O → Option Int) (acc : O → Bool)

/-- **the controller's stream is its cache's history**: in every reachable state of the controller (any server
history, slow or stale lists, watch reconnects, lost watch events, any interleaving), the events published so far,
replayed *in publication order* on the content the cache had when Ready() was closed, give exactly the cache's
present content — each batch (a relist's differences, a watch event's outcome) is appended whole, after the
batches of everything applied before it. A subscriber that receives this stream in order therefore mirrors the
cache (controller.go distributes a batch before it touches the cache again). -/
theorem controller_stream_is_cache_history {w : CW K O} (h : CReach key ver acc w) (hr : w.ready = true) :
    replay key ver w.published (abs w.base) = some (abs w.items) :=
  published_replays key ver acc h hr

/-- order matters: two updates of one key published in version order are not a well-formed stream when
delivered the other way round (so an overtaken batch is visible to every subscriber that replays its events) -/
theorem swapped_updates_ill_formed (pre post : List (Ev O)) (o1 o2 : O) (v1 v2 : Int) (a : AMap K O)
    (hk : key o1 = key o2) (h1 : ver o1 = some v1) (h2 : ver o2 = some v2) (hlt : v1 < v2) :
    replay key ver (pre ++ ⟨.update, o2⟩ :: ⟨.update, o1⟩ :: post) a = none := by
  rw [replay_append]
  cases replay key ver pre a with
  | none => rfl
  | some a1 =>
    simp only [Option.bind_some, replay, applyEv, h2]
    cases hc : a1 (key o2) with
    | none => rfl
    | some c =>
      simp only
      by_cases hcv : c.ver < v2
      · simp only [hcv, if_true, h1, hk, AMap.set]
        have hn : ¬ v2 < v1 := by omega
        simp only [hn, if_false]
      · simp [hcv]

end

/-! non-vacuity: the witness run of Proofs/CtrlWitness.lean is reachable and ready -/
example : CReach CtrlWitness.kk CtrlWitness.vv CtrlWitness.aa CtrlWitness.w6 ∧ CtrlWitness.w6.ready = true :=
  ⟨CtrlWitness.w6_reach, rfl⟩

/-! ### the cache is never older than what a subscriber has received -/
section
variable {K O : Type} [DecidableEq K]
variable (key : O → K) (ver : O → Option Int)

/-- along a well-formed event stream without a Delete of `k`, the version held for `k` only grows -/
theorem replay_version_grows (evs : List (Ev O)) (a a' : AMap K O) (k : K) (c0 : Entry O)
    (h : replay key ver evs a = some a') (h0 : a k = some c0)
    (hnd : ∀ e ∈ evs, key e.obj = k → e.t ≠ .delete) : ∃ c, a' k = some c ∧ c0.ver ≤ c.ver := by
  induction evs generalizing a c0 with
  | nil => simp [replay] at h; subst h; exact ⟨c0, h0, Int.le_refl _⟩
  | cons e es ih =>
    simp only [replay] at h
    cases ha : applyEv key ver a e with
    | none => simp [ha] at h
    | some a1 =>
      simp only [ha] at h
      have hnd' : ∀ e' ∈ es, key e'.obj = k → e'.t ≠ .delete := fun e' he' => hnd e' (List.mem_cons_of_mem _ he')
      by_cases hk : key e.obj = k
      · have hne := hnd e List.mem_cons_self hk
        unfold applyEv at ha
        cases ht : e.t with
        | delete => exact absurd ht hne
        | create =>
          simp only [ht, hk, h0] at ha
          cases ver e.obj <;> simp at ha
        | update =>
          simp only [ht, hk, h0] at ha
          cases hv : ver e.obj with
          | none => simp [hv] at ha
          | some v =>
            simp only [hv] at ha
            by_cases hlt : c0.ver < v
            · simp only [hlt, ↓reduceIte, Option.some.injEq] at ha
              subst ha
              obtain ⟨c, hc, hle⟩ := ih (a.set k (some ⟨v, e.obj⟩)) ⟨v, e.obj⟩ h (by simp [AMap.set]) hnd'
              exact ⟨c, hc, by simp at hle; omega⟩
            · simp [hlt] at ha
      · have : a1 k = a k := applyEv_frame key ver a a1 e k ha hk
        exact ih a1 c0 h (by rw [this]; exact h0) hnd'

/-- **cache not older**: the cache applies an event before publishing it; so when a subscriber has received
the upsert of `k` at version `v` (event `e`, anywhere in the stream), and the stream holds no later Delete of
`k`, a cache read returns `k` at a version ≥ `v` -/
theorem cache_not_older (pre post : List (Ev O)) (e : Ev O) (v : Int) (a a' : AMap K O)
    (h : replay key ver (pre ++ e :: post) a = some a') (ht : e.t ≠ .delete) (hv : ver e.obj = some v)
    (hnd : ∀ e' ∈ post, key e'.obj = key e.obj → e'.t ≠ .delete) :
    ∃ c, a' (key e.obj) = some c ∧ v ≤ c.ver := by
  rw [replay_append] at h
  cases hp : replay key ver pre a with
  | none => simp [hp] at h
  | some a1 =>
    simp only [hp, Option.bind_some, replay] at h
    cases ha : applyEv key ver a1 e with
    | none => simp [ha] at h
    | some a2 =>
      simp only [ha] at h
      have h2 : ∃ c2, a2 (key e.obj) = some c2 ∧ c2.ver = v := by
        unfold applyEv at ha
        cases hte : e.t with
        | delete => exact absurd hte ht
        | create =>
          cases hav : a1 (key e.obj) with
          | none =>
            simp only [hte, hv, hav, Option.some.injEq] at ha; subst ha
            exact ⟨⟨v, e.obj⟩, by simp [AMap.set], rfl⟩
          | some c => simp [hte, hv, hav] at ha
        | update =>
          cases hav : a1 (key e.obj) with
          | none => simp [hte, hv, hav] at ha
          | some c =>
            simp only [hte, hv, hav] at ha
            split at ha
            · simp only [Option.some.injEq] at ha; subst ha
              exact ⟨⟨v, e.obj⟩, by simp [AMap.set], rfl⟩
            · cases ha
      obtain ⟨c2, hc2, hv2⟩ := h2
      obtain ⟨c, hc, hle⟩ := replay_version_grows key ver post a2 a' (key e.obj) c2 h hc2 hnd
      exact ⟨c, hc, by omega⟩

end

/-! non-vacuity: a concrete run with a late subscriber -/
example : ∃ s, (Pipe.init 4 : Pipe Nat).run [.publish 1, .forward 0, .attach 0 false, .publish 2, .forward 0, .consume 1] = some s
    ∧ (s.node 1).out = [2] ∧ (s.node 1).attachedAt = 1 := ⟨_, rfl, by decide, by decide⟩

/-- the capacity the code uses (`EventBufsiz`, regenerated from subscription.go on every run) is a real
buffer: with capacity 0 the non-blocking hand-over of subscription.go would drop every event -/
theorem code_capacity_positive : 0 < evCap := by decide


end KC.C05

#print axioms KC.C05.stage_exact
#print axioms KC.C05.tree_exact
#print axioms KC.C05.seen_is_window
#print axioms KC.C05.late_subscriber_gets_suffix
#print axioms KC.C05.root_exact
#print axioms KC.C05.replay_version_grows
#print axioms KC.C05.cache_not_older
#print axioms KC.C05.code_capacity_positive
#print axioms KC.C05.controller_stream_is_cache_history
#print axioms KC.C05.swapped_updates_ill_formed
#print axioms KC.C05.attached_gets_later_publications
