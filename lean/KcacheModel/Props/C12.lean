/-
  C12 — Termination is clean: no hang, no leak, no zombie, no panic.
  Property theorems only (model: Life.lean; lemmas shared with C11).
  What the theorems carry: from EVERY state of the lifecycle cascade (not yet ready, mid-relist, mid-reconnect
  are all the same to it: a component either was asked to stop or not), the internal steps terminate within a
  bound, and the state they terminate in has everything under a closed component done; a subscription
  obtained while racing with shutdown is a child of its publisher and therefore shut down with it; the
  lifecycle transitions that would panic when executed twice are each executed at most once.
  What the engines exhibit on the real code and the theorems do not: goroutine exit (testing/synctest fails a
  run in which a goroutine of the bubble never finishes), API calls returning instead of blocking, bounds in
  (virtual) time.
-/
import KcacheModel.Life
import KcacheModel.Props.C11
import KcacheModel.Proofs.Life2
import KcacheModel.Api
import KcacheModel.Proofs.Api
import KcacheModel.Proofs.SysLife
namespace KC.C12
open KC KC.C11

/-- **Close returns in bounded time, from every state**: the library's own steps can always be continued to a
state where nothing more can happen, using at most `pending s ≤ 2·(number of components)` steps -/
theorem shutdown_terminates (s : Life) :
    ∃ ls t, (∀ l ∈ ls, internal l = true) ∧ s.run ls = some t ∧ t.terminal ∧ ls.length ≤ pending s := by
  generalize hn : pending s = n
  induction n using Nat.strongRecOn generalizing s with
  | _ n ih =>
    by_cases ht : s.terminal
    · exact ⟨[], s, by simp, rfl, ht, by simp⟩
    · obtain ⟨l, hl, hen⟩ := not_terminal s ht
      have hdec := cascade_terminates s l (by intro i h; subst h; cases hl) hen
      obtain ⟨ls, t, hint, hrun, hterm, hlen⟩ := ih (pending (s.step l)) (by omega) (s.step l) rfl
      refine ⟨l :: ls, t, ?_, ?_, hterm, ?_⟩
      · intro l' hl'
        rcases List.mem_cons.mp hl' with h | h
        · subst h; exact hl
        · exact hint l' h
      · simp [Life.run, hen, hrun]
      · simp only [List.length_cons]; omega

/-- … and EVERY run of the library's own steps is that short: no schedule can keep the shutdown going forever -/
theorem every_run_bounded (s : Life) (ls : List LLabel) (t : Life) (hint : ∀ l ∈ ls, internal l = true)
    (hr : s.run ls = some t) : ls.length + pending t ≤ pending s := by
  induction ls generalizing s with
  | nil => simp [Life.run] at hr; subst hr; simp
  | cons l ls ih =>
    simp only [Life.run] at hr
    split at hr
    · rename_i hen
      have hl := hint l List.mem_cons_self
      have hdec := cascade_terminates s l (by intro i h; subst h; cases hl) hen
      have := ih (s.step l) (fun l' hl' => hint l' (List.mem_cons_of_mem _ hl')) hr
      simp only [List.length_cons]; omega
    · cases hr

/-- **when the root is closed, everything ends done**: in the state the shutdown terminates in, every
component — whenever it was created, whatever was in flight — is done -/
theorem close_root_all_done (s : Life) (hw : s.WF) (hr : s.stopReq 0 = true) :
    ∃ ls t, (∀ l ∈ ls, internal l = true) ∧ s.run ls = some t ∧ ∀ i, i < t.len → t.done i = true := by
  obtain ⟨ls, t, hint, hrun, hterm, _⟩ := shutdown_terminates s
  refine ⟨ls, t, hint, hrun, ?_⟩
  -- the run keeps the tree and the request
  have keep : ∀ (ls : List LLabel) (s t : Life), s.run ls = some t → s.WF → s.stopReq 0 = true →
      t.WF ∧ t.stopReq 0 = true ∧ t.len = s.len ∧ t.parent = s.parent := by
    intro ls
    induction ls with
    | nil => intro s t h hw hr; simp [Life.run] at h; subst h; exact ⟨hw, hr, rfl, rfl⟩
    | cons l ls ih =>
      intro s t h hw hr
      simp only [Life.run] at h
      split at h
      · have hr' : (s.step l).stopReq 0 = true := by
          cases l with
          | close j => simp only [Life.step]; split <;> simp [hr]
          | stop j => exact hr
          | finish j => exact hr
        obtain ⟨a, b, c, d⟩ := ih (s.step l) t h (step_WF s l hw) hr'
        exact ⟨a, b, by rw [c, step_len], by rw [d, step_parent]⟩
      · cases h
  obtain ⟨hwt, hrt, hlen, _⟩ := keep ls s t hrun hw hr
  intro i hi
  -- every node has the root among its ancestors
  have anc : ∀ n i, i ≤ n → i < t.len → Anc t 0 i := by
    intro n
    induction n with
    | zero => intro i h _; have : i = 0 := by omega
              subst this; exact .refl
    | succ n ih =>
      intro i h hi
      by_cases h0 : i = 0
      · subst h0; exact .refl
      · have hp := hwt i (by omega) hi
        exact .up i (by omega) (ih _ (by omega) (by omega))
  exact cascade_complete t hwt hterm 0 i (anc i i (Nat.le_refl _) hi) hi hrt

/-- **no panic from the lifecycle**: `ShutdownInitiated` and `ShutdownCompleted` (which panic when called
twice) are each executed at most once per component: the step is not enabled a second time -/
theorem initiated_once (s : Life) (i : Nat) (h : s.stopping i = true) : s.enabled (.stop i) = false := by
  simp [Life.enabled, h]

theorem completed_once (s : Life) (i : Nat) (h : s.done i = true) : s.enabled (.finish i) = false := by
  simp [Life.enabled, h]

/-- a component completes only after it started stopping, in every reachable state -/
theorem done_implies_stopping (s0 : Life) (hf : Fresh s0) (ls : List LLabel) (s : Life) (hr : s0.run ls = some s)
    (i : Nat) (h : s.done i = true) : s.stopping i = true :=
  (inv_run s0 ls s (inv_fresh s0 hf) hr).done_stop i h

/-- **racing Subscribe / Clone**: a subscription created under publisher `p` at any moment is a component fed
by `p` (its stop channel is `p`'s ShuttingDown): it is covered by the cascade exactly like one created earlier.
Formally: extend any tree by a fresh node under `p`; the tree stays well-formed, and the new node has `p`
(and every ancestor of `p`) among its ancestors — so `cascade_complete` shuts it down with them. -/
def attach (s : Life) (p : Nat) : Life :=
  { s with len := s.len + 1, parent := fun i => if i = s.len then p else s.parent i }

theorem attach_WF (s : Life) (p : Nat) (hw : s.WF) (hp : p < s.len) : (attach s p).WF := by
  intro c h1 h2
  simp only [attach] at h2 ⊢
  by_cases hc : c = s.len
  · simp [hc, hp]
  · simp only [hc, ↓reduceIte]; exact hw c h1 (by omega)

theorem attach_anc (s : Life) (p : Nat) (hw : s.WF) (hp : p < s.len) (hlen : 0 < s.len) (a : Nat)
    (h : Anc s a p) : Anc (attach s p) a s.len := by
  -- ancestors of existing nodes are unchanged …
  have same : ∀ i, i < s.len → Anc s a i → Anc (attach s p) a i := by
    intro i hi hA
    induction hA with
    | refl => exact .refl
    | up i hpos _ ih =>
      have hpi := hw i hpos hi
      have hne : ¬ i = s.len := by omega
      refine .up i hpos ?_
      simp only [attach, hne, ↓reduceIte]
      exact ih (by omega)
  -- … and the new node hangs under `p`
  refine .up s.len hlen ?_
  simp only [attach, ↓reduceIte]
  exact same p hp h

/-! non-vacuity: the 4-node example of C11 shuts down completely in 8 internal steps after closing the root -/
example : ∃ s, C11.ex.run [.close 0, .stop 0, .stop 1, .stop 2, .stop 3, .finish 2, .finish 1, .finish 3, .finish 0] = some s ∧
    s.done 0 = true ∧ s.done 1 = true ∧ s.done 2 = true ∧ s.done 3 = true := ⟨_, rfl, by decide, by decide, by decide, by decide⟩

/-! ### the executable tree model agrees with the cascade (bridge to Sys.lean, the model the tree engine runs) -/

/-- **the executable tree model's Close is the terminal state of the cascade, for every schedule**: after
`Close(id)` on a fresh tree, whatever order the library's own steps (ShutdownInitiated / ShutdownCompleted of the
individual components) are taken in, once none is left the components that are done are exactly the ones the
executable model (the one the tree engine compares the implementation with) marks closed: `id` and everything
fed by it -/
theorem sys_close_is_cascade_terminal (s : Sys) (hw : (lifeOf s).WF) (id : Nat) (hid : id < s.nodes.length)
    (ls : List LLabel) (hint : ∀ l ∈ ls, internal l = true) (t : Life)
    (hr : ((lifeOf s).step (.close id)).run ls = some t) (ht : t.terminal) (i : Nat) (hi : i < s.nodes.length) :
    t.done i = descendantOf s.fuel s id i := by
  have hfresh : Fresh (lifeOf s) := fun _ => ⟨rfl, rfl, rfl⟩
  have hen : (lifeOf s).enabled (.close id) = true := by simp [Life.enabled, lifeOf, hid]
  have hr0 : (lifeOf s).run (.close id :: ls) = some t := by simp [Life.run, hen, hr]
  obtain ⟨hlen, hpar, hanc⟩ := run_shape _ ls t hr
  have hanc' : ∀ a i, Anc t a i ↔ Anc (lifeOf s) a i := fun a i => by rw [hanc a i, anc_step]
  have hsr : t.stopReq = fun j => if j = id then true else false := by
    rw [run_internal_stopReq _ ls hint t hr]; rfl
  have hlen' : t.len = s.nodes.length := by rw [hlen, step_len]; rfl
  have hwt : t.WF := by
    intro c h1 h2
    rw [hpar, step_parent]
    exact hw c h1 (by rw [hlen'] at h2; exact h2)
  cases hd : descendantOf s.fuel s id i with
  | true =>
    have ha : Anc t id i := (hanc' id i).mpr (descendantOf_anc s id _ i hd)
    exact cascade_complete t hwt ht id i ha (by rw [hlen']; exact hi) (by rw [hsr]; simp)
  | false =>
    cases hdn : t.done i with
    | false => rfl
    | true =>
      exfalso
      obtain ⟨a, ha, hra⟩ := stops_only_below_close (lifeOf s) hfresh (.close id :: ls) t hr0 i (Or.inr hdn)
      have : a = id := by
        rw [hsr] at hra
        by_cases h : a = id
        · exact h
        · simp [h] at hra
      subst this
      have := anc_descendantOf s hw a i ((hanc' a i).mp ha) hi s.fuel (by unfold Sys.fuel; omega)
      rw [this] at hd; cases hd


/-! ### every API call returns a result or ErrNotRunning instead of blocking (model: Api.lean) -/

/-- **no API call blocks**: whatever the component is doing — running, or shut down at any moment, before or
after the call was issued — a caller blocked in its `select` can always take one of the two branches -/
theorem call_never_stuck (s : Api) (i : Nat) (h : s.look i = some .offering) :
    s.enabled (.accept i) = true ∨ s.enabled (.refuse i) = true := by
  unfold Api.enabled
  cases hr : s.running <;> simp [h]

/-- … and a caller whose request was taken always finds its result (the result channel is buffered: the
component never waits for the caller, the caller never waits for the component) -/
theorem accepted_can_return (s : Api) (i : Nat) (h : s.look i = some .accepted) : s.enabled (.receive i) = true := by
  simp [Api.enabled, h]

/-- once the component has left its loop no request is taken any more: every later call returns ErrNotRunning -/
theorem stopped_refuses (s : Api) (i : Nat) (h : s.running = false) :
    s.enabled (.accept i) = false ∧ (s.look i = some .offering → s.enabled (.refuse i) = true) := by
  constructor
  · simp [Api.enabled, h]
  · intro ho; simp [Api.enabled, h, ho]

theorem stop_is_final (s : Api) (e : ApiEv) (h : s.running = false) : (s.step e).running = false := by
  cases e <;> simp [Api.step, Api.set, h]

/-- **bounded**: a call needs at most two more steps of its own, and each of them brings it closer to returning -/
theorem call_progress (s : Api) (i : Nat) (e : ApiEv) (he : e = .accept i ∨ e = .refuse i ∨ e = .receive i)
    (hen : s.enabled e = true) : (s.step e).todo i < s.todo i ∧ s.todo i ≤ 2 := by
  rcases he with rfl | rfl | rfl
  · simp only [Api.enabled, Bool.and_eq_true, beq_iff_eq] at hen
    have h1 := look_set_self s i .accepted (by simp [hen.2])
    have : ({ s.set i .accepted with served := s.served + 1 } : Api).look i = some .accepted := h1
    simp [Api.todo, Api.step, this, hen.1, hen.2]
  · simp only [Api.enabled, Bool.and_eq_true, beq_iff_eq, Bool.not_eq_true'] at hen
    have h1 := look_set_self s i (.returned false) (by simp [hen.2])
    simp [Api.todo, Api.step, h1, hen.1, hen.2]
  · simp only [Api.enabled, beq_iff_eq] at hen
    have h1 := look_set_self s i (.returned true) (by simp [hen])
    simp [Api.todo, Api.step, h1, hen]

/-- nothing another caller or the component does sets a call back -/
theorem others_do_not_delay (s : Api) (i : Nat) (e : ApiEv) (hen : s.enabled e = true)
    (hne : e ≠ .call i) : (s.step e).todo i ≤ s.todo i := by
  cases e with
  | call j =>
    have hji : j ≠ i := fun h => hne (by rw [h])
    have : ({ s with calls := (j, .offering) :: s.calls } : Api).look i = s.look i := by
      simp [Api.look, lookL, hji]
    simp only [Api.todo, Api.step, this]
    exact Nat.le_refl _
  | accept j =>
    by_cases h : j = i
    · subst h; exact Nat.le_of_lt (call_progress s j _ (Or.inl rfl) hen).1
    · have := look_set_other s j i .accepted (fun e => h e.symm)
      have h2 : ({ s.set j .accepted with served := s.served + 1 } : Api).look i = s.look i := this
      have h3 : ({ s.set j .accepted with served := s.served + 1 } : Api).running = s.running := rfl
      simp [Api.todo, Api.step, h2, h3]
  | refuse j =>
    by_cases h : j = i
    · subst h; exact Nat.le_of_lt (call_progress s j _ (Or.inr (Or.inl rfl)) hen).1
    · have := look_set_other s j i (.returned false) (fun e => h e.symm)
      have h3 : (s.set j (.returned false)).running = s.running := rfl
      simp [Api.todo, Api.step, this, h3]
  | receive j =>
    by_cases h : j = i
    · subst h; exact Nat.le_of_lt (call_progress s j _ (Or.inr (Or.inr rfl)) hen).1
    · have := look_set_other s j i (.returned true) (fun e => h e.symm)
      have h3 : (s.set j (.returned true)).running = s.running := rfl
      simp [Api.todo, Api.step, this, h3]
  | stop =>
    have : ({ s with running := false } : Api).look i = s.look i := rfl
    simp only [Api.todo, Api.step, this]
    cases s.look i with
    | none => simp
    | some c => cases c <;> simp <;> split <;> omega

/-- non-vacuity: two callers race with a shutdown; one is served, the other gets ErrNotRunning -/
example : ∃ s, ({} : Api).run [.call 1, .call 2, .accept 1, .stop, .refuse 2, .receive 1] = some s ∧
    s.look 1 = some (.returned true) ∧ s.look 2 = some (.returned false) ∧ s.served = 1 := ⟨_, rfl, by decide, by decide, rfl⟩


end KC.C12

#print axioms KC.C12.shutdown_terminates
#print axioms KC.C12.every_run_bounded
#print axioms KC.C12.close_root_all_done
#print axioms KC.C12.initiated_once
#print axioms KC.C12.completed_once
#print axioms KC.C12.done_implies_stopping
#print axioms KC.C12.attach_WF
#print axioms KC.C12.attach_anc
