/-
  C19 — Workload selection filters follow Kubernetes ownership semantics.
  Property theorems only.
-/
import KcacheModel.Filter
import KcacheModel.Workloads
import KcacheModel.Proofs.Filters
namespace KC.C19
open KC

variable (fns : Nat → Obj → Bool)

/-- reference predicate: workload `w` owns pod `p` — same namespace and selector (or, lacking one,
template labels) matching the pod's labels -/
def owns (w : Workload) (p : Obj) : Bool := (w.key.ns == p.ns) && w.selects p.labels

/-- replica set / deployment / daemon set / stateful set / job: the pods filter accepts `p` iff some
given (namespaced, valid) workload owns it -/
theorem podsFilter_spec (ws : List Workload) (hns : ∀ w ∈ ws, w.key.ns ≠ "") (hv : ∀ w ∈ ws, w.valid = true)
    (p : Obj) : accept fns (podsFilter ws) p = ws.any (owns · p) := by
  unfold podsFilter
  simp only [accept, acceptAny_eq_any, List.any_map]
  rw [any_perm (sortW_perm ws)]
  apply List.any_eq_any_of_forall_mem
  intro w hw
  simp only [Function.comp, accept, acceptAll, Bool.and_true, owns]
  rw [nsOnly_accept fns _ (hns w hw), workloadSelF_accept fns w (hv w hw)]
where
  List.any_eq_any_of_forall_mem {α : Type} {l : List α} {p q : α → Bool} (h : ∀ a ∈ l, p a = q a) :
      l.any p = l.any q := by
    induction l with
    | nil => rfl
    | cons a as ih =>
      simp only [List.any_cons]
      rw [h a List.mem_cons_self, ih (fun b hb => h b (List.mem_cons_of_mem _ hb))]

/-- reference predicate for services: a service without selector selects nothing -/
def serviceOwns (w : Workload) (p : Obj) : Bool :=
  !w.labels.isEmpty && (w.key.ns == p.ns) && subsetLabels w.labels p.labels

theorem servicePods_spec (ws : List Workload) (hns : ∀ w ∈ ws, w.key.ns ≠ "") (p : Obj) :
    accept fns (servicePodsFilter ws) p = ws.any (serviceOwns · p) := by
  unfold servicePodsFilter
  simp only [accept, acceptAny_eq_any]
  have hs : ∀ w ∈ sortW ws, w.key.ns ≠ "" := fun w hw => hns w ((sortW_perm ws).subset hw)
  rw [← any_perm (sortW_perm ws) (serviceOwns · p)]
  generalize sortW ws = l at hs
  induction l with
  | nil => rfl
  | cons w l ih =>
    have ih' := ih (fun x hx => hs x (List.mem_cons_of_mem _ hx))
    simp only [List.filterMap_cons, List.any_cons]
    by_cases he : w.labels.isEmpty = true
    · simp only [he, ↓reduceIte, serviceOwns, Bool.not_true, Bool.false_and, Bool.false_or]
      exact ih'
    · simp only [he, Bool.false_eq_true, ↓reduceIte, List.any_cons, ih', serviceOwns, Bool.not_false, Bool.true_and]
      congr 1
      simp only [accept, acceptAll, Bool.and_true]
      rw [nsOnly_accept fns _ (hs w List.mem_cons_self), labelsF_accept]

/-- what does hold: the RC filter is the namespace-less selector match … -/
theorem rcPods_spec_partial (ws : List Workload) (p : Obj) :
    accept fns (rcPodsFilter ws) p = ws.any (fun w => subsetLabels w.labels p.labels) := by
  unfold rcPodsFilter
  simp only [accept, acceptAny_eq_any, List.any_map]
  rw [any_perm (sortW_perm ws)]
  congr 1; funext w
  simp [labelsF_accept]

/-- full-strength statement for replication controllers (same shape as `podsFilter_spec`) -/
def rcPods_spec_full : Prop :=
  ∀ (ws : List Workload) (p : Obj), (∀ w ∈ ws, w.key.ns ≠ "") →
    accept fns (rcPodsFilter ws) p = ws.any (serviceOwns · p)

/-- … which the code as it is does NOT satisfy: the RC pods filter has no namespace term
(known finding C19/rc-pods-no-namespace). Witness: RC a/x {app=1}, pod b/y {app=1}. -/
theorem rcPods_spec_full_false : ¬ rcPods_spec_full fns := by
  intro h
  have := h [⟨⟨"a", "x"⟩, none, [("app", "1")]⟩] { ns := "b", name := "y", labels := [("app", "1")] } (by simp)
  rw [rcPods_spec_partial] at this
  revert this
  decide

/-- … hence correct exactly when every given RC is in the pod's namespace and has a selector -/
theorem rcPods_spec_same_ns (ws : List Workload) (p : Obj)
    (h : ∀ w ∈ ws, w.key.ns = p.ns ∧ w.labels ≠ []) :
    accept fns (rcPodsFilter ws) p = ws.any (serviceOwns · p) := by
  rw [rcPods_spec_partial]
  induction ws with
  | nil => rfl
  | cons w ws ih =>
    have hw := h w List.mem_cons_self
    simp only [List.any_cons, ih (fun x hx => h x (List.mem_cons_of_mem _ hx))]
    congr 1
    have : w.labels.isEmpty = false := by
      cases hl : w.labels with
      | nil => exact absurd hl hw.2
      | cons _ _ => rfl
    simp [serviceOwns, hw.1, this]

/-- the ingress services filter accepts exactly the services named as backends (default backend or
rule path) by an ingress of the same namespace -/
theorem servicesFilter_spec (is : List Ingress) (hns : ∀ i ∈ is, i.ns ≠ "") (svc : Obj) :
    accept fns (servicesFilter is) svc = true ↔
      ∃ i ∈ is, i.ns = svc.ns ∧ svc.name ≠ "" ∧ (i.defaultBackend = svc.name ∨ svc.name ∈ i.pathBackends) := by
  have hfull : ∀ id ∈ is.flatMap Ingress.ids, id.ns ≠ "" ∧ id.name ≠ "" := by
    intro id hid
    obtain ⟨i, hi, hid⟩ := List.mem_flatMap.mp hid
    exact Ingress.ids_full i (hns i hi) id hid
  unfold servicesFilter nsnameF
  have e2 : (is.flatMap Ingress.ids).filter (fun id => !(id.ns != "" && id.name != "")) = [] := by
    apply List.filter_eq_nil_iff.mpr
    intro id hid; simp [(hfull id hid).1, (hfull id hid).2]
  have e1 : (is.flatMap Ingress.ids).filter (fun id => (id.ns != "" && id.name != "")) = is.flatMap Ingress.ids := by
    apply List.filter_eq_self.mpr
    intro id hid; simp [(hfull id hid).1, (hfull id hid).2]
  rw [e1, e2]
  simp only [accept, List.any_nil, Bool.or_false, List.contains_iff_mem, List.mem_flatMap]
  constructor
  · rintro ⟨i, hi, hid⟩
    refine ⟨i, hi, ?_⟩
    unfold Ingress.ids at hid
    simp only [List.mem_append, List.mem_map, List.mem_filter] at hid
    rcases hid with hid | ⟨s, ⟨hs, hne⟩, hk⟩
    · split at hid
      · rename_i hd
        simp only [List.mem_singleton] at hid
        have e : svc.ns = i.ns ∧ svc.name = i.defaultBackend := by
          simpa [Obj.key, Key.mk.injEq] using hid
        exact ⟨e.1.symm, by rw [e.2]; exact hd, Or.inl e.2.symm⟩
      · simp at hid
    · have e : i.ns = svc.ns ∧ s = svc.name := by simpa [Obj.key, Key.mk.injEq] using hk
      exact ⟨e.1, by rw [← e.2]; simpa using hne, Or.inr (e.2 ▸ hs)⟩
  · rintro ⟨i, hi, hns', hne, hb⟩
    refine ⟨i, hi, ?_⟩
    unfold Ingress.ids
    simp only [List.mem_append, List.mem_map, List.mem_filter]
    rcases hb with hb | hb
    · left
      have : i.defaultBackend ≠ "" := by rw [hb]; exact hne
      simp [Obj.key, hns', hb, hne]
    · right
      exact ⟨svc.name, ⟨hb, by simpa using hne⟩, by simp [Obj.key, hns']⟩

/-- node filter: exactly the pods scheduled on one of the named nodes; other kinds rejected -/
theorem nodeFilter_spec (names : List String) (o : Obj) :
    accept fns (nodeF names) o = true ↔ o.kind = "pod" ∧ o.node ∈ names := by
  simp [nodeF, accept]

/-- involved-object filter: exactly the events about that object; other kinds rejected -/
theorem involvedFilter_spec (kind ns name : String) (o : Obj) :
    accept fns (.involved kind ns name) o = true ↔
      o.kind = "event" ∧ o.invKind = kind ∧ o.invNs = ns ∧ o.invName = name := by
  simp [accept, and_assoc]

/-- selector-match filter: exactly the services with a non-empty selector contained in the (non-empty)
target; other kinds rejected -/
theorem selectorMatch_spec (target : List (String × String)) (o : Obj) :
    accept fns (.selectorMatch target) o = true ↔
      o.kind = "service" ∧ o.selector ≠ [] ∧ target ≠ [] ∧
        ∀ kv ∈ o.selector, AL.lookup kv.1 target = some kv.2 := by
  simp [accept, and_assoc]

/-! non-vacuity -/
example : accept (fun _ _ => false)
    (podsFilter [⟨⟨"a", "x"⟩, some { matchLabels := [("app", "1")], matchExpressions := [⟨"t", .in_, ["p", "q"]⟩] }, []⟩])
    { ns := "a", name := "p1", labels := [("app", "1"), ("t", "q")] } = true := by decide

end KC.C19

#print axioms KC.C19.podsFilter_spec
#print axioms KC.C19.servicePods_spec
#print axioms KC.C19.rcPods_spec_full_false
#print axioms KC.C19.rcPods_spec_partial
#print axioms KC.C19.rcPods_spec_same_ns
#print axioms KC.C19.servicesFilter_spec
#print axioms KC.C19.nodeFilter_spec
#print axioms KC.C19.involvedFilter_spec
#print axioms KC.C19.selectorMatch_spec
