/-
  C07 — Refilter emits precisely the membership changes; nothing if nothing changes.
  Property theorems only. "Ready with no parent events in flight" = `ready ∧ consumed = plog.length`.
-/
import KcacheModel.FSubWorld
import KcacheModel.Proofs.FSub
import KcacheModel.Props.C06
namespace KC.C07
open KC AL

section
variable {K O F : Type} [DecidableEq K]
variable (key : O → K) (ver : O → Option Int) (accF : F → O → Bool) (feq : F → F → Bool) (cap : Nat)
variable (hfeq : ∀ f g, feq f g = true → ∀ o, accF f o = accF g o)

/-- refiltering a ready subscription to an *equal* filter emits nothing and changes nothing -/
theorem refilter_equal_noop (w : World K O F) (f : F) (plist : List O) (hr : w.fs.ready = true)
    (hps : w.fs.pseen = true) (he : feq w.fs.filter f = true) :
    (w.step key ver accF feq cap (.refilter f plist)).fs.items = w.fs.items ∧
    (w.step key ver accF feq cap (.refilter f plist)).fs.out = w.fs.out ∧
    FSub.emitted key ver accF feq w.fs (.refilter f plist) = [] := by
  simp [World.step, FSub.step, FSub.emitted, hr, hps, he]

include hfeq

/-- … and "nothing changes" is also *correct*: the equal filter accepts the same objects (C17) -/
theorem refilter_equal_same_view {w : World K O F} (h : Reach key ver accF feq cap w) (f : F)
    (he : feq w.fs.filter f = true) (o : O) : accF w.fs.cfilter o = accF f o := by
  rw [← (reach_inv key ver accF feq cap hfeq h).filt]; exact hfeq _ _ he o

/-- **exact delta**: on a ready subscription with no parent event in flight, `Refilter(f2)` with a new
filter hands to its subscribers, for every key: exactly one Delete of the cached object if it was cached and
`f2` rejects it; exactly one Create of the parent's object if it was not cached and `f2` accepts it; nothing
for objects that remain (and nothing for absent keys) — and the cache becomes the view under `f2`. -/
theorem refilter_delta_exact {w : World K O F} (h : Reach key ver accF feq cap w) (hr : w.fs.ready = true)
    (hq : w.consumed = w.plog.length) (f2 : F) (plist : List O)
    (hen : w.enabled key ver (.refilter f2 plist)) (hnew : feq w.fs.filter f2 = false) (k : K) :
    lookup k (w.step key ver accF feq cap (.refilter f2 plist)).fs.items = view (accF f2) (w.pnow key ver k) ∧
    evK key k (FSub.emitted key ver accF feq w.fs (.refilter f2 plist)) =
      (match w.pnow key ver k with
       | none => []
       | some p =>
         if accF w.fs.lastF p.obj then (if accF f2 p.obj then [] else [⟨.delete, p.obj⟩])
         else (if accF f2 p.obj then [⟨.create, p.obj⟩] else [])) := by
  have hi := reach_inv key ver accF feq cap hfeq h
  have hps := hi.ready_pseen hr
  obtain ⟨_, hsnap⟩ := hen
  have hconv := C06.fsub_converges key ver accF feq cap hfeq h hr hq k
  have hwf := reach_wf key ver accF feq cap h
  have hl := hsnap k
  constructor
  · simp only [World.step, FSub.step, hps, hnew, hr, Bool.not_true, Bool.false_and, Bool.not_false, Bool.and_true,
      Bool.false_eq_true, ↓reduceIte, Bool.and_false]
    rw [doSync_snapshot key ver _ _ plist _ hsnap k, hconv]
    cases hP : w.pnow key ver k with
    | none => simp [csync, view]
    | some p => by_cases h1 : accF w.fs.lastF p.obj = true <;> by_cases h2 : accF f2 p.obj = true <;>
        simp [csync, view, h1, h2]
  · simp only [FSub.emitted, hps, hnew, hr, Bool.not_false, Bool.and_self, ↓reduceIte]
    rw [doSync_events_key key ver _ _ plist hwf k (by rw [hl]; cases w.pnow key ver k <;> simp), hl, hconv]
    cases hP : w.pnow key ver k with
    | none => simp [specKey, view]
    | some p =>
      by_cases h1 : accF w.fs.lastF p.obj = true <;> by_cases h2 : accF f2 p.obj = true <;>
        simp [specKey, view, ownEvent, newest, h1, h2]

/-- **round trip**: refiltering to `f2` and then back to `f1` restores the view under `f1`
(indeed after any sequence of Refilter calls at quiescence the view is that of the last one) -/
theorem refilter_roundtrip {w : World K O F} (h : Reach key ver accF feq cap w) (hr : w.fs.ready = true)
    (hq : w.consumed = w.plog.length) (f2 f1 : F) (l2 l1 : List O)
    (h2 : w.enabled key ver (.refilter f2 l2))
    (h1 : (w.step key ver accF feq cap (.refilter f2 l2)).enabled key ver (.refilter f1 l1)) (k : K) :
    lookup k ((w.step key ver accF feq cap (.refilter f2 l2)).step key ver accF feq cap (.refilter f1 l1)).fs.items
      = view (accF f1) (w.pnow key ver k) := by
  have r2 := Reach.step w _ h h2
  have r1 := Reach.step _ _ r2 h1
  have hr2 := C08aux w (.refilter f2 l2) hr
  have hr1 := C08aux _ (.refilter f1 l1) hr2
  have := C06.fsub_converges key ver accF feq cap hfeq r1 hr1 (by simpa [World.step] using hq) k
  rw [this]
  have hl : ((w.step key ver accF feq cap (.refilter f2 l2)).step key ver accF feq cap (.refilter f1 l1)).fs.lastF = f1 :=
    step_refilter_lastF key ver accF feq cap _ f1 l1
  rw [hl]; rfl
where
  C08aux (w : World K O F) (l : WLabel O F) (hr : w.fs.ready = true) :
      (w.step key ver accF feq cap l).fs.ready = true := by
    cases l with
    | parentApply e => exact hr
    | stop => exact hr
    | consume =>
      simp only [World.step]
      cases w.plog[w.consumed]? with
      | none => exact hr
      | some e => simp [FSub.step, hr]
    | parentReady plist => simp only [World.step, FSub.step]; split <;> simp [hr]
    | refilter f plist => simp only [World.step, FSub.step]; repeat' split; all_goals simp_all

end
/-! non-vacuity of `refilter_delta_exact`'s hypotheses: a parent holding one even-versioned object, a
subscription with the accept-even filter made ready by the parent's readiness, then refiltered to reject-all -/
section
def exKey (o : Nat × Int) : Nat := o.1
def exVer (o : Nat × Int) : Option Int := some o.2
def exAcc (f : Bool) (o : Nat × Int) : Bool := f && o.2 % 2 == 0
def exFeq (a b : Bool) : Bool := a == b
def exP0 : AMap Nat (Nat × Int) := fun k => if k = 1 then some ⟨2, (1, 2)⟩ else none
def exW0 : World Nat (Nat × Int) Bool := ⟨exP0, [], 0, FSub.init false true⟩
def exW1 := exW0.step exKey exVer exAcc exFeq 100 (.parentReady [(1, 2)])

private theorem exSnap : Snapshot exKey exVer [((1 : Nat), (2 : Int))] exP0 := by
  intro k
  by_cases hk : k = 1
  · subst hk; decide
  · have : ¬ (1 = k) := fun h => hk h.symm
    simp [listedAll, exVer, exKey, exP0, this, hk]

example : Reach exKey exVer exAcc exFeq 100 exW1 ∧ exW1.fs.ready = true ∧ exW1.consumed = exW1.plog.length ∧
    exW1.enabled exKey exVer (.refilter false [(1, 2)]) ∧ exFeq exW1.fs.filter false = false ∧
    lookup 1 exW1.fs.items = some ⟨2, (1, 2)⟩ ∧
    (FSub.emitted exKey exVer exAcc exFeq exW1.fs (.refilter false [(1, 2)])).map (fun e => (e.t, e.obj)) = [(.delete, (1, 2))] := by
  refine ⟨?_, by decide, rfl, ⟨by decide, exSnap⟩, by decide, by decide, by decide⟩
  exact Reach.step exW0 _ (Reach.init exP0 false true (fun h => by cases h)) ⟨by decide, exSnap⟩
end

end KC.C07

#print axioms KC.C07.refilter_equal_noop
#print axioms KC.C07.refilter_equal_same_view
#print axioms KC.C07.refilter_delta_exact
#print axioms KC.C07.refilter_roundtrip
