/-
  C11 — Shutdown cascades down the tree, never up or sideways.
  Property theorems only (model: Life.lean). All schedules = all label lists accepted by `Life.run`;
  any tree (any `parent` function with feeders at smaller indices), any depth, any set of Close() calls at
  any moments.
-/
import KcacheModel.Life
import KcacheModel.Proofs.Life
namespace KC.C11
open KC

/-- **never up or sideways** (safety, every schedule): a component leaves `running` only if Close (or cancel /
a fatal error) hit it or one of the components it is fed by. Ancestors and siblings of a closed node, and
their subtrees, are untouched. -/
theorem stops_only_below_close (s0 : Life) (hf : Fresh s0) (ls : List LLabel) (s : Life) (hr : s0.run ls = some s)
    (i : Nat) (h : s.stopping i = true ∨ s.done i = true) : ∃ a, Anc s a i ∧ s.stopReq a = true := by
  have hi := inv_run s0 ls s (inv_fresh s0 hf) hr
  rcases h with h | h
  · exact hi.stop_cause i h
  · exact hi.stop_cause i (hi.done_stop i h)

theorem survivors_untouched (s0 : Life) (hf : Fresh s0) (ls : List LLabel) (s : Life) (hr : s0.run ls = some s)
    (i : Nat) (h : ¬ ∃ a, Anc s a i ∧ s.stopReq a = true) : s.stopping i = false ∧ s.done i = false := by
  constructor
  · cases hs : s.stopping i with
    | false => rfl
    | true => exact absurd (stops_only_below_close s0 hf ls s hr i (Or.inl hs)) h
  · cases hs : s.done i with
    | false => rfl
    | true => exact absurd (stops_only_below_close s0 hf ls s hr i (Or.inr hs)) h

/-! ### down the tree, completely -/

/-- **cascade complete** (every schedule): when nothing more can happen, every component under a closed one —
at any depth, whatever kind, whenever it was created — is done -/
theorem cascade_complete (s : Life) (hw : s.WF) (ht : s.terminal) (a i : Nat) (h : Anc s a i) (hi : i < s.len)
    (hr : s.stopReq a = true) : s.done i = true :=
  terminal_done s hw ht _ i rfl hi (terminal_stopping_down s hw ht a i h hi hr)

/-! ### the cascade terminates -/

/-- every internal step (`stop`, `finish`) strictly decreases the number of pending transitions, which is at
most twice the number of components: the cascade cannot run forever -/
theorem cascade_terminates (s : Life) (l : LLabel) (hl : ∀ i, l ≠ .close i) (hen : s.enabled l = true) :
    pending (s.step l) < pending s := by
  cases l with
  | close i => exact absurd rfl (hl i)
  | stop i =>
    simp only [Life.enabled, Bool.and_eq_true, decide_eq_true_eq, Bool.not_eq_true'] at hen
    have h := filter_flip (List.range s.len) List.nodup_range (fun j => !s.stopping j)
      (fun j => !(if j = i then true else s.stopping j)) i (List.mem_range.mpr hen.1.1) (by simp [hen.1.2]) (by simp)
      (fun j hj => by simp [hj])
    simp only [pending, Life.step]
    omega
  | finish i =>
    simp only [Life.enabled, Bool.and_eq_true, decide_eq_true_eq, Bool.not_eq_true'] at hen
    have h := filter_flip (List.range s.len) List.nodup_range (fun j => !s.done j)
      (fun j => !(if j = i then true else s.done j)) i (List.mem_range.mpr hen.1.1.1) (by simp [hen.1.2]) (by simp)
      (fun j hj => by simp [hj])
    simp only [pending, Life.step]
    omega

theorem pending_le (s : Life) : pending s ≤ 2 * s.len := by
  unfold pending
  have h1 := List.length_filter_le (fun i => !s.stopping i) (List.range s.len)
  have h2 := List.length_filter_le (fun i => !s.done i) (List.range s.len)
  simp only [List.length_range] at h1 h2
  omega

/-! non-vacuity: root 0, clone 1 under it, subscriber 2 under the clone, sibling 3 under the root;
closing the clone stops 1 and 2 and leaves 0 and 3 running -/
def ex : Life := ⟨4, fun i => if i = 2 then 1 else 0, fun _ => false, fun _ => false, fun _ => false⟩
example : ∃ s, ex.run [.close 1, .stop 1, .stop 2, .finish 2, .finish 1] = some s ∧
    s.done 1 = true ∧ s.done 2 = true ∧ s.stopping 0 = false ∧ s.stopping 3 = false :=
  ⟨_, rfl, by decide, by decide, by decide, by decide⟩

end KC.C11

#print axioms KC.C11.stops_only_below_close
#print axioms KC.C11.survivors_untouched
#print axioms KC.C11.cascade_complete
#print axioms KC.C11.cascade_terminates
#print axioms KC.C11.pending_le
