/-
  C11 — Shutdown cascades down the tree, never up or sideways.
  Property theorems only (model: Life.lean). All schedules = all label lists accepted by `Life.run`;
  any tree (any `parent` function with feeders at smaller indices), any depth, any set of Close() calls at
  any moments.
-/
import KcacheModel.Life
namespace KC.C11
open KC

/-- `a` is `i` itself or one of the components `i` is (transitively) fed by -/
inductive Anc (s : Life) (a : Nat) : Nat → Prop
  | refl : Anc s a a
  | up (i : Nat) : 0 < i → Anc s a (s.parent i) → Anc s a i

/-- a fresh tree: nothing requested, nothing stopping, nothing done -/
def Fresh (s : Life) : Prop := ∀ i, s.stopReq i = false ∧ s.stopping i = false ∧ s.done i = false

structure Inv (s : Life) : Prop where
  stop_cause : ∀ i, s.stopping i = true → ∃ a, Anc s a i ∧ s.stopReq a = true
  done_stop : ∀ i, s.done i = true → s.stopping i = true

theorem anc_step (s : Life) (l : LLabel) (a i : Nat) : Anc (s.step l) a i ↔ Anc s a i := by
  have hp : (s.step l).parent = s.parent := by cases l <;> rfl
  constructor
  · intro h; induction h with
    | refl => exact .refl
    | up i hi _ ih => exact .up i hi (by rw [hp] at ih; exact ih)
  · intro h; induction h with
    | refl => exact .refl
    | up i hi _ ih => exact .up i hi (by rw [hp]; exact ih)

theorem inv_step (s : Life) (l : LLabel) (h : Inv s) (hen : s.enabled l = true) : Inv (s.step l) := by
  obtain ⟨hc, hd⟩ := h
  cases l with
  | close j =>
    refine ⟨?_, hd⟩
    intro i hi
    obtain ⟨a, ha, hr⟩ := hc i hi
    exact ⟨a, (anc_step s _ a i).mpr ha, by simp only [Life.step]; split <;> simp [hr]⟩
  | stop j =>
    simp only [Life.enabled, Bool.and_eq_true, decide_eq_true_eq, Bool.not_eq_true', Bool.or_eq_true] at hen
    refine ⟨?_, ?_⟩
    · intro i hi
      simp only [Life.step] at hi
      by_cases hij : i = j
      · subst hij
        rcases hen.2 with hr | ⟨hpos, hps⟩
        · exact ⟨i, .refl, hr⟩
        · obtain ⟨a, ha, hr⟩ := hc _ hps
          exact ⟨a, (anc_step s _ a i).mpr (.up i hpos ha), hr⟩
      · simp only [hij, ↓reduceIte] at hi
        obtain ⟨a, ha, hr⟩ := hc i hi
        exact ⟨a, (anc_step s _ a i).mpr ha, hr⟩
    · intro i hi
      have := hd i hi
      simp only [Life.step]; split <;> simp [this]
  | finish j =>
    simp only [Life.enabled, Bool.and_eq_true, decide_eq_true_eq, Bool.not_eq_true'] at hen
    refine ⟨fun i hi => ?_, ?_⟩
    · obtain ⟨a, ha, hr⟩ := hc i hi
      exact ⟨a, (anc_step s _ a i).mpr ha, hr⟩
    · intro i hi
      simp only [Life.step] at hi ⊢
      by_cases hij : i = j
      · subst hij; exact hen.1.1.2
      · simp only [hij, ↓reduceIte] at hi; exact hd i hi

theorem inv_run (s : Life) (ls : List LLabel) (s' : Life) (h : Inv s) (hr : s.run ls = some s') : Inv s' := by
  induction ls generalizing s with
  | nil => simp [Life.run] at hr; subst hr; exact h
  | cons l ls ih =>
    simp only [Life.run] at hr
    split at hr
    · rename_i hen; exact ih _ (inv_step s l h hen) hr
    · cases hr

theorem inv_fresh (s : Life) (h : Fresh s) : Inv s :=
  ⟨(fun i hi => by rw [(h i).2.1] at hi; cases hi), (fun i hi => by rw [(h i).2.2] at hi; cases hi)⟩

/-- **never up or sideways** (safety, every schedule): a component leaves `running` only if Close (or cancel /
a fatal error) hit it or one of the components it is fed by. Ancestors and siblings of a closed node, and
their subtrees, are untouched. -/
theorem stops_only_below_close (s0 : Life) (hf : Fresh s0) (ls : List LLabel) (s : Life) (hr : s0.run ls = some s)
    (i : Nat) (h : s.stopping i = true ∨ s.done i = true) : ∃ a, Anc s a i ∧ s.stopReq a = true := by
  have hi := inv_run s0 ls s (inv_fresh s0 hf) hr
  rcases h with h | h
  · exact hi.stop_cause i h
  · exact hi.stop_cause i (hi.done_stop i h)

theorem survivors_untouched (s0 : Life) (hf : Fresh s0) (ls : List LLabel) (s : Life) (hr : s0.run ls = some s)
    (i : Nat) (h : ¬ ∃ a, Anc s a i ∧ s.stopReq a = true) : s.stopping i = false ∧ s.done i = false := by
  constructor
  · cases hs : s.stopping i with
    | false => rfl
    | true => exact absurd (stops_only_below_close s0 hf ls s hr i (Or.inl hs)) h
  · cases hs : s.done i with
    | false => rfl
    | true => exact absurd (stops_only_below_close s0 hf ls s hr i (Or.inr hs)) h

/-! ### down the tree, completely -/

theorem terminal_stop (s : Life) (ht : s.terminal) (i : Nat) (hi : i < s.len)
    (h : s.stopReq i = true ∨ (0 < i ∧ s.stopping (s.parent i) = true)) : s.stopping i = true := by
  have := (ht i).1
  simp only [Life.enabled, hi, decide_true, Bool.true_and] at this
  cases hs : s.stopping i with
  | true => rfl
  | false =>
    rcases h with h | ⟨h1, h2⟩
    · simp [hs, h] at this
    · simp [hs, h1, h2] at this

theorem terminal_stopping_down (s : Life) (hw : s.WF) (ht : s.terminal) (a i : Nat) (h : Anc s a i) (hi : i < s.len)
    (hr : s.stopReq a = true) : s.stopping i = true := by
  induction h with
  | refl => exact terminal_stop s ht _ hi (Or.inl hr)
  | up i hpos _ ih =>
    have hp := hw i hpos hi
    exact terminal_stop s ht i hi (Or.inr ⟨hpos, ih (by omega)⟩)

theorem terminal_done (s : Life) (hw : s.WF) (ht : s.terminal) :
    ∀ n i, s.len - i = n → i < s.len → s.stopping i = true → s.done i = true := by
  intro n
  induction n using Nat.strongRecOn with
  | _ n ih =>
    intro i hn hi hs
    have hcd : s.childrenDone i = true := by
      simp only [Life.childrenDone, List.all_eq_true, List.mem_range, Bool.or_eq_true, Bool.not_eq_true']
      intro c hc
      by_cases hch : s.isChild i c = true
      · right
        simp only [Life.isChild, Bool.and_eq_true, decide_eq_true_eq, beq_iff_eq] at hch
        obtain ⟨⟨hpos, _⟩, hpar⟩ := hch
        have hci : i < c := by have := hw c hpos hc; omega
        have hsc : s.stopping c = true := terminal_stop s ht c hc (Or.inr ⟨hpos, by rw [hpar]; exact hs⟩)
        exact ih (s.len - c) (by omega) c rfl hc hsc
      · left; simpa using hch
    have := (ht i).2
    simp only [Life.enabled, hi, decide_true, hs, hcd, Bool.true_and, Bool.and_true, Bool.not_eq_false'] at this
    exact this

/-- **cascade complete** (every schedule): when nothing more can happen, every component under a closed one —
at any depth, whatever kind, whenever it was created — is done -/
theorem cascade_complete (s : Life) (hw : s.WF) (ht : s.terminal) (a i : Nat) (h : Anc s a i) (hi : i < s.len)
    (hr : s.stopReq a = true) : s.done i = true :=
  terminal_done s hw ht _ i rfl hi (terminal_stopping_down s hw ht a i h hi hr)

/-! ### the cascade terminates -/

def pending (s : Life) : Nat :=
  ((List.range s.len).filter (fun i => !s.stopping i)).length + ((List.range s.len).filter (fun i => !s.done i)).length

theorem filter_flip (l : List Nat) (hn : l.Nodup) (p q : Nat → Bool) (i : Nat) (hi : i ∈ l) (hp : p i = true)
    (hq : q i = false) (hsame : ∀ j, j ≠ i → q j = p j) : (l.filter q).length + 1 = (l.filter p).length := by
  induction l with
  | nil => cases hi
  | cons x xs ih =>
    simp only [List.nodup_cons] at hn
    by_cases hx : x = i
    · subst hx
      have hrest : xs.filter q = xs.filter p := by
        apply List.filter_congr
        intro j hj
        exact hsame j (fun e => hn.1 (e ▸ hj))
      simp [List.filter_cons, hp, hq, hrest]
    · have hi' : i ∈ xs := by
        rcases List.mem_cons.mp hi with h | h
        · exact absurd h.symm hx
        · exact h
      have := ih hn.2 hi'
      simp only [List.filter_cons, hsame x hx]
      split
      · simp only [List.length_cons]; omega
      · exact this

/-- every internal step (`stop`, `finish`) strictly decreases the number of pending transitions, which is at
most twice the number of components: the cascade cannot run forever -/
theorem cascade_terminates (s : Life) (l : LLabel) (hl : ∀ i, l ≠ .close i) (hen : s.enabled l = true) :
    pending (s.step l) < pending s := by
  cases l with
  | close i => exact absurd rfl (hl i)
  | stop i =>
    simp only [Life.enabled, Bool.and_eq_true, decide_eq_true_eq, Bool.not_eq_true'] at hen
    have h := filter_flip (List.range s.len) List.nodup_range (fun j => !s.stopping j)
      (fun j => !(if j = i then true else s.stopping j)) i (List.mem_range.mpr hen.1.1) (by simp [hen.1.2]) (by simp)
      (fun j hj => by simp [hj])
    simp only [pending, Life.step]
    omega
  | finish i =>
    simp only [Life.enabled, Bool.and_eq_true, decide_eq_true_eq, Bool.not_eq_true'] at hen
    have h := filter_flip (List.range s.len) List.nodup_range (fun j => !s.done j)
      (fun j => !(if j = i then true else s.done j)) i (List.mem_range.mpr hen.1.1.1) (by simp [hen.1.2]) (by simp)
      (fun j hj => by simp [hj])
    simp only [pending, Life.step]
    omega

theorem pending_le (s : Life) : pending s ≤ 2 * s.len := by
  unfold pending
  have h1 := List.length_filter_le (fun i => !s.stopping i) (List.range s.len)
  have h2 := List.length_filter_le (fun i => !s.done i) (List.range s.len)
  simp only [List.length_range] at h1 h2
  omega

/-! non-vacuity: root 0, clone 1 under it, subscriber 2 under the clone, sibling 3 under the root;
closing the clone stops 1 and 2 and leaves 0 and 3 running -/
def ex : Life := ⟨4, fun i => if i = 2 then 1 else 0, fun _ => false, fun _ => false, fun _ => false⟩
example : ∃ s, ex.run [.close 1, .stop 1, .stop 2, .finish 2, .finish 1] = some s ∧
    s.done 1 = true ∧ s.done 2 = true ∧ s.stopping 0 = false ∧ s.stopping 3 = false :=
  ⟨_, rfl, by decide, by decide, by decide, by decide⟩

end KC.C11

#print axioms KC.C11.stops_only_below_close
#print axioms KC.C11.survivors_untouched
#print axioms KC.C11.cascade_complete
#print axioms KC.C11.cascade_terminates
#print axioms KC.C11.pending_le
