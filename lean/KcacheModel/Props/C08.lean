/-
  C08 — Ready means synced, and nothing is observable before it (filtered subscriptions / clones;
  the controller's and the plain nodes' part is carried by the tree model, KcacheModel/Sys.lean).
  Property theorems only.
-/
import KcacheModel.FSubWorld
import KcacheModel.Proofs.FSub
namespace KC.C08
open KC AL

section
variable {K O F : Type} [DecidableEq K]
variable (key : O → K) (ver : O → Option Int) (accF : F → O → Bool) (feq : F → F → Bool) (cap : Nat)
variable (hfeq : ∀ f g, feq f g = true → ∀ o, accF f o = accF g o)
include hfeq

/-- `close(readych)` is executed at most once on every run: the double-close panic is unreachable -/
theorem ready_closed_once {w : World K O F} (h : Reach key ver accF feq cap w) : w.fs.readyCloses ≤ 1 := by
  have := (reach_inv key ver accF feq cap hfeq h).closes
  split at this <;> omega

/-- and it is executed exactly when the subscription turns ready -/
theorem ready_iff_closed {w : World K O F} (h : Reach key ver accF feq cap w) :
    w.fs.ready = true ↔ w.fs.readyCloses = 1 := by
  have := (reach_inv key ver accF feq cap hfeq h).closes
  cases hr : w.fs.ready <;> simp_all

/-- **nothing observable before Ready**: while not ready, no event has been put on `Events()` and the cache
is empty -/
theorem no_event_before_ready {w : World K O F} (h : Reach key ver accF feq cap w) (hr : w.fs.ready = false) :
    w.fs.out = [] ∧ w.fs.items = [] :=
  ((reach_inv key ver accF feq cap hfeq h).notready_empty hr).symm

/-- **Ready means synced**: the very step that closes `readych` leaves the cache equal, key by key, to the
filtered content of the parent at that instant — whatever path made it ready (parent readiness, a Refilter
with a new filter, a Refilter with an unchanged filter on a deferred subscription) -/
theorem fsub_ready_implies_synced {w : World K O F} (h : Reach key ver accF feq cap w) (l : WLabel O F)
    (hen : w.enabled key ver l) (hnr : w.fs.ready = false)
    (hr : (w.step key ver accF feq cap l).fs.ready = true) (k : K) :
    lookup k (w.step key ver accF feq cap l).fs.items
      = view (accF (w.step key ver accF feq cap l).fs.cfilter) ((w.step key ver accF feq cap l).pnow key ver k) :=
  ready_step_synced key ver accF feq cap w l (reach_inv key ver accF feq cap hfeq h) hen hnr hr k

/-- a (deferred) subscription is ready only after its parent's readiness was observed, and a deferred one
only after a filter was supplied -/
theorem deferred_ready_needs_parent_and_filter {w : World K O F} (h : Reach key ver accF feq cap w)
    (hr : w.fs.ready = true) : w.fs.pseen = true ∧ (w.fs.deferReady = true → w.fs.refilterSeen = true) :=
  ⟨(reach_inv key ver accF feq cap hfeq h).ready_pseen hr, (reach_inv key ver accF feq cap hfeq h).ready_seen hr⟩

/-- the subtle path: a deferred subscription whose parent is ready and that has not been given a filter holds
nothing and rejects everything, which is why becoming ready on an *unchanged* filter without syncing is correct -/
theorem unready_deferred {w : World K O F} (h : Reach key ver accF feq cap w) (hr : w.fs.ready = false)
    (hp : w.fs.pseen = true) :
    w.fs.deferReady = true ∧ w.fs.pending = false ∧ w.fs.items = [] ∧ ∀ o, accF w.fs.cfilter o = false := by
  have hi := reach_inv key ver accF feq cap hfeq h
  obtain ⟨hd, hpe⟩ := hi.notready_pseen hr hp
  exact ⟨hd, hpe, (hi.notready_empty hr).1, hi.rejectall hd hpe hr⟩

/-- once ready, always ready (readiness is never withdrawn) -/
theorem ready_stable {w : World K O F} (_h : Reach key ver accF feq cap w) (l : WLabel O F) (hr : w.fs.ready = true) :
    (w.step key ver accF feq cap l).fs.ready = true := by
  cases l with
  | parentApply e => exact hr
  | stop => exact hr
  | consume =>
    simp only [World.step]
    cases w.plog[w.consumed]? with
    | none => exact hr
    | some e => simp [FSub.step, hr]
  | parentReady plist => simp only [World.step, FSub.step]; split <;> simp [hr]
  | refilter f plist => simp only [World.step, FSub.step]; repeat' split; all_goals simp_all

end

/-! non-vacuity: a deferred subscription becomes ready only after parent readiness and a Refilter -/
section
def exKey (o : Nat × Int) : Nat := o.1
def exVer (o : Nat × Int) : Option Int := some o.2
def exAcc (f : Bool) (o : Nat × Int) : Bool := f && o.2 % 2 == 0
def exFeq (a b : Bool) : Bool := a == b
def exD : World Nat (Nat × Int) Bool := ⟨fun _ => none, [], 0, FSub.init true false⟩
example : (exD.step exKey exVer exAcc exFeq 100 (.parentReady [])).fs.ready = false := by decide
example : ((exD.step exKey exVer exAcc exFeq 100 (.parentReady [])).step exKey exVer exAcc exFeq 100
    (.refilter true [])).fs.ready = true := by decide
end

end KC.C08

#print axioms KC.C08.ready_closed_once
#print axioms KC.C08.no_event_before_ready
#print axioms KC.C08.fsub_ready_implies_synced
#print axioms KC.C08.deferred_ready_needs_parent_and_filter
#print axioms KC.C08.unready_deferred
#print axioms KC.C08.ready_stable
