/- helper definitions and lemmas (invariants and their preservation) behind the property theorems of Props/C12.lean -/
import KcacheModel.Life
import KcacheModel.Proofs.Life
namespace KC.C12
open KC KC.C11

/-- the labels that are the library's own doing (as opposed to a caller's Close) -/
def internal : LLabel → Bool
  | .close _ => false
  | _ => true

theorem step_len (s : Life) (l : LLabel) : (s.step l).len = s.len := by cases l <;> rfl
theorem step_parent (s : Life) (l : LLabel) : (s.step l).parent = s.parent := by cases l <;> rfl
theorem step_WF (s : Life) (l : LLabel) (h : s.WF) : (s.step l).WF := by
  intro c h1 h2; rw [step_len] at h2; rw [step_parent]; exact h c h1 h2

theorem not_terminal (s : Life) (h : ¬ s.terminal) : ∃ l, internal l = true ∧ s.enabled l = true := by
  unfold Life.terminal at h
  have : ∃ i, ¬ (s.enabled (.stop i) = false ∧ s.enabled (.finish i) = false) := Classical.not_forall.mp h
  obtain ⟨i, hi⟩ := this
  by_cases h1 : s.enabled (.stop i) = true
  · exact ⟨.stop i, rfl, h1⟩
  · have h1' : s.enabled (.stop i) = false := by simpa using h1
    have h2 : s.enabled (.finish i) = true := by
      cases hf : s.enabled (.finish i) with
      | true => rfl
      | false => exact absurd ⟨h1', hf⟩ hi
    exact ⟨.finish i, rfl, h2⟩

end KC.C12
