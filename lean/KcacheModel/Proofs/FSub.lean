/- invariants of the filtered-subscription world (for C06, C07, C08) -/
import KcacheModel.FSubWorld
namespace KC
open AL

section
variable {K O F : Type} [DecidableEq K]
variable (key : O → K) (ver : O → Option Int) (accF : F → O → Bool) (feq : F → F → Bool) (cap : Nat)

/-! ### parent content along its log -/

theorem pcontent_zero (w : World K O F) : w.pcontent key ver 0 = w.p0 := by
  simp [World.pcontent]

theorem pcontent_succ (w : World K O F) (i : Nat) (e : Ev O) (h : w.plog[i]? = some e) :
    w.pcontent key ver (i + 1) = papply key ver (w.pcontent key ver i) e := by
  have hi : i < w.plog.length := by
    rcases Nat.lt_or_ge i w.plog.length with h' | h'
    · exact h'
    · rw [List.getElem?_eq_none h'] at h; cases h
  have he : w.plog[i] = e := by
    rw [List.getElem?_eq_getElem hi] at h; exact Option.some.inj h
  unfold World.pcontent
  rw [List.take_succ_eq_append_getElem hi, List.foldl_append, he]
  rfl

theorem pcontent_append (w : World K O F) (e : Ev O) (i : Nat) (hi : i ≤ w.plog.length) :
    World.pcontent key ver { w with plog := w.plog ++ [e] } i = w.pcontent key ver i := by
  unfold World.pcontent
  simp only
  rw [List.take_append_of_le_length hi]

theorem papply_frame (a : AMap K O) (e : Ev O) (k : K) (hk : key e.obj ≠ k) : papply key ver a e k = a k := by
  unfold papply
  have hk' : ¬ k = key e.obj := fun h => hk h.symm
  cases e.t <;> simp only [] <;> (try cases ver e.obj) <;> simp [AMap.set, hk']

/-- no event on `k` between `s` and `t`: the content at `k` is the same -/
theorem pcontent_stable (w : World K O F) (k : K) (s t : Nat) (hst : s ≤ t) (ht : t ≤ w.plog.length)
    (h : ∀ i, s ≤ i → i < t → ∀ e, w.plog[i]? = some e → key e.obj ≠ k) :
    w.pcontent key ver t k = w.pcontent key ver s k := by
  induction t with
  | zero =>
    have : s = 0 := by omega
    subst this; rfl
  | succ t ih =>
    by_cases hs : s = t + 1
    · subst hs; rfl
    · have hst' : s ≤ t := by omega
      have hlt : t < w.plog.length := by omega
      have he : w.plog[t]? = some w.plog[t] := List.getElem?_eq_getElem hlt
      rw [pcontent_succ key ver w t _ he, papply_frame key ver _ _ k (h t hst' (by omega) _ he)]
      exact ih hst' (by omega) (fun i h1 h2 e he => h i h1 (by omega) e he)

/-! ### one event applied to the parent and consumed by the child, on the event's own key -/

/-- in step with the parent: a well-formed event keeps the child's view in step -/
theorem capply_in_step (acc : O → Bool) (a : AMap K O) (e : Ev O) (v : Int) (hv : ver e.obj = some v)
    (hwf : (applyEv key ver a e).isSome) :
    capply acc (view acc (a (key e.obj))) e.t v e.obj = view acc (papply key ver a e (key e.obj)) := by
  unfold applyEv at hwf
  unfold papply capply
  cases ht : e.t with
  | delete => simp [AMap.set, view]
  | create =>
    simp only [ht, hv] at hwf
    cases hak : a (key e.obj) with
    | none => simp [AMap.set, view, hv]
    | some c => simp [hak] at hwf
  | update =>
    simp only [ht, hv] at hwf
    cases hak : a (key e.obj) with
    | none => simp [hak] at hwf
    | some c =>
      simp only [hak] at hwf
      by_cases hlt : c.ver < v
      · by_cases hc : acc c.obj = true <;> simp [AMap.set, view, hv, hc, hlt]
      · simp [hlt] at hwf

/-- an event that is already reflected in what the child holds: either it brings the child to the
content right after that event, or (a not-newer upsert) it changes nothing -/
theorem capply_reflected (acc : O → Bool) (a : AMap K O) (e : Ev O) (v : Int) (hv : ver e.obj = some v)
    (cur : Option (Entry O)) :
    capply acc cur e.t v e.obj = view acc (papply key ver a e (key e.obj)) ∨
    (capply acc cur e.t v e.obj = cur ∧ e.t ≠ .delete) := by
  unfold papply capply
  cases ht : e.t with
  | delete => left; simp [AMap.set, view]
  | create | update =>
    simp only [hv]
    cases cur with
    | none => left; simp [AMap.set, view]
    | some c =>
      by_cases hlt : c.ver < v
      · left; simp [AMap.set, view, hlt]
      · right; simp [hlt]

end
end KC

namespace KC
open AL
section
variable {K O F : Type} [DecidableEq K]
variable (key : O → K) (ver : O → Option Int) (accF : F → O → Bool) (feq : F → F → Bool) (cap : Nat)

/-- the per-key cut: the child holds, for key `k`, the filtered parent content at some index `s`,
and every parent event on `k` from `s` on is still waiting to be consumed -/
def CutAt (w : World K O F) (k : K) (s : Nat) : Prop :=
  s ≤ w.plog.length ∧
  lookup k w.fs.items = view (accF w.fs.cfilter) (w.pcontent key ver s k) ∧
  ∀ i, s ≤ i → ∀ e, w.plog[i]? = some e → key e.obj = k → w.consumed ≤ i

def CutInv (w : World K O F) : Prop := ∀ k, ∃ s, CutAt key ver accF w k s

structure Inv (w : World K O F) : Prop where
  cons_le : w.consumed ≤ w.plog.length
  filt : w.fs.filter = w.fs.cfilter
  notready_empty : w.fs.ready = false → w.fs.items = [] ∧ w.fs.out = []
  notready_pseen : w.fs.ready = false → w.fs.pseen = true → w.fs.deferReady = true ∧ w.fs.pending = false
  rejectall : w.fs.deferReady = true → w.fs.pending = false → w.fs.ready = false → ∀ o, accF w.fs.cfilter o = false
  ready_pseen : w.fs.ready = true → w.fs.pseen = true
  closes : w.fs.readyCloses = if w.fs.ready then 1 else 0
  pending_seen : w.fs.pending = true → w.fs.refilterSeen = true
  ready_seen : w.fs.ready = true → w.fs.deferReady = true → w.fs.refilterSeen = true
  last : ∀ o, accF w.fs.cfilter o = accF w.fs.lastF o
  wf : ∀ i e, w.plog[i]? = some e → (applyEv key ver (w.pcontent key ver i) e).isSome ∧ (ver e.obj).isSome
  cut : w.fs.ready = true → CutInv key ver accF w

theorem doSync_nil_nil (acc : O → Bool) : doSync key ver acc ([] : Items K O) [] = ([], []) := by
  simp [doSync, syncFold, keep, dropped]

theorem view_rejectall (acc : O → Bool) (h : ∀ o, acc o = false) (x : Option (Entry O)) : view acc x = none := by
  cases x <;> simp [view, h]

theorem view_some_eq {acc : O → Bool} {x : Option (Entry O)} {c : Entry O} (h : view acc x = some c) :
    x = some c ∧ acc c.obj = true := by
  cases x with
  | none => simp [view] at h
  | some e =>
    simp only [view] at h
    split at h
    · rename_i ha; cases h; exact ⟨rfl, ha⟩
    · cases h

theorem inv_init (p0 : AMap K O) (deferReady : Bool) (f0 : F) (h : deferReady = true → ∀ o, accF f0 o = false) :
    Inv key ver accF (⟨p0, [], 0, FSub.init deferReady f0⟩ : World K O F) := by
  refine ⟨by simp, rfl, fun _ => ⟨rfl, rfl⟩, ?_, ?_, ?_, by simp [FSub.init], ?_, ?_, fun _ => rfl, ?_, ?_⟩ <;>
    simp [FSub.init] <;> first | exact h | skip

/-- the synced-at-`n` cut: right after a sync against a snapshot of the current parent content -/
theorem cut_now (w : World K O F) (k : K)
    (h : lookup k w.fs.items = view (accF w.fs.cfilter) (w.pnow key ver k)) :
    CutAt key ver accF w k w.plog.length := by
  refine ⟨Nat.le_refl _, h, ?_⟩
  intro i hi e he
  rw [List.getElem?_eq_none hi] at he; cases he

theorem inv_parentApply (w : World K O F) (e : Ev O) (hi : Inv key ver accF w)
    (hen : w.enabled key ver (.parentApply e)) : Inv key ver accF (w.step key ver accF feq cap (.parentApply e)) := by
  simp only [World.step]
  refine ⟨?_, hi.filt, hi.notready_empty, hi.notready_pseen, hi.rejectall, hi.ready_pseen, hi.closes,
    hi.pending_seen, hi.ready_seen, hi.last, ?_, ?_⟩
  · simp only [List.length_append, List.length_singleton]; have := hi.cons_le; omega
  · intro i e' he'
    by_cases hlt : i < w.plog.length
    · rw [pcontent_append key ver w e i (by omega)]
      rw [List.getElem?_append_left hlt] at he'
      exact hi.wf i e' he'
    · have hge : w.plog.length ≤ i := by omega
      rw [List.getElem?_append_right hge] at he'
      have : i = w.plog.length := by
        rcases Nat.eq_or_lt_of_le hge with h | h
        · exact h.symm
        · rw [List.getElem?_eq_none (by simp; omega)] at he'; cases he'
      subst this
      simp only [Nat.sub_self, List.getElem?_cons_zero, Option.some.injEq] at he'
      subst he'
      rw [pcontent_append key ver w _ _ (Nat.le_refl _)]
      exact hen
  · intro hr k
    obtain ⟨s, hs, hl, hp⟩ := hi.cut hr k
    refine ⟨s, ?_, ?_, ?_⟩
    · simp only [List.length_append, List.length_singleton]; omega
    · simp only; rw [pcontent_append key ver w e s hs]; exact hl
    · intro i his e' he' hk
      simp only at he' ⊢
      by_cases hlt : i < w.plog.length
      · rw [List.getElem?_append_left hlt] at he'
        exact hp i his e' he' hk
      · have := hi.cons_le; omega

theorem inv_stop (w : World K O F) (hi : Inv key ver accF w) :
    Inv key ver accF (w.step key ver accF feq cap .stop) := by
  simp only [World.step, FSub.step]
  exact ⟨hi.cons_le, hi.filt, hi.notready_empty, hi.notready_pseen, hi.rejectall, hi.ready_pseen, hi.closes,
    hi.pending_seen, hi.ready_seen, hi.last, hi.wf, hi.cut⟩

end
end KC

namespace KC
open AL
section
variable {K O F : Type} [DecidableEq K]
variable (key : O → K) (ver : O → Option Int) (accF : F → O → Bool) (feq : F → F → Bool) (cap : Nat)

/-- build a cut for a world that differs from `w` only in `consumed` and `fs` -/
theorem cutAt_mk (w : World K O F) (fs' : FSub K O F) (c' : Nat) (k : K) (s : Nat) (hs : s ≤ w.plog.length)
    (hl : lookup k fs'.items = view (accF fs'.cfilter) (w.pcontent key ver s k))
    (hp : ∀ i, s ≤ i → ∀ e, w.plog[i]? = some e → key e.obj = k → c' ≤ i) :
    CutAt key ver accF { w with consumed := c', fs := fs' } k s := ⟨hs, hl, hp⟩

theorem inv_consume (w : World K O F) (hi : Inv key ver accF w)
    (hen : w.enabled key ver .consume) : Inv key ver accF (w.step key ver accF feq cap .consume) := by
  obtain ⟨hlt, _⟩ := hen
  have he : w.plog[w.consumed]? = some w.plog[w.consumed] := List.getElem?_eq_getElem hlt
  generalize hee : w.plog[w.consumed] = e at he
  simp only [World.step, he]
  obtain ⟨hwf, hvs⟩ := hi.wf _ _ he
  obtain ⟨v, hv⟩ := Option.isSome_iff_exists.mp hvs
  by_cases hr : w.fs.ready = true
  · -- ready: the event is applied to the child's cache
    have hstep : FSub.step key ver accF feq cap w.fs (.parentEvent e.t e.obj) =
        { w.fs with items := (doUpdate key ver (accF w.fs.cfilter) w.fs.items e.t e.obj).1,
                    out := offerAll cap w.fs.out (doUpdate key ver (accF w.fs.cfilter) w.fs.items e.t e.obj).2 } := by
      simp [FSub.step, hr]
    rw [hstep]
    refine ⟨by simp only; omega, hi.filt, ?_, ?_, ?_, hi.ready_pseen, hi.closes, hi.pending_seen, hi.ready_seen, hi.last, hi.wf, ?_⟩
    · intro h; simp only at h; rw [hr] at h; cases h
    · intro h; simp only at h; rw [hr] at h; cases h
    · intro _ _ h; simp only at h; rw [hr] at h; cases h
    · intro _ k
      obtain ⟨s, hs, hl, hp⟩ := hi.cut hr k
      by_cases hk : key e.obj = k
      · subst hk
        rcases Nat.lt_or_ge w.consumed s with hcs | hsc
        · -- already reflected in what the child holds
          rcases capply_reflected key ver (accF w.fs.cfilter) (w.pcontent key ver w.consumed) e v hv
              (lookup (key e.obj) w.fs.items) with h1 | ⟨h1, _⟩
          · refine ⟨w.consumed + 1, cutAt_mk key ver accF w _ _ _ _ (by omega) ?_ (fun i hi' _ _ _ => hi')⟩
            show lookup (key e.obj) (doUpdate key ver (accF w.fs.cfilter) w.fs.items e.t e.obj).1 = _
            rw [doUpdate_own key ver _ _ _ _ v hv, h1, pcontent_succ key ver w _ _ he]
          · refine ⟨s, cutAt_mk key ver accF w _ _ _ _ hs ?_ (fun i hi' e' he' hk' => by omega)⟩
            show lookup (key e.obj) (doUpdate key ver (accF w.fs.cfilter) w.fs.items e.t e.obj).1 = _
            rw [doUpdate_own key ver _ _ _ _ v hv, h1]; exact hl
        · -- in step with the parent: nothing on this key between the cut and this event
          have hstab : w.pcontent key ver w.consumed (key e.obj) = w.pcontent key ver s (key e.obj) := by
            apply pcontent_stable key ver w _ s w.consumed hsc (by omega)
            intro i h1 h2 e' he' hk'
            have := hp i h1 e' he' hk'
            omega
          refine ⟨w.consumed + 1, cutAt_mk key ver accF w _ _ _ _ (by omega) ?_ (fun i hi' _ _ _ => hi')⟩
          show lookup (key e.obj) (doUpdate key ver (accF w.fs.cfilter) w.fs.items e.t e.obj).1 = _
          rw [doUpdate_own key ver _ _ _ _ v hv, hl, ← hstab,
            capply_in_step key ver _ _ e v hv hwf, pcontent_succ key ver w _ _ he]
      · refine ⟨s, cutAt_mk key ver accF w _ _ _ _ hs ?_ ?_⟩
        · show lookup k (doUpdate key ver (accF w.fs.cfilter) w.fs.items e.t e.obj).1 = _
          rw [doUpdate_frame key ver _ _ _ _ k hk]; exact hl
        · intro i hi' e' he' hk'
          have h1 := hp i hi' e' he' hk'
          have : i ≠ w.consumed := by
            intro heq; subst heq
            rw [he] at he'; cases he'; exact hk hk'
          omega
  · -- not ready: the event is dropped
    have hr' : w.fs.ready = false := by simpa using hr
    have hstep : FSub.step key ver accF feq cap w.fs (.parentEvent e.t e.obj) = w.fs := by
      simp [FSub.step, hr']
    rw [hstep]
    exact ⟨by simp only; omega, hi.filt, hi.notready_empty, hi.notready_pseen, hi.rejectall, hi.ready_pseen,
      hi.closes, hi.pending_seen, hi.ready_seen, hi.last, hi.wf, fun h => by rw [hr'] at h; cases h⟩

/-- a sync of an empty cache against a snapshot yields the filtered snapshot, key by key -/
theorem sync_from_empty (acc : O → Bool) (plist : List O) (a : AMap K O) (hs : Snapshot key ver plist a) (k : K) :
    lookup k (doSync key ver acc ([] : Items K O) plist).1 = view acc (a k) := by
  rw [doSync_snapshot key ver acc [] plist a hs k]
  cases a k <;> simp [csync, view]

/-- a cut at the current index for a world that differs from `w` only in `fs` -/
theorem cut_now_mk (w : World K O F) (fs' : FSub K O F) (k : K)
    (hl : lookup k fs'.items = view (accF fs'.cfilter) (w.pnow key ver k)) :
    ∃ s, CutAt key ver accF { w with fs := fs' } k s :=
  ⟨w.plog.length, Nat.le_refl _, hl, by
    intro i hi e he
    have : w.plog[i]? = none := List.getElem?_eq_none hi
    rw [this] at he; cases he⟩

theorem inv_parentReady (w : World K O F) (plist : List O) (hi : Inv key ver accF w)
    (hen : w.enabled key ver (.parentReady plist)) :
    Inv key ver accF (w.step key ver accF feq cap (.parentReady plist)) := by
  obtain ⟨he, hsnap⟩ := hen
  simp only [FSub.enabled, Bool.and_eq_true, Bool.not_eq_true'] at he
  have hps : w.fs.pseen = false := he.2
  have hnr : w.fs.ready = false := by
    cases hr : w.fs.ready with
    | false => rfl
    | true => rw [hi.ready_pseen hr] at hps; cases hps
  obtain ⟨hitems, hout⟩ := hi.notready_empty hnr
  have hcl : w.fs.readyCloses = 0 := by have := hi.closes; rw [hnr] at this; simpa using this
  simp only [World.step]
  by_cases hd : (w.fs.deferReady && !w.fs.pending) = true
  · have hstep : FSub.step key ver accF feq cap w.fs (.parentReady plist) = { w.fs with pseen := true } := by
      simp [FSub.step, hd]
    rw [hstep]
    simp only [Bool.and_eq_true, Bool.not_eq_true'] at hd
    exact ⟨hi.cons_le, hi.filt, hi.notready_empty, fun _ _ => hd, hi.rejectall, fun _ => rfl, hi.closes,
      hi.pending_seen, hi.ready_seen, hi.last, hi.wf, (fun h => by rw [show w.fs.ready = true from h] at hnr; cases hnr)⟩
  · have hstep : FSub.step key ver accF feq cap w.fs (.parentReady plist) =
        { w.fs with pseen := true, items := (doSync key ver (accF w.fs.cfilter) w.fs.items plist).1, ready := true,
                    readyCloses := w.fs.readyCloses + 1 } := by
      simp [FSub.step, hd]
    rw [hstep]
    refine ⟨hi.cons_le, hi.filt, (fun h => by cases h), (fun h => by cases h), (fun _ _ h => by cases h), fun _ => rfl,
      (by simp [hcl]), hi.pending_seen, ?_, hi.last, hi.wf, ?_⟩
    · intro _ hdef
      have hdef' : w.fs.deferReady = true := hdef
      have : w.fs.pending = true := by
        cases hp : w.fs.pending with
        | true => rfl
        | false => simp [hdef', hp] at hd
      exact hi.pending_seen this
    · intro _ k
      refine cut_now_mk key ver accF w _ k ?_
      show lookup k (doSync key ver (accF w.fs.cfilter) w.fs.items plist).1 = _
      rw [hitems]
      exact sync_from_empty key ver _ plist _ hsnap k

theorem inv_refilter (hfeq : ∀ f g, feq f g = true → ∀ o, accF f o = accF g o)
    (w : World K O F) (f : F) (plist : List O) (hi : Inv key ver accF w)
    (hen : w.enabled key ver (.refilter f plist)) :
    Inv key ver accF (w.step key ver accF feq cap (.refilter f plist)) := by
  obtain ⟨_, hsnap⟩ := hen
  have hsame : feq w.fs.filter f = true → ∀ o, accF w.fs.cfilter o = accF f o := by
    intro h o; rw [← hi.filt]; exact hfeq _ _ h o
  simp only [World.step]
  by_cases hps : w.fs.pseen = true
  · -- the parent's readiness has been seen
    by_cases hnew : feq w.fs.filter f = true
    · -- unchanged filter
      by_cases hr : w.fs.ready = true
      · have hstep : FSub.step key ver accF feq cap w.fs (.refilter f plist) = { w.fs with refilterSeen := true, lastF := f } := by
          simp [FSub.step, hps, hnew, hr]
        rw [hstep]
        exact ⟨hi.cons_le, hi.filt, hi.notready_empty, hi.notready_pseen, hi.rejectall, hi.ready_pseen, hi.closes,
          fun _ => rfl, fun _ _ => rfl, hsame hnew, hi.wf, hi.cut⟩
      · have hr' : w.fs.ready = false := by simpa using hr
        obtain ⟨hitems, _⟩ := hi.notready_empty hr'
        obtain ⟨hdef, hpend⟩ := hi.notready_pseen hr' hps
        have hrej := hi.rejectall hdef hpend hr'
        have hcl : w.fs.readyCloses = 0 := by have := hi.closes; rw [hr'] at this; simpa using this
        have hstep : FSub.step key ver accF feq cap w.fs (.refilter f plist) =
            { w.fs with refilterSeen := true, lastF := f, ready := true, readyCloses := w.fs.readyCloses + 1 } := by
          simp [FSub.step, hps, hnew, hr']
        rw [hstep]
        refine ⟨hi.cons_le, hi.filt, (fun h => by cases h), (fun h => by cases h), (fun _ _ h => by cases h), fun _ => hps,
          (by simp [hcl]), fun _ => rfl, fun _ _ => rfl, hsame hnew, hi.wf, ?_⟩
        intro _ k
        refine cut_now_mk key ver accF w _ k ?_
        show lookup k w.fs.items = view (accF w.fs.cfilter) _
        rw [hitems, view_rejectall _ hrej]; rfl
    · -- a new filter: reconcile against the parent's content
      have hnew' : feq w.fs.filter f = false := by simpa using hnew
      by_cases hr : w.fs.ready = true
      · have hstep : FSub.step key ver accF feq cap w.fs (.refilter f plist) =
            { w.fs with refilterSeen := true, lastF := f, items := (doSync key ver (accF f) w.fs.items plist).1, cfilter := f,
                        filter := f, out := offerAll cap w.fs.out (doSync key ver (accF f) w.fs.items plist).2 } := by
          simp [FSub.step, hps, hnew', hr]
        rw [hstep]
        refine ⟨hi.cons_le, rfl, (fun h => by rw [show w.fs.ready = false from h] at hr; cases hr),
          (fun h => by rw [show w.fs.ready = false from h] at hr; cases hr),
          (fun _ _ h => by rw [show w.fs.ready = false from h] at hr; cases hr),
          fun _ => hps, hi.closes, fun _ => rfl, fun _ _ => rfl, fun _ => rfl, hi.wf, ?_⟩
        intro _ k
        obtain ⟨s, hs, hl, hp⟩ := hi.cut hr k
        have hnow : lookup k (doSync key ver (accF f) w.fs.items plist).1 =
            csync (accF f) (lookup k w.fs.items) (w.pnow key ver k) :=
          doSync_snapshot key ver _ _ plist _ hsnap k
        -- kept entries keep their cut, everything else is synced at the current index
        cases hP : w.pnow key ver k with
        | none =>
          refine cut_now_mk key ver accF w _ k ?_
          show lookup k (doSync key ver (accF f) w.fs.items plist).1 = view (accF f) _
          rw [hnow, hP]; simp [csync, view]
        | some sn =>
          cases hc : lookup k w.fs.items with
          | none =>
            refine cut_now_mk key ver accF w _ k ?_
            show lookup k (doSync key ver (accF f) w.fs.items plist).1 = view (accF f) _
            rw [hnow, hP, hc]; simp [csync]
          | some c =>
            by_cases hv : c.ver < sn.ver
            · refine cut_now_mk key ver accF w _ k ?_
              show lookup k (doSync key ver (accF f) w.fs.items plist).1 = view (accF f) _
              rw [hnow, hP, hc]; simp [csync, hv]
            · refine ⟨s, hs, ?_, hp⟩
              show lookup k (doSync key ver (accF f) w.fs.items plist).1 = view (accF f) (w.pcontent key ver s k)
              rw [hnow, hP, hc]
              rw [hc] at hl
              obtain ⟨hps', _⟩ := view_some_eq hl.symm
              rw [hps']; simp [csync, hv]
      · have hr' : w.fs.ready = false := by simpa using hr
        obtain ⟨hitems, _⟩ := hi.notready_empty hr'
        have hcl : w.fs.readyCloses = 0 := by have := hi.closes; rw [hr'] at this; simpa using this
        have hstep : FSub.step key ver accF feq cap w.fs (.refilter f plist) =
            { w.fs with refilterSeen := true, lastF := f, items := (doSync key ver (accF f) w.fs.items plist).1, cfilter := f,
                        filter := f, ready := true, readyCloses := w.fs.readyCloses + 1 } := by
          simp [FSub.step, hps, hnew', hr']
        rw [hstep]
        refine ⟨hi.cons_le, rfl, (fun h => by cases h), (fun h => by cases h), (fun _ _ h => by cases h), fun _ => hps,
          (by simp [hcl]), fun _ => rfl, fun _ _ => rfl, fun _ => rfl, hi.wf, ?_⟩
        intro _ k
        refine cut_now_mk key ver accF w _ k ?_
        show lookup k (doSync key ver (accF f) w.fs.items plist).1 = view (accF f) _
        rw [hitems]
        exact sync_from_empty key ver _ plist _ hsnap k
  · -- the parent is not known to be ready yet: remember the request
    have hps' : w.fs.pseen = false := by simpa using hps
    have hnr : w.fs.ready = false := by
      cases hr : w.fs.ready with
      | false => rfl
      | true => rw [hi.ready_pseen hr] at hps'; cases hps'
    obtain ⟨hitems, hout⟩ := hi.notready_empty hnr
    by_cases hnew : feq w.fs.filter f = true
    · have hstep : FSub.step key ver accF feq cap w.fs (.refilter f plist) =
          { w.fs with refilterSeen := true, lastF := f, pending := true } := by
        simp [FSub.step, hps', hnew]
      rw [hstep]
      exact ⟨hi.cons_le, hi.filt, hi.notready_empty, (fun _ h => by rw [show w.fs.pseen = true from h] at hps'; cases hps'),
        (fun _ h => by cases h), hi.ready_pseen, hi.closes, fun _ => rfl, fun _ _ => rfl, hsame hnew, hi.wf, hi.cut⟩
    · have hnew' : feq w.fs.filter f = false := by simpa using hnew
      have hstep : FSub.step key ver accF feq cap w.fs (.refilter f plist) =
          { w.fs with refilterSeen := true, lastF := f, items := [], cfilter := f, filter := f, pending := true } := by
        simp [FSub.step, hps', hnew', hitems, doSync_nil_nil]
      rw [hstep]
      exact ⟨hi.cons_le, rfl, fun _ => ⟨rfl, hout⟩, (fun _ h => by rw [show w.fs.pseen = true from h] at hps'; cases hps'),
        (fun _ h => by cases h), (fun h => by rw [show w.fs.ready = true from h] at hnr; cases hnr), hi.closes,
        fun _ => rfl, fun _ _ => rfl, fun _ => rfl, hi.wf, (fun h => by rw [show w.fs.ready = true from h] at hnr; cases hnr)⟩

/-- **the invariant holds in every reachable state** -/
theorem reach_inv (hfeq : ∀ f g, feq f g = true → ∀ o, accF f o = accF g o)
    {w : World K O F} (h : Reach key ver accF feq cap w) : Inv key ver accF w := by
  induction h with
  | init p0 d f0 h => exact inv_init key ver accF p0 d f0 h
  | step w l _ hen ih =>
    cases l with
    | parentApply e => exact inv_parentApply key ver accF feq cap w e ih hen
    | consume => exact inv_consume key ver accF feq cap w ih hen
    | parentReady plist => exact inv_parentReady key ver accF feq cap w plist ih hen
    | refilter f plist => exact inv_refilter key ver accF feq cap hfeq w f plist ih hen
    | stop => exact inv_stop key ver accF feq cap w ih

end
end KC

namespace KC
open AL
section
variable {K O F : Type} [DecidableEq K]
variable (key : O → K) (ver : O → Option Int) (accF : F → O → Bool) (feq : F → F → Bool) (cap : Nat)

theorem view_congr {a b : O → Bool} (h : ∀ o, a o = b o) (x : Option (Entry O)) : view a x = view b x := by
  cases x <;> simp [view, h]

/-- the child's stored items are well-formed in every reachable state -/
theorem reach_wf {w : World K O F} (h : Reach key ver accF feq cap w) : WF key w.fs.items := by
  induction h with
  | init => exact WF_nil key
  | step w l _ _ ih =>
    cases l with
    | parentApply e => exact ih
    | stop => exact ih
    | consume =>
      simp only [World.step]
      cases he : w.plog[w.consumed]? with
      | none => exact ih
      | some e =>
        simp only [FSub.step]
        split
        · exact ih
        · exact doUpdate_WF key ver _ _ _ _ ih
    | parentReady plist =>
      simp only [World.step, FSub.step]
      split
      · exact ih
      · exact doSync_WF key ver _ _ _ ih
    | refilter f plist =>
      simp only [World.step, FSub.step]
      repeat' split
      all_goals first | exact ih | exact doSync_WF key ver _ _ _ ih

/-- the step that closes `readych` leaves the cache exactly synced with the parent's current content -/
theorem ready_step_synced (w : World K O F) (l : WLabel O F) (hi : Inv key ver accF w)
    (hen : w.enabled key ver l) (hnr : w.fs.ready = false)
    (hr : (w.step key ver accF feq cap l).fs.ready = true) (k : K) :
    lookup k (w.step key ver accF feq cap l).fs.items
      = view (accF (w.step key ver accF feq cap l).fs.cfilter) ((w.step key ver accF feq cap l).pnow key ver k) := by
  obtain ⟨hitems, _⟩ := hi.notready_empty hnr
  cases l with
  | parentApply e => simp only [World.step] at hr; rw [hnr] at hr; cases hr
  | stop => simp only [World.step, FSub.step] at hr; rw [hnr] at hr; cases hr
  | consume =>
    simp only [World.step] at hr
    cases he : w.plog[w.consumed]? with
    | none => simp only [he] at hr; rw [hnr] at hr; cases hr
    | some e => simp [he, FSub.step, hnr] at hr
  | parentReady plist =>
    obtain ⟨_, hsnap⟩ := hen
    simp only [World.step, FSub.step] at hr ⊢
    by_cases hd : (w.fs.deferReady && !w.fs.pending) = true
    · simp only [hd, ↓reduceIte] at hr; rw [hnr] at hr; cases hr
    · simp only [hd, Bool.false_eq_true, ↓reduceIte, hitems]
      exact sync_from_empty key ver _ plist _ hsnap k
  | refilter f plist =>
    obtain ⟨_, hsnap⟩ := hen
    simp only [World.step, FSub.step] at hr ⊢
    by_cases hps : w.fs.pseen = true
    · by_cases hnew : feq w.fs.filter f = true
      · obtain ⟨hdef, hpend⟩ := hi.notready_pseen hnr hps
        have hrej := hi.rejectall hdef hpend hnr
        simp only [hps, hnew, hnr, Bool.not_true, Bool.false_and, Bool.and_false, Bool.false_eq_true, ↓reduceIte,
          Bool.not_false, Bool.and_self, hitems]
        rw [view_rejectall _ hrej]; rfl
      · have hnew' : feq w.fs.filter f = false := by simpa using hnew
        simp only [hps, hnew', hnr, Bool.not_true, Bool.false_and, Bool.not_false, Bool.and_true, Bool.false_eq_true,
          ↓reduceIte, Bool.and_false, Bool.and_self, hitems]
        exact sync_from_empty key ver _ plist _ hsnap k
    · have hps' : w.fs.pseen = false := by simpa using hps
      by_cases hnew : feq w.fs.filter f = true
      · simp [hps', hnew, hnr] at hr
      · have hnew' : feq w.fs.filter f = false := by simpa using hnew
        simp [hps', hnew', hnr] at hr

end
end KC

namespace KC
section
variable {K O F : Type} [DecidableEq K]
variable (key : O → K) (ver : O → Option Int) (accF : F → O → Bool) (feq : F → F → Bool) (cap : Nat)

theorem step_refilter_lastF (s : FSub K O F) (f : F) (plist : List O) :
    (FSub.step key ver accF feq cap s (.refilter f plist)).lastF = f := by
  simp only [FSub.step]
  repeat' split
  all_goals rfl

theorem step_ready_stable (s : FSub K O F) (l : FLabel O F) (hr : s.ready = true) :
    (FSub.step key ver accF feq cap s l).ready = true := by
  cases l with
  | stop => exact hr
  | parentEvent t o => simp [FSub.step, hr]
  | parentReady plist => simp only [FSub.step]; split <;> simp [hr]
  | refilter f plist => simp only [FSub.step]; repeat' split; all_goals simp_all

end
end KC
