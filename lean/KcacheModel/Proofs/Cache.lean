/- helper lemmas about the cache model (for C01, C02; reused by C03, C06, C07) -/
import KcacheModel.Cache
namespace KC
open AL

section
variable {K O : Type} [DecidableEq K]
variable (key : O → K) (ver : O → Option Int) (acc : O → Bool)

/-! ### well-formed items: no key bound twice, every entry stored under its own key -/

def WF (m : Items K O) : Prop := NodupKeys m ∧ ∀ k e, lookup k m = some e → key e.obj = k

theorem WF_nil : WF key ([] : Items K O) := ⟨by simp [NodupKeys, keys], by simp⟩

theorem WF_insert {m : Items K O} (h : WF key m) (o : O) (v : Int) : WF key (insert (key o) ⟨v, o⟩ m) := by
  refine ⟨nodup_insert _ _ h.1, ?_⟩
  intro k e he
  rw [lookup_insert] at he
  split at he
  · rename_i hk; cases he; exact hk
  · exact h.2 k e he

theorem WF_erase {m : Items K O} (h : WF key m) (k' : K) : WF key (erase k' m) := by
  refine ⟨nodup_erase _ h.1, ?_⟩
  intro k e he
  rw [lookup_erase] at he
  split at he
  · cases he
  · exact h.2 k e he

/-! ### keep / dropped -/

theorem lookup_keep_not_mem (set : List K) (m : Items K O) (k : K) (h : k ∉ set) :
    lookup k (keep set m) = none := by
  induction m with
  | nil => rfl
  | cons p rest ih =>
    obtain ⟨k', e⟩ := p
    by_cases hm : k' ∈ set
    · have : k' ≠ k := fun hh => h (hh ▸ hm)
      simp [keep, hm, this, ih]
    · simp [keep, hm, ih]

theorem lookup_keep_mem (set : List K) (m : Items K O) (k : K) (h : k ∈ set) :
    lookup k (keep set m) = lookup k m := by
  induction m with
  | nil => rfl
  | cons p rest ih =>
    obtain ⟨k', e⟩ := p
    by_cases hk : k' = k
    · subst hk; simp [keep, h]
    · by_cases hm : k' ∈ set <;> simp [keep, hm, hk, ih]

theorem lookup_keep (set : List K) (m : Items K O) (k : K) :
    lookup k (keep set m) = if k ∈ set then lookup k m else none := by
  split
  · rename_i h; exact lookup_keep_mem set m k h
  · rename_i h; exact lookup_keep_not_mem set m k h

theorem keys_keep_sub (set : List K) (m : Items K O) : ∀ k, k ∈ keys (keep set m) → k ∈ keys m := by
  induction m with
  | nil => simp [keep, keys]
  | cons p rest ih =>
    obtain ⟨k', e⟩ := p
    intro k hk
    by_cases hm : k' ∈ set
    · simp [keep, hm, keys] at hk ⊢
      rcases hk with hk | hk
      · exact Or.inl hk
      · exact Or.inr (by simpa [keys] using ih k (by simpa [keys] using hk))
    · simp [keep, hm] at hk
      simp [keys]
      exact Or.inr (by simpa [keys] using ih k hk)

theorem WF_keep {m : Items K O} (h : WF key m) (set : List K) : WF key (keep set m) := by
  refine ⟨?_, ?_⟩
  · have hn := h.1
    clear h
    induction m with
    | nil => simp [keep, NodupKeys, keys]
    | cons p rest ih =>
      obtain ⟨k', e⟩ := p
      simp only [NodupKeys, keys, List.map_cons, List.nodup_cons] at hn
      have ih' := ih (by simpa [NodupKeys, keys] using hn.2)
      by_cases hm : k' ∈ set
      · simp only [keep, hm, ↓reduceIte, NodupKeys, keys, List.map_cons, List.nodup_cons]
        refine ⟨?_, by simpa [NodupKeys, keys] using ih'⟩
        intro hin
        exact hn.1 (by simpa [keys] using keys_keep_sub set rest k' (by simpa [keys] using hin))
      · simpa [keep, hm] using ih'
  · intro k e he
    rw [lookup_keep] at he
    split at he
    · exact h.2 k e he
    · cases he

/-! ### the sync fold: frame and own-key lemmas -/

theorem step_frame (st : SyncSt K O) (o : O) (k : K) (h : ∀ v, ver o = some v → key o ≠ k) :
    lookup k (syncStep key ver acc st o).items = lookup k st.items ∧
    (k ∈ (syncStep key ver acc st o).set ↔ k ∈ st.set) := by
  unfold syncStep
  cases hv : ver o with
  | none => simp
  | some v =>
    have hk : key o ≠ k := h v hv
    have hk' : ¬ k = key o := fun e => hk e.symm
    simp only
    cases hc : lookup (key o) st.items with
    | none => by_cases ha : acc o = true <;> simp [ha, hk, hk']
    | some cur =>
      by_cases h1 : (acc o && decide (cur.ver < v)) = true
      · simp [h1, hk, hk']
      · by_cases h2 : decide (cur.ver ≥ v) = true
        · by_cases h3 : acc cur.obj = true <;> simp [h1, h2, h3, hk']
        · simp [h1, h2]

theorem fold_frame (l : List O) (st : SyncSt K O) (k : K) (h : listedAll key ver k l = []) :
    lookup k (l.foldl (syncStep key ver acc) st).items = lookup k st.items ∧
    (k ∈ (l.foldl (syncStep key ver acc) st).set ↔ k ∈ st.set) := by
  induction l generalizing st with
  | nil => simp
  | cons o rest ih =>
    simp only [List.foldl_cons]
    have hne : ∀ v, ver o = some v → key o ≠ k := by
      intro v hv hk
      simp [listedAll, hv, hk] at h
    have hrest : listedAll key ver k rest = [] := by
      cases hv : ver o with
      | none => simpa [listedAll, hv] using h
      | some v =>
        have := hne v hv
        simpa [listedAll, hv, this] using h
    have h1 := step_frame key ver acc st o k hne
    have h2 := ih (syncStep key ver acc st o) hrest
    exact ⟨h2.1.trans h1.1, h2.2.trans h1.2⟩

/-- what one step does to its own key -/
theorem step_own (st : SyncSt K O) (o : O) (v : Int) (hv : ver o = some v) :
    let st' := syncStep key ver acc st o
    let r := specKey acc (lookup (key o) st.items) [(v, o)]
    (key o ∈ st'.set ↔ (r.isSome ∨ key o ∈ st.set)) ∧
    (r.isSome → lookup (key o) st'.items = r) := by
  unfold syncStep specKey
  simp only [hv]
  cases hc : lookup (key o) st.items with
  | none => by_cases ha : acc o = true <;> simp [ha, newest]
  | some cur =>
    by_cases hlt : cur.ver < v
    · by_cases ha : acc o = true
      · simp [hlt, ha, newest]
      · have : ¬ cur.ver ≥ v := by omega
        simp [hlt, ha, this, newest]
    · have hge : cur.ver ≥ v := by omega
      by_cases h3 : acc cur.obj = true
      · simp [hlt, hge, h3, hc, newest]
      · simp [hlt, hge, h3, newest]

/-- **sync refines the reference semantics**, per key: a key listed at most once (by a valid entry)
ends up exactly as `specKey` prescribes -/
theorem sync_refines_key (m : Items K O) (l : List O) (k : K)
    (hnd : (listedAll key ver k l).length ≤ 1) :
    lookup k (doSync key ver acc m l).1 = specKey acc (lookup k m) (listedAll key ver k l) := by
  unfold doSync syncFold
  simp only
  suffices H : ∀ (st : SyncSt K O), k ∉ st.set →
      lookup k (keep (l.foldl (syncStep key ver acc) st).set (l.foldl (syncStep key ver acc) st).items)
        = specKey acc (lookup k st.items) (listedAll key ver k l) by
    simpa using H ⟨m, [], []⟩ (by simp)
  intro st hk
  induction l generalizing st with
  | nil => simp [listedAll, specKey, lookup_keep_not_mem _ _ _ hk]
  | cons o rest ih =>
    simp only [List.foldl_cons]
    cases hv : ver o with
    | none =>
      have e : syncStep key ver acc st o = st := by simp [syncStep, hv]
      have hnd' : (listedAll key ver k rest).length ≤ 1 := by simpa [listedAll, hv] using hnd
      simpa [e, listedAll, hv] using ih hnd' st hk
    | some v =>
      by_cases hko : key o = k
      · subst hko
        have hrest : listedAll key ver (key o) rest = [] := by
          simp only [listedAll, hv, if_true, List.length_cons] at hnd
          exact List.eq_nil_of_length_eq_zero (by omega)
        have own := step_own key ver acc st o v hv
        have fr := fold_frame key ver acc rest (syncStep key ver acc st o) (key o) hrest
        simp only [listedAll, hv, if_true, hrest]
        simp only at own
        obtain ⟨hset, hlook⟩ := own
        cases hr : specKey acc (lookup (key o) st.items) [(v, o)] with
        | none =>
          have hnot : key o ∉ (syncStep key ver acc st o).set := by
            intro hin; have := hset.mp hin; simp [hr, hk] at this
          have : key o ∉ (rest.foldl (syncStep key ver acc) (syncStep key ver acc st o)).set :=
            fun hin => hnot (fr.2.mp hin)
          simpa using lookup_keep_not_mem _ _ _ this
        | some e =>
          have hin : key o ∈ (syncStep key ver acc st o).set := hset.mpr (Or.inl (by simp [hr]))
          have hin' : key o ∈ (rest.foldl (syncStep key ver acc) (syncStep key ver acc st o)).set := fr.2.mpr hin
          rw [lookup_keep_mem _ _ _ hin', fr.1, hlook (by simp [hr]), hr]
      · have hne : ∀ v', ver o = some v' → key o ≠ k := fun _ _ => hko
        have fr := step_frame key ver acc st o k hne
        have hk' : k ∉ (syncStep key ver acc st o).set := fun hin => hk (fr.2.mp hin)
        have hnd' : (listedAll key ver k rest).length ≤ 1 := by simpa [listedAll, hv, hko] using hnd
        have := ih hnd' (syncStep key ver acc st o) hk'
        simpa [listedAll, hv, hko, fr.1] using this

/-! ### invariants of the sync fold -/

theorem syncStep_WF (st : SyncSt K O) (o : O) (h : WF key st.items) : WF key (syncStep key ver acc st o).items := by
  unfold syncStep
  cases hv : ver o with
  | none => simpa using h
  | some v =>
    simp only
    cases hc : lookup (key o) st.items with
    | none => by_cases ha : acc o = true <;> simp [ha, h, WF_insert]
    | some cur =>
      by_cases h1 : (acc o && decide (cur.ver < v)) = true
      · simp [h1, h, WF_insert]
      · by_cases h2 : decide (cur.ver ≥ v) = true
        · by_cases h3 : acc cur.obj = true <;> simp [h1, h2, h3, h]
        · simp [h1, h2, h]

theorem fold_WF (l : List O) (st : SyncSt K O) (h : WF key st.items) :
    WF key (l.foldl (syncStep key ver acc) st).items := by
  induction l generalizing st with
  | nil => simpa using h
  | cons o rest ih => exact ih _ (syncStep_WF key ver acc st o h)

/-- every key of the working set holds an accepted entry -/
def SetAcc (st : SyncSt K O) : Prop := ∀ k ∈ st.set, ∀ e, lookup k st.items = some e → acc e.obj = true

theorem syncStep_SetAcc (st : SyncSt K O) (o : O) (h : SetAcc acc st) : SetAcc acc (syncStep key ver acc st o) := by
  unfold syncStep
  cases hv : ver o with
  | none => simpa using h
  | some v =>
    simp only
    cases hc : lookup (key o) st.items with
    | none =>
      by_cases ha : acc o = true
      · simp only [ha, ↓reduceIte]
        intro k hk e he
        rw [lookup_insert] at he
        split at he
        · cases he; exact ha
        · rename_i hne
          simp only [List.mem_cons] at hk
          rcases hk with hk | hk
          · exact absurd hk.symm hne
          · exact h k hk e he
      · simpa [ha] using h
    | some cur =>
      by_cases h1 : (acc o && decide (cur.ver < v)) = true
      · simp only [h1, ↓reduceIte]
        simp only [Bool.and_eq_true] at h1
        intro k hk e he
        rw [lookup_insert] at he
        split at he
        · cases he; exact h1.1
        · rename_i hne
          simp only [List.mem_cons] at hk
          rcases hk with hk | hk
          · exact absurd hk.symm hne
          · exact h k hk e he
      · by_cases h2 : decide (cur.ver ≥ v) = true
        · by_cases h3 : acc cur.obj = true
          · simp only [h1, Bool.false_eq_true, ↓reduceIte, h2, h3]
            intro k hk e he
            simp only [List.mem_cons] at hk
            rcases hk with hk | hk
            · subst hk; simp only at he; rw [hc] at he; cases he; exact h3
            · exact h k hk e he
          · simpa [h1, h2, h3] using h
        · simpa [h1, h2] using h

theorem fold_SetAcc (l : List O) (st : SyncSt K O) (h : SetAcc acc st) :
    SetAcc acc (l.foldl (syncStep key ver acc) st) := by
  induction l generalizing st with
  | nil => simpa using h
  | cons o rest ih => exact ih _ (syncStep_SetAcc key ver acc st o h)

/-- within the fold entries are only added or replaced by strictly newer versions -/
def Grows (m m' : Items K O) : Prop :=
  ∀ k e, lookup k m = some e → ∃ e', lookup k m' = some e' ∧ e.ver ≤ e'.ver ∧ (e.ver = e'.ver → e' = e)

theorem Grows.refl (m : Items K O) : Grows m m := fun _ e h => ⟨e, h, Int.le_refl _, fun _ => rfl⟩

theorem Grows.trans {m m' m'' : Items K O} (h1 : Grows m m') (h2 : Grows m' m'') : Grows m m'' := by
  intro k e he
  obtain ⟨e', he', hle, heq⟩ := h1 k e he
  obtain ⟨e'', he'', hle', heq'⟩ := h2 k e' he'
  refine ⟨e'', he'', by omega, ?_⟩
  intro hh
  have a : e.ver = e'.ver := by omega
  have b : e'.ver = e''.ver := by omega
  rw [heq' b, heq a]

theorem syncStep_Grows (st : SyncSt K O) (o : O) : Grows st.items (syncStep key ver acc st o).items := by
  unfold syncStep
  cases hv : ver o with
  | none => exact Grows.refl _
  | some v =>
    simp only
    cases hc : lookup (key o) st.items with
    | none =>
      by_cases ha : acc o = true
      · simp only [ha, ↓reduceIte]
        intro k e he
        have hne : key o ≠ k := by intro hh; rw [hh] at hc; rw [hc] at he; cases he
        exact ⟨e, by simp [hne, he], Int.le_refl _, fun _ => rfl⟩
      · simp only [ha]; exact Grows.refl _
    | some cur =>
      by_cases h1 : (acc o && decide (cur.ver < v)) = true
      · simp only [h1, ↓reduceIte]
        simp only [Bool.and_eq_true, decide_eq_true_eq] at h1
        intro k e he
        by_cases hk : key o = k
        · subst hk; rw [hc] at he; cases he
          exact ⟨⟨v, o⟩, by simp, by simp; omega, by simp; omega⟩
        · exact ⟨e, by simp [hk, he], Int.le_refl _, fun _ => rfl⟩
      · by_cases h2 : decide (cur.ver ≥ v) = true
        · by_cases h3 : acc cur.obj = true <;> simp only [h1, h2, h3] <;> exact Grows.refl _
        · simp only [h1, h2]; exact Grows.refl _

theorem fold_Grows (l : List O) (st : SyncSt K O) : Grows st.items (l.foldl (syncStep key ver acc) st).items := by
  induction l generalizing st with
  | nil => exact Grows.refl _
  | cons o rest ih => exact (syncStep_Grows key ver acc st o).trans (ih _)

/-! ### events: replay -/

theorem replay_append (evs evs' : List (Ev O)) (a : AMap K O) :
    replay key ver (evs ++ evs') a = (replay key ver evs a).bind (replay key ver evs') := by
  induction evs generalizing a with
  | nil => rfl
  | cons e es ih =>
    simp only [List.cons_append, replay]
    cases applyEv key ver a e with
    | none => rfl
    | some a' => exact ih a'

theorem abs_insert (m : Items K O) (k : K) (e : Entry O) : abs (insert k e m) = (abs m).set k (some e) := by
  funext k'; simp only [abs, AMap.set, lookup_insert]
  by_cases h : k' = k
  · subst h; simp
  · have : ¬ k = k' := fun hh => h hh.symm
    simp [h, this]

theorem abs_erase (m : Items K O) (k : K) : abs (erase k m) = (abs m).set k none := by
  funext k'; simp only [abs, AMap.set, lookup_erase]
  by_cases h : k' = k
  · subst h; simp
  · have : ¬ k = k' := fun hh => h hh.symm
    simp [h, this]

/-- events of the fold replay from the initial content to the current one -/
theorem syncStep_replay (m0 : Items K O) (st : SyncSt K O) (o : O)
    (h : replay key ver st.evs (abs m0) = some (abs st.items)) :
    replay key ver (syncStep key ver acc st o).evs (abs m0) = some (abs (syncStep key ver acc st o).items) := by
  unfold syncStep
  cases hv : ver o with
  | none => simpa using h
  | some v =>
    simp only
    cases hc : lookup (key o) st.items with
    | none =>
      by_cases ha : acc o = true
      · simp only [ha, ↓reduceIte, replay_append, h, Option.bind_some, replay, applyEv, hv]
        have : abs st.items (key o) = none := hc
        simp [this, abs_insert]
      · simpa [ha] using h
    | some cur =>
      by_cases h1 : (acc o && decide (cur.ver < v)) = true
      · simp only [h1, ↓reduceIte, replay_append, h, Option.bind_some, replay, applyEv, hv]
        simp only [Bool.and_eq_true, decide_eq_true_eq] at h1
        have : abs st.items (key o) = some cur := hc
        simp [this, h1.2, abs_insert]
      · by_cases h2 : decide (cur.ver ≥ v) = true
        · by_cases h3 : acc cur.obj = true <;> simpa [h1, h2, h3] using h
        · simpa [h1, h2] using h

theorem fold_replay (m0 : Items K O) (l : List O) (st : SyncSt K O)
    (h : replay key ver st.evs (abs m0) = some (abs st.items)) :
    replay key ver (l.foldl (syncStep key ver acc) st).evs (abs m0)
      = some (abs (l.foldl (syncStep key ver acc) st).items) := by
  induction l generalizing st with
  | nil => simpa using h
  | cons o rest ih => exact ih _ (syncStep_replay key ver acc m0 st o h)

/-- the delete-missing pass replays: deletes of distinct present keys -/
theorem dropped_replay (set : List K) (m : Items K O) (hwf : WF key m) (a : AMap K O)
    (ha : ∀ k, k ∈ keys m → a k = lookup k m) :
    ∃ a', replay key ver (dropped set m) a = some a' ∧
      (∀ k, k ∈ keys m → a' k = lookup k (keep set m)) ∧ (∀ k, k ∉ keys m → a' k = a k) := by
  induction m generalizing a with
  | nil => exact ⟨a, rfl, by simp [keys], fun _ _ => rfl⟩
  | cons p rest ih =>
    obtain ⟨k0, e0⟩ := p
    have hnd := hwf.1
    simp only [NodupKeys, keys, List.map_cons, List.nodup_cons] at hnd
    have hk0 : k0 ∉ keys rest := by simpa [keys] using hnd.1
    have hwf' : WF key rest := by
      refine ⟨by simpa [NodupKeys, keys] using hnd.2, ?_⟩
      intro k e he
      have hne : k0 ≠ k := by
        intro hh; subst hh
        exact hk0 (mem_keys_of_lookup he)
      exact hwf.2 k e (by simp [hne, he])
    have hkey0 : key e0.obj = k0 := hwf.2 k0 e0 (by simp)
    by_cases hm : k0 ∈ set
    · -- kept
      have ha' : ∀ k, k ∈ keys rest → a k = lookup k rest := by
        intro k hk
        have hne : k0 ≠ k := fun hh => hk0 (hh ▸ hk)
        rw [ha k (by simp [keys] at hk ⊢; exact Or.inr hk)]; simp [hne]
      obtain ⟨a', hr, h1, h2⟩ := ih hwf' a ha'
      refine ⟨a', by simpa [dropped, hm] using hr, ?_, ?_⟩
      · intro k hk
        simp only [keys, List.map_cons, List.mem_cons] at hk
        by_cases hkk : k = k0
        · subst hkk
          rw [h2 k hk0, ha k (by simp [keys])]; simp [keep, hm]
        · have hk' : k ∈ keys rest := by
            rcases hk with hk | hk
            · exact absurd hk hkk
            · simpa [keys] using hk
          have hne : ¬ k0 = k := fun hh => hkk hh.symm
          rw [h1 k hk']; simp [keep, hm, hne]
      · intro k hk
        simp only [keys, List.map_cons, List.mem_cons, not_or] at hk
        exact h2 k (by simpa [keys] using hk.2)
    · -- dropped: Delete event for k0
      have hak0 : a k0 = some e0 := by rw [ha k0 (by simp [keys])]; simp
      have ha' : ∀ k, k ∈ keys rest → (a.set k0 none) k = lookup k rest := by
        intro k hk
        have hne : k0 ≠ k := fun hh => hk0 (hh ▸ hk)
        have hne' : ¬ k = k0 := fun hh => hne hh.symm
        simp only [AMap.set, hne', ↓reduceIte]
        rw [ha k (by simp [keys] at hk ⊢; exact Or.inr hk)]; simp [hne]
      obtain ⟨a', hr, h1, h2⟩ := ih hwf' (a.set k0 none) ha'
      refine ⟨a', ?_, ?_, ?_⟩
      · simp only [dropped, hm, ↓reduceIte, replay, applyEv, hkey0, hak0]
        exact hr
      · intro k hk
        simp only [keys, List.map_cons, List.mem_cons] at hk
        by_cases hkk : k = k0
        · subst hkk
          rw [h2 k hk0]; simp [AMap.set, keep, hm, lookup_keep_not_mem _ _ _ hm]
        · have hk' : k ∈ keys rest := by
            rcases hk with hk | hk
            · exact absurd hk hkk
            · simpa [keys] using hk
          rw [h1 k hk']; simp [keep, hm]
      · intro k hk
        simp only [keys, List.map_cons, List.mem_cons, not_or] at hk
        rw [h2 k (by simpa [keys] using hk.2)]
        simp [AMap.set, hk.1]

theorem dropped_replay_abs (set : List K) (m : Items K O) (hwf : WF key m) :
    replay key ver (dropped set m) (abs m) = some (abs (keep set m)) := by
  obtain ⟨a', hr, h1, h2⟩ := dropped_replay key ver set m hwf (abs m) (fun _ _ => rfl)
  rw [hr]; congr 1; funext k
  by_cases hk : k ∈ keys m
  · exact h1 k hk
  · rw [h2 k hk]
    simp only [abs]
    rw [lookup_none_of_not_mem hk, lookup_keep]
    split <;> simp [lookup_none_of_not_mem hk]

/-! ### "an event means a change" (for `noop_silent`) -/

def touches (evs : List (Ev O)) (k : K) : Prop := ∃ ev ∈ evs, key ev.obj = k

/-- strictly newer than before (or newly present) -/
def Newer : Option (Entry O) → Option (Entry O) → Prop
  | none, some _ => True
  | some e0, some e => e0.ver < e.ver
  | _, none => False

theorem Newer.ne {a b : Option (Entry O)} (h : Newer a b) : b ≠ a := by
  intro e; subst e
  cases b with
  | none => exact h
  | some e => simp [Newer] at h

def Touched (m0 : Items K O) (st : SyncSt K O) : Prop :=
  ∀ k, (touches key st.evs k → k ∈ st.set ∧ Newer (lookup k m0) (lookup k st.items)) ∧
       (¬ touches key st.evs k → lookup k st.items = lookup k m0)

omit [DecidableEq K] in
theorem touches_append_single (evs : List (Ev O)) (e : Ev O) (k : K) :
    touches key (evs ++ [e]) k ↔ touches key evs k ∨ key e.obj = k := by
  simp only [touches, List.mem_append, List.mem_singleton]
  constructor
  · rintro ⟨ev, hev | hev, hk⟩
    · exact Or.inl ⟨ev, hev, hk⟩
    · subst hev; exact Or.inr hk
  · rintro (⟨ev, hev, hk⟩ | hk)
    · exact ⟨ev, Or.inl hev, hk⟩
    · exact ⟨e, Or.inr rfl, hk⟩

theorem syncStep_Touched (m0 : Items K O) (st : SyncSt K O) (o : O) (h : Touched key m0 st) :
    Touched key m0 (syncStep key ver acc st o) := by
  unfold syncStep
  cases hv : ver o with
  | none => simpa using h
  | some v =>
    simp only
    cases hc : lookup (key o) st.items with
    | none =>
      by_cases ha : acc o = true
      · simp only [ha, ↓reduceIte]
        intro k
        by_cases hk : key o = k
        · subst hk
          refine ⟨fun _ => ⟨List.mem_cons_self, ?_⟩, fun hn => absurd ((touches_append_single key _ _ _).mpr (Or.inr rfl)) hn⟩
          simp only [lookup_insert_self]
          by_cases ht : touches key st.evs (key o)
          · have := ((h (key o)).1 ht).2; rw [hc] at this
            cases hm0 : lookup (key o) m0 <;> simp [hm0, Newer] at this
          · have := (h (key o)).2 ht; rw [hc] at this; rw [← this]; trivial
        · have hk' : ¬ k = key o := fun e => hk e.symm
          simp only [touches_append_single, hk, or_false, List.mem_cons, hk', false_or, lookup_insert_ne _ _ _ _ hk]
          exact h k
      · simpa [ha] using h
    | some cur =>
      by_cases h1 : (acc o && decide (cur.ver < v)) = true
      · simp only [h1, ↓reduceIte]
        simp only [Bool.and_eq_true, decide_eq_true_eq] at h1
        intro k
        by_cases hk : key o = k
        · subst hk
          refine ⟨fun _ => ⟨List.mem_cons_self, ?_⟩, fun hn => absurd ((touches_append_single key _ _ _).mpr (Or.inr rfl)) hn⟩
          simp only [lookup_insert_self]
          by_cases ht : touches key st.evs (key o)
          · have := ((h (key o)).1 ht).2; rw [hc] at this
            cases hm0 : lookup (key o) m0 with
            | none => trivial
            | some e0 => simp only [hm0, Newer] at this ⊢; omega
          · have := (h (key o)).2 ht; rw [hc] at this; rw [← this]; exact h1.2
        · have hk' : ¬ k = key o := fun e => hk e.symm
          simp only [touches_append_single, hk, or_false, List.mem_cons, hk', false_or, lookup_insert_ne _ _ _ _ hk]
          exact h k
      · by_cases h2 : decide (cur.ver ≥ v) = true
        · by_cases h3 : acc cur.obj = true
          · simp only [h1, Bool.false_eq_true, ↓reduceIte, h2, h3]
            intro k
            refine ⟨fun ht => ⟨List.mem_cons_of_mem _ ((h k).1 ht).1, ((h k).1 ht).2⟩, (h k).2⟩
          · simpa [h1, h2, h3] using h
        · simpa [h1, h2] using h

theorem fold_Touched (m0 : Items K O) (l : List O) (st : SyncSt K O) (h : Touched key m0 st) :
    Touched key m0 (l.foldl (syncStep key ver acc) st) := by
  induction l generalizing st with
  | nil => simpa using h
  | cons o rest ih => exact ih _ (syncStep_Touched key ver acc m0 st o h)

theorem dropped_ne_nil (set : List K) (m : Items K O) (h : dropped set m ≠ []) :
    ∃ k e, lookup k m = some e ∧ k ∉ set := by
  induction m with
  | nil => simp [dropped] at h
  | cons p rest ih =>
    obtain ⟨k0, e0⟩ := p
    by_cases hm : k0 ∈ set
    · simp only [dropped, hm, ↓reduceIte] at h
      obtain ⟨k, e, he, hk⟩ := ih h
      have : k0 ≠ k := fun hh => hk (hh ▸ hm)
      exact ⟨k, e, by simp [this, he], hk⟩
    · exact ⟨k0, e0, by simp, hm⟩

end
end KC

/-! ### per-key view of `doUpdate` and of `doSync` against a snapshot (used by the FSub proofs) -/
namespace KC
open AL
section
variable {K O : Type} [DecidableEq K]
variable (key : O → K) (ver : O → Option Int) (acc : O → Bool)

/-- what the filter lets through -/
def view (x : Option (Entry O)) : Option (Entry O) :=
  match x with
  | none => none
  | some e => if acc e.obj then some e else none

/-- per-key effect of `doUpdate` on the event's own key -/
def capply (cur : Option (Entry O)) (t : EvT) (v : Int) (o : O) : Option (Entry O) :=
  match t with
  | .delete => none
  | _ =>
    match cur with
    | none => if acc o then some ⟨v, o⟩ else none
    | some c => if c.ver < v then (if acc o then some ⟨v, o⟩ else none) else some c

theorem doUpdate_own (m : Items K O) (t : EvT) (o : O) (v : Int) (hv : ver o = some v) :
    lookup (key o) (doUpdate key ver acc m t o).1 = capply acc (lookup (key o) m) t v o := by
  unfold doUpdate capply
  simp only [hv]
  cases t with
  | delete => cases hc : lookup (key o) m <;> simp [hc]
  | create | update =>
    cases hc : lookup (key o) m with
    | none => by_cases ha : acc o = true <;> simp [ha, hc]
    | some cur =>
      by_cases hlt : cur.ver < v
      · by_cases ha : acc o = true <;> simp [hlt, ha]
      · simp [hlt, hc]

theorem doUpdate_frame (m : Items K O) (t : EvT) (o : O) (k : K) (hk : key o ≠ k) :
    lookup k (doUpdate key ver acc m t o).1 = lookup k m := by
  unfold doUpdate
  cases hv : ver o with
  | none => rfl
  | some v =>
    simp only
    cases t <;> (cases lookup (key o) m <;> simp only [] <;> repeat' split) <;> simp [hk]

theorem doUpdate_malformed (m : Items K O) (t : EvT) (o : O) (hv : ver o = none) :
    doUpdate key ver acc m t o = (m, []) := by
  unfold doUpdate; simp [hv]

/-- per-key effect of a sync against a snapshot entry of the parent -/
def csync (cur : Option (Entry O)) (snap : Option (Entry O)) : Option (Entry O) :=
  match snap with
  | none => none
  | some s =>
    match cur with
    | none => view acc (some s)
    | some c => if c.ver < s.ver then view acc (some s) else view acc (some c)

/-- `plist` is a snapshot of content `a`: every key is listed exactly as `a` holds it -/
def Snapshot (plist : List O) (a : AMap K O) : Prop :=
  ∀ k, listedAll key ver k plist = (match a k with
    | some e => [(e.ver, e.obj)]
    | none => [])

theorem doSync_snapshot (m : Items K O) (plist : List O) (a : AMap K O)
    (hs : Snapshot key ver plist a) (k : K) :
    lookup k (doSync key ver acc m plist).1 = csync acc (lookup k m) (a k) := by
  have hl := hs k
  rw [sync_refines_key key ver acc m plist k (by rw [hl]; cases a k <;> simp), hl]
  cases hak : a k with
  | none => simp [specKey, csync]
  | some e =>
    obtain ⟨ev, eo⟩ := e
    simp only [specKey, csync, view]
    cases hc : lookup k m with
    | none => by_cases ha : acc eo = true <;> simp [newest, ha]
    | some c =>
      by_cases hlt : c.ver < ev <;> by_cases ha : acc eo = true <;> by_cases hb : acc c.obj = true <;>
        simp [newest, hlt, ha, hb]

theorem snapshot_nil (a : AMap K O) (h : ∀ k, a k = none) : Snapshot key ver ([] : List O) a := by
  intro k; simp [listedAll, h k]

end
end KC

/-! ### per-key account of the events of a sync (for C07) -/
namespace KC
open AL
section
variable {K O : Type} [DecidableEq K]
variable (key : O → K) (ver : O → Option Int) (acc : O → Bool)

/-- the events of a batch that concern key `k`, in order -/
def evK (k : K) (evs : List (Ev O)) : List (Ev O) := evs.filter (fun e => decide (key e.obj = k))

theorem evK_append (k : K) (a b : List (Ev O)) : evK key k (a ++ b) = evK key k a ++ evK key k b := by
  simp [evK]

/-- what the loop body emits for its own key -/
def ownEvent (cur : Option (Entry O)) (v : Int) (o : O) : List (Ev O) :=
  match cur with
  | none => if acc o then [⟨.create, o⟩] else []
  | some c => if acc o && decide (c.ver < v) then [⟨.update, o⟩] else []

theorem step_evs_frame (st : SyncSt K O) (o : O) (k : K) (h : ∀ v, ver o = some v → key o ≠ k) :
    evK key k (syncStep key ver acc st o).evs = evK key k st.evs := by
  unfold syncStep
  cases hv : ver o with
  | none => rfl
  | some v =>
    have hk : key o ≠ k := h v hv
    simp only
    cases hc : lookup (key o) st.items with
    | none => by_cases ha : acc o = true <;> simp [ha, evK, hk]
    | some cur =>
      by_cases h1 : (acc o && decide (cur.ver < v)) = true
      · simp [h1, evK, hk]
      · by_cases h2 : decide (cur.ver ≥ v) = true
        · by_cases h3 : acc cur.obj = true <;> simp [h1, h2, h3]
        · simp [h1, h2]

theorem step_evs_own (st : SyncSt K O) (o : O) (v : Int) (hv : ver o = some v) :
    evK key (key o) (syncStep key ver acc st o).evs
      = evK key (key o) st.evs ++ ownEvent acc (lookup (key o) st.items) v o := by
  unfold syncStep ownEvent
  simp only [hv]
  cases hc : lookup (key o) st.items with
  | none => by_cases ha : acc o = true <;> simp [ha, evK]
  | some cur =>
    by_cases h1 : (acc o && decide (cur.ver < v)) = true
    · simp [h1, evK]
    · by_cases h2 : decide (cur.ver ≥ v) = true
      · by_cases h3 : acc cur.obj = true <;> simp [h1, h2, h3]
      · simp [h1, h2]

theorem fold_evs_frame (l : List O) (st : SyncSt K O) (k : K) (h : listedAll key ver k l = []) :
    evK key k (l.foldl (syncStep key ver acc) st).evs = evK key k st.evs := by
  induction l generalizing st with
  | nil => rfl
  | cons o rest ih =>
    simp only [List.foldl_cons]
    have hne : ∀ v, ver o = some v → key o ≠ k := by
      intro v hv hk
      simp [listedAll, hv, hk] at h
    have hrest : listedAll key ver k rest = [] := by
      cases hv : ver o with
      | none => simpa [listedAll, hv] using h
      | some v =>
        have := hne v hv
        simpa [listedAll, hv, this] using h
    rw [ih _ hrest, step_evs_frame key ver acc st o k hne]

/-- the whole story of key `k` through the loop, for a key listed at most once: its final entry, whether
it is in the working set, and the events about it -/
theorem fold_key (l : List O) (st : SyncSt K O) (k : K) (hk : k ∉ st.set)
    (hnd : (listedAll key ver k l).length ≤ 1) :
    let st' := l.foldl (syncStep key ver acc) st
    let r := specKey acc (lookup k st.items) (listedAll key ver k l)
    (k ∈ st'.set ↔ r.isSome) ∧
    (lookup k st'.items = if r.isSome then r else lookup k st.items) ∧
    (evK key k st'.evs = evK key k st.evs ++ (match listedAll key ver k l with
      | (v, o) :: _ => ownEvent acc (lookup k st.items) v o
      | [] => [])) := by
  induction l generalizing st with
  | nil => simp [listedAll, specKey, hk]
  | cons o rest ih =>
    simp only [List.foldl_cons]
    cases hv : ver o with
    | none =>
      have e : syncStep key ver acc st o = st := by simp [syncStep, hv]
      have hnd' : (listedAll key ver k rest).length ≤ 1 := by simpa [listedAll, hv] using hnd
      simpa [e, listedAll, hv] using ih st hk hnd'
    | some v =>
      by_cases hko : key o = k
      · subst hko
        have hrest : listedAll key ver (key o) rest = [] := by
          simp only [listedAll, hv, if_true, List.length_cons] at hnd
          exact List.eq_nil_of_length_eq_zero (by omega)
        have own := step_own key ver acc st o v hv
        have fr := fold_frame key ver acc rest (syncStep key ver acc st o) (key o) hrest
        have fe := fold_evs_frame key ver acc rest (syncStep key ver acc st o) (key o) hrest
        have oe := step_evs_own key ver acc st o v hv
        simp only [listedAll, hv, if_true, hrest]
        simp only at own
        obtain ⟨hset, hlook⟩ := own
        refine ⟨?_, ?_, ?_⟩
        · rw [fr.2, hset]; simp [hk]
        · rw [fr.1]
          cases hr : specKey acc (lookup (key o) st.items) [(v, o)] with
          | some e => simpa [hr] using hlook (by simp [hr])
          | none =>
            simp only [Option.isSome_none, Bool.false_eq_true, ↓reduceIte]
            -- nothing accepted: the step left the items alone
            unfold syncStep
            simp only [hv]
            unfold specKey at hr
            cases hc : lookup (key o) st.items with
            | none =>
              simp only [hc, newest] at hr
              by_cases ha : acc o = true
              · simp [ha] at hr
              · simp [ha, hc]
            | some cur =>
              simp only [hc, newest] at hr
              by_cases hlt : cur.ver < v
              · simp only [hlt, ↓reduceIte] at hr
                by_cases ha : acc o = true
                · simp [ha] at hr
                · have : ¬ cur.ver ≥ v := by omega
                  simp [ha, this, hc]
              · simp only [hlt, ↓reduceIte] at hr
                have hge : cur.ver ≥ v := by omega
                by_cases h3 : acc cur.obj = true
                · simp [h3] at hr
                · simp [hlt, hge, h3, hc]
        · rw [fe, oe]
      · have hne : ∀ v', ver o = some v' → key o ≠ k := fun _ _ => hko
        have fr := step_frame key ver acc st o k hne
        have fe := step_evs_frame key ver acc st o k hne
        have hk' : k ∉ (syncStep key ver acc st o).set := fun hin => hk (fr.2.mp hin)
        have hnd' : (listedAll key ver k rest).length ≤ 1 := by simpa [listedAll, hv, hko] using hnd
        have := ih (syncStep key ver acc st o) hk' hnd'
        simpa [listedAll, hv, hko, fr.1, fe] using this

/-- the delete-missing pass emits, for key `k`, one Delete of the cached object iff `k` is cached and not
in the working set -/
theorem dropped_key (set : List K) (m : Items K O) (hwf : WF key m) (k : K) :
    evK key k (dropped set m) =
      if k ∈ set then [] else (match lookup k m with
        | some c => [⟨.delete, c.obj⟩]
        | none => []) := by
  induction m with
  | nil => simp [dropped, evK]
  | cons p rest ih =>
    obtain ⟨k0, e0⟩ := p
    have hnd := hwf.1
    simp only [NodupKeys, keys, List.map_cons, List.nodup_cons] at hnd
    have hk0 : k0 ∉ keys rest := by simpa [keys] using hnd.1
    have hwf' : WF key rest := by
      refine ⟨by simpa [NodupKeys, keys] using hnd.2, ?_⟩
      intro k' e he
      have hne : k0 ≠ k' := by
        intro hh; subst hh
        exact hk0 (mem_keys_of_lookup he)
      exact hwf.2 k' e (by simp [hne, he])
    have hkey0 : key e0.obj = k0 := hwf.2 k0 e0 (by simp)
    have ih' := ih hwf'
    by_cases hm : k0 ∈ set
    · simp only [dropped, hm, ↓reduceIte, ih']
      by_cases hkk : k0 = k
      · subst hkk; simp [hm]
      · simp [hkk]
    · simp only [dropped, hm, ↓reduceIte]
      by_cases hkk : k0 = k
      · subst hkk
        have hnone : lookup k0 rest = none := lookup_none_of_not_mem hk0
        simp only [evK, List.filter_cons, hkey0, decide_true, ↓reduceIte, hm, lookup_cons]
        have := ih'
        simp only [evK, hm, ↓reduceIte, hnone] at this
        rw [this]
      · have hne : ¬ key e0.obj = k := by rw [hkey0]; exact hkk
        simp only [evK, List.filter_cons, hne, decide_false, Bool.false_eq_true, ↓reduceIte, lookup_cons, hkk]
        exact ih'

end
end KC

namespace KC
open AL
section
variable {K O : Type} [DecidableEq K]
variable (key : O → K) (ver : O → Option Int) (acc : O → Bool)

theorem doUpdate_WF (m : Items K O) (t : EvT) (o : O) (h : WF key m) : WF key (doUpdate key ver acc m t o).1 := by
  unfold doUpdate
  cases hv : ver o with
  | none => simpa using h
  | some v =>
    simp only
    cases t <;> cases hc : lookup (key o) m <;> simp only [] <;> (repeat' split) <;>
      first | exact h | exact WF_insert key h o v | exact WF_erase key h _

theorem doSync_WF (m : Items K O) (l : List O) (h : WF key m) : WF key (doSync key ver acc m l).1 :=
  WF_keep key (fold_WF key ver acc l ⟨m, [], []⟩ h) _

/-- the events of a sync that concern key `k` (listed at most once): at most one Create/Update from
the loop, followed by at most one Delete from the delete-missing pass -/
theorem doSync_events_key (m : Items K O) (l : List O) (hwf : WF key m) (k : K)
    (hnd : (listedAll key ver k l).length ≤ 1) :
    evK key k (doSync key ver acc m l).2 =
      (match listedAll key ver k l with
        | (v, o) :: _ => ownEvent acc (lookup k m) v o
        | [] => []) ++
      (if (specKey acc (lookup k m) (listedAll key ver k l)).isSome then [] else
        (match lookup k m with
          | some c => [⟨.delete, c.obj⟩]
          | none => [])) := by
  unfold doSync syncFold
  simp only [evK_append]
  have fk := fold_key key ver acc l ⟨m, [], []⟩ k (by simp) hnd
  simp only at fk
  obtain ⟨hset, hlook, hevs⟩ := fk
  have hwf' := fold_WF key ver acc l ⟨m, [], []⟩ hwf
  rw [hevs, dropped_key key _ _ hwf' k]
  simp only [evK, List.filter_nil, List.nil_append]
  congr 1
  by_cases hr : (specKey acc (lookup k m) (listedAll key ver k l)).isSome = true
  · simp [hset, hr]
  · have hns : k ∉ (l.foldl (syncStep key ver acc) ⟨m, [], []⟩).set := fun h => hr (hset.mp h)
    simp only [hns, ↓reduceIte, hr, Bool.false_eq_true]
    rw [hlook]; simp [hr]

end
end KC

namespace KC
open AL
section
variable {K O : Type} [DecidableEq K]
variable (key : O → K) (ver : O → Option Int) (acc : O → Bool)

theorem doUpdate_replay (m : Items K O) (t : EvT) (o : O) :
    replay key ver (doUpdate key ver acc m t o).2 (abs m) = some (abs (doUpdate key ver acc m t o).1) := by
  unfold doUpdate
  cases hv : ver o with
  | none => rfl
  | some v =>
    simp only
    have habs : abs m (key o) = lookup (key o) m := rfl
    cases t with
    | delete =>
      cases hc : lookup (key o) m with
      | none => rfl
      | some cur => simp [replay, applyEv, habs, hc, abs_erase]
    | create | update =>
      cases hc : lookup (key o) m with
      | none => by_cases ha : acc o = true <;> simp [ha, replay, applyEv, habs, hc, hv, abs_insert]
      | some cur =>
        by_cases hlt : cur.ver < v
        · by_cases ha : acc o = true <;> simp [hlt, ha, replay, applyEv, habs, hc, hv, abs_insert, abs_erase]
        · simp [hlt, replay]

theorem doSync_replay (m : Items K O) (l : List O) (hwf : WF key m) :
    replay key ver (doSync key ver acc m l).2 (abs m) = some (abs (doSync key ver acc m l).1) := by
  unfold doSync syncFold
  simp only [replay_append]
  rw [fold_replay key ver acc m l ⟨m, [], []⟩ rfl]
  simp only [Option.bind_some]
  exact dropped_replay_abs key ver _ _ (fold_WF key ver acc l ⟨m, [], []⟩ hwf)

end
end KC

namespace KC
section
variable {K O : Type} [DecidableEq K]
variable (key : O → K) (ver : O → Option Int)

theorem applyEv_frame (a a1 : AMap K O) (e : Ev O) (k : K) (h : applyEv key ver a e = some a1)
    (hk : key e.obj ≠ k) : a1 k = a k := by
  have hk' : ¬ k = key e.obj := fun h => hk h.symm
  unfold applyEv at h
  cases ht : e.t with
  | delete =>
    cases hav : a (key e.obj) with
    | none => simp [ht, hav] at h
    | some c => simp only [ht, hav, Option.some.injEq] at h; subst h; simp [AMap.set, hk']
  | create =>
    cases hv : ver e.obj with
    | none => simp [ht, hv] at h
    | some v =>
      cases hav : a (key e.obj) with
      | none => simp only [ht, hv, hav, Option.some.injEq] at h; subst h; simp [AMap.set, hk']
      | some c => simp [ht, hv, hav] at h
  | update =>
    cases hv : ver e.obj with
    | none => simp [ht, hv] at h
    | some v =>
      cases hav : a (key e.obj) with
      | none => simp [ht, hv, hav] at h
      | some c =>
        simp only [ht, hv, hav] at h
        split at h
        · simp only [Option.some.injEq] at h; subst h; simp [AMap.set, hk']
        · cases h

end
end KC
