/- helper definitions and lemmas (invariants and their preservation) behind the property theorems of Props/C13.lean -/
import KcacheModel.Tick
namespace KC.C13
open KC

structure TInv (s : Tick) : Prop where
  bounds : s.lo ≤ s.hi
  not_stuck : s.stuck = false
  /-- while waiting for a tick: the timer was armed by the Reset at consumption time … -/
  armed_window : s.ph = .waiting → ∀ dl, s.tmr = .armed dl → s.lastConsumed + s.lo ≤ dl ∧ dl ≤ s.lastConsumed + s.hi
  fired_late : s.ph = .waiting → s.tmr = .fired → s.lastConsumed + s.lo ≤ s.now
  offer_late : s.ph = .waiting → s.offer = true → s.lastConsumed + s.lo ≤ s.now
  /-- … and something will produce the next tick: the timer is armed or fired, or the tick is on offer -/
  idle_offer : s.ph = .waiting → s.tmr = .idle → s.offer = true
  consumed_past : s.lastConsumed ≤ s.now

theorem tinv_init (lo hi lat d : Nat) (h : lo ≤ hi) : TInv (Tick.init lo hi lat d) := by
  refine ⟨h, rfl, ?_, ?_, ?_, ?_, by simp [Tick.init]⟩ <;> (intro hp; simp [Tick.init] at hp)

theorem tinv_step (s : Tick) (l : TLabel) (h : TInv s) (hen : s.enabled l = true) : TInv (Tick.step true s l) := by
  obtain ⟨hb, hs, haw, hfl, hol, hio, hcp⟩ := h
  cases l with
  | advance t =>
    simp only [Tick.step]
    exact ⟨hb, hs, haw, (fun h1 h2 => by have := hfl h1 h2; show s.lastConsumed + s.lo ≤ s.now + t; omega),
      (fun h1 h2 => by have := hol h1 h2; show s.lastConsumed + s.lo ≤ s.now + t; omega), hio,
      by show s.lastConsumed ≤ s.now + t; omega⟩
  | fire =>
    simp only [Tick.enabled] at hen
    simp only [Tick.step]
    cases ht : s.tmr with
    | armed dl =>
      simp only [ht, decide_eq_true_eq] at hen
      refine ⟨hb, hs, (fun _ dl' h' => by cases h'), fun hp _ => ?_, hol, (fun _ h' => by cases h'), hcp⟩
      have := (haw hp dl ht).1; show s.lastConsumed + s.lo ≤ s.now; omega
    | fired => simp [ht] at hen
    | idle => simp [ht] at hen
  | recv =>
    simp only [Tick.enabled, Bool.and_eq_true, Bool.not_eq_true', beq_iff_eq] at hen
    simp only [Tick.step]
    exact ⟨hb, hs, (fun _ dl h' => by cases h'), (fun _ h' => by cases h'), fun hp _ => hfl hp hen.2, fun _ _ => rfl, hcp⟩
  | tick lat d =>
    simp only [Tick.step]
    exact ⟨hb, hs, (fun hp => by cases hp), (fun hp => by cases hp), (fun hp => by cases hp), (fun hp => by cases hp), hcp⟩
  | done =>
    simp only [Tick.step]
    exact ⟨hb, hs, (fun hp => by cases hp), (fun hp => by cases hp), (fun hp => by cases hp), (fun hp => by cases hp), hcp⟩
  | consume d =>
    simp only [Tick.enabled, Bool.and_eq_true, Bool.not_eq_true', beq_iff_eq, decide_eq_true_eq] at hen
    obtain ⟨⟨⟨_, _⟩, hlo⟩, hhi⟩ := hen
    simp only [Tick.step, Bool.not_true, Bool.false_and, Bool.false_eq_true, ↓reduceIte]
    refine ⟨hb, hs, ?_, (fun _ h' => by cases h'), (fun _ h' => by cases h'), (fun _ h' => by cases h'), Nat.le_refl _⟩
    intro _ dl hdl
    simp only [Tmr.armed.injEq] at hdl
    subst hdl
    exact ⟨by show s.now + s.lo ≤ s.now + d; omega, by show s.now + d ≤ s.now + s.hi; omega⟩

theorem tinv_run (s : Tick) (ls : List TLabel) (s' : Tick) (h : TInv s) (hr : s.run true ls = some s') : TInv s' := by
  induction ls generalizing s with
  | nil => simp [Tick.run] at hr; subst hr; exact h
  | cons l ls ih =>
    simp only [Tick.run] at hr
    split at hr
    · rename_i hen; exact ih _ (tinv_step s l h hen) hr
    · cases hr

end KC.C13
