/- lemmas for the linearizability checker (C15) -/
import KcacheModel.Lin
namespace KC.Lin

theorem le_maxCall (rs : List ReadOp) (r : ReadOp) (h : r ∈ rs) : r.call ≤ maxCall rs := by
  unfold maxCall
  have gen : ∀ (l : List ReadOp) (m : Nat), m ≤ l.foldl (fun m r => max m r.call) m ∧
      (∀ r ∈ l, r.call ≤ l.foldl (fun m r => max m r.call) m) := by
    intro l
    induction l with
    | nil => intro m; exact ⟨Nat.le_refl _, fun _ h => by cases h⟩
    | cons a l ih =>
      intro m
      simp only [List.foldl_cons]
      have := ih (max m a.call)
      refine ⟨Nat.le_trans (Nat.le_max_left _ _) this.1, ?_⟩
      intro r hr
      rcases List.mem_cons.mp hr with rfl | hr
      · exact Nat.le_trans (Nat.le_max_right _ _) this.1
      · exact this.2 r hr
  exact (gen rs 0).2 r h

theorem minRet_le (rs : List ReadOp) (r : ReadOp) (h : r ∈ rs) : ∃ m, minRet rs = some m ∧ m ≤ r.ret := by
  have gen : ∀ (l : List ReadOp) (m : Nat), l.foldl (fun m r => min m r.ret) m ≤ m ∧
      (∀ r ∈ l, l.foldl (fun m r => min m r.ret) m ≤ r.ret) := by
    intro l
    induction l with
    | nil => intro m; exact ⟨Nat.le_refl _, fun _ h => by cases h⟩
    | cons a l ih =>
      intro m
      simp only [List.foldl_cons]
      have := ih (min m a.ret)
      refine ⟨Nat.le_trans this.1 (Nat.min_le_left _ _), ?_⟩
      intro r hr
      rcases List.mem_cons.mp hr with rfl | hr
      · exact Nat.le_trans this.1 (Nat.min_le_right _ _)
      · exact this.2 r hr
  cases rs with
  | nil => cases h
  | cons a l =>
    refine ⟨_, rfl, ?_⟩
    rcases List.mem_cons.mp h with rfl | hr
    · exact (gen l r.ret).1
    · exact (gen l a.ret).2 r hr

theorem no_inversion (rs : List ReadOp) (n : Nat) (h : inversionAt rs n = none)
    (r1 r2 : ReadOp) (h1 : r1 ∈ rs) (h2 : r2 ∈ rs) (hk : r2.k < r1.k) (hn : r1.k ≤ n) : r2.call < r1.ret := by
  unfold inversionAt at h
  have hall := List.find?_eq_none.mp h r1.k (List.mem_range.mpr (by omega))
  have hge : r1.k ≥ 1 := by omega
  simp only [hge, decide_true, Bool.true_and] at hall
  have hm1 : r1 ∈ rs.filter (fun r => decide (r.k ≥ r1.k)) := List.mem_filter.mpr ⟨h1, by simp⟩
  have hm2 : r2 ∈ rs.filter (·.k < r1.k) := List.mem_filter.mpr ⟨h2, by simpa using hk⟩
  obtain ⟨m, hm, hle⟩ := minRet_le _ r1 hm1
  have hmax := le_maxCall _ r2 hm2
  unfold minRetFrom at hall
  rw [hm] at hall
  simp at hall
  unfold maxCallBelow at hall
  omega


/-- sequential writes: later writes are invoked after earlier ones returned -/
theorem wret_lt_wcall (ws : List WriteOp) (n : Nat) (h : writesSequential ws n = true) :
    ∀ j k, j < k → k ≤ n → wret ws j < wcall ws k := by
  have hstep : ∀ i, i < n → wcall ws (i + 1) < wret ws (i + 1) ∧ wret ws i < wcall ws (i + 1) := by
    intro i hi
    have := List.all_eq_true.mp h i (List.mem_range.mpr hi)
    simpa using this
  intro j k hjk
  induction k with
  | zero => omega
  | succ k ih =>
    intro hk
    by_cases hj : j = k
    · subst hj; exact (hstep j (by omega)).2
    · have h1 := ih (by omega) (by omega)
      have h2 := hstep k (by omega)
      have h3 : wcall ws k < wret ws k := by
        cases k with
        | zero => omega
        | succ k' => exact (hstep k' (by omega)).1
      omega

theorem wcall_lt_wret (ws : List WriteOp) (n : Nat) (h : writesSequential ws n = true) (k : Nat) (h1 : 1 ≤ k) (hk : k ≤ n) :
    wcall ws k < wret ws k := by
  have := List.all_eq_true.mp h (k - 1) (List.mem_range.mpr (by omega))
  have e : k - 1 + 1 = k := by omega
  rw [e] at this
  simp at this
  exact this.1

theorem Rank.lt_asymm (a b : Rank) (h : a.lt b) : ¬ b.lt a := by
  unfold Rank.lt at *
  omega


theorem Rank.lt_trans (a b c : Rank) (h1 : a.lt b) (h2 : b.lt c) : a.lt c := by
  unfold Rank.lt at *
  omega

theorem maxCall_attained (rs : List ReadOp) : maxCall rs = 0 ∨ ∃ r ∈ rs, r.call = maxCall rs := by
  unfold maxCall
  have gen : ∀ (l : List ReadOp) (m : Nat),
      l.foldl (fun m r => max m r.call) m = m ∨ ∃ r ∈ l, r.call = l.foldl (fun m r => max m r.call) m := by
    intro l
    induction l with
    | nil => intro m; exact Or.inl rfl
    | cons a l ih =>
      intro m
      simp only [List.foldl_cons]
      rcases ih (max m a.call) with h | ⟨r, hr, he⟩
      · rw [h]
        by_cases hm : a.call ≤ m
        · left; exact Nat.max_eq_left hm
        · right; exact ⟨a, List.mem_cons_self, by rw [Nat.max_eq_right (by omega)]⟩
      · right; exact ⟨r, List.mem_cons_of_mem _ hr, he⟩
  exact gen rs 0

theorem minRet_attained (rs : List ReadOp) (m : Nat) (h : minRet rs = some m) : ∃ r ∈ rs, r.ret = m := by
  have gen : ∀ (l : List ReadOp) (m : Nat),
      l.foldl (fun m r => min m r.ret) m = m ∨ ∃ r ∈ l, r.ret = l.foldl (fun m r => min m r.ret) m := by
    intro l
    induction l with
    | nil => intro m; exact Or.inl rfl
    | cons a l ih =>
      intro m
      simp only [List.foldl_cons]
      rcases ih (min m a.ret) with h | ⟨r, hr, he⟩
      · rw [h]
        by_cases hm : m ≤ a.ret
        · left; exact Nat.min_eq_left hm
        · right; exact ⟨a, List.mem_cons_self, by rw [Nat.min_eq_right (by omega)]⟩
      · right; exact ⟨r, List.mem_cons_of_mem _ hr, he⟩
  cases rs with
  | nil => cases h
  | cons a l =>
    simp only [minRet, Option.some.injEq] at h
    rcases gen l a.ret with h' | ⟨r, hr, he⟩
    · exact ⟨a, List.mem_cons_self, by rw [← h, h']⟩
    · exact ⟨r, List.mem_cons_of_mem _ hr, by rw [← h, he]⟩

end KC.Lin
