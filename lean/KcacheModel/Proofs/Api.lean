/- list lemmas for the API-call model (Api.lean) -/
import KcacheModel.Api
namespace KC.C12
open KC

theorem lookL_setL_self (l : List (Nat × CallSt)) (i : Nat) (c : CallSt) (h : (lookL l i).isSome) : lookL (setL l i c) i = some c := by
  induction l with
  | nil => simp [lookL] at h
  | cons p ps ih =>
    obtain ⟨j, d⟩ := p
    by_cases hj : j = i
    · simp [setL, lookL, hj]
    · simp only [lookL, hj, if_false] at h
      simp [setL, lookL, hj, ih h]

theorem lookL_setL_other (l : List (Nat × CallSt)) (i j : Nat) (c : CallSt) (h : j ≠ i) : lookL (setL l i c) j = lookL l j := by
  induction l with
  | nil => rfl
  | cons p ps ih =>
    obtain ⟨k, d⟩ := p
    by_cases hk : k = i
    · subst hk
      have h2 : ¬ k = j := fun e => h e.symm
      simp [setL, lookL, h2, ih]
    · by_cases hkj : k = j
      · subst hkj; simp [setL, lookL, h]
      · simp [setL, lookL, hk, hkj, ih]

theorem look_set_self (s : Api) (i : Nat) (c : CallSt) (h : (s.look i).isSome) : (s.set i c).look i = some c :=
  lookL_setL_self s.calls i c h

theorem look_set_other (s : Api) (i j : Nat) (c : CallSt) (h : j ≠ i) : (s.set i c).look j = s.look j :=
  lookL_setL_other s.calls i j c h

end KC.C12
