/- helper lemmas for the filter properties (C17, C18, C19) -/
import KcacheModel.Filter
import KcacheModel.Workloads
namespace KC

theorem contains_of_setEq {α : Type} [BEq α] [LawfulBEq α] {a b : List α} (h : setEq a b = true) (x : α) :
    a.contains x = b.contains x := by
  simp only [setEq, Bool.and_eq_true, List.all_eq_true] at h
  obtain ⟨h1, h2⟩ := h
  cases ha : a.contains x with
  | true =>
    have hx : x ∈ a := by simpa using ha
    exact (h1 x hx).symm
  | false =>
    cases hb : b.contains x with
    | false => rfl
    | true =>
      have hx : x ∈ b := by simpa using hb
      have := h2 x hx
      simp_all

theorem setEq_refl {α : Type} [BEq α] [LawfulBEq α] (a : List α) : setEq a a = true := by
  simp [setEq]

theorem setEq_of_perm {α : Type} [BEq α] [LawfulBEq α] {a b : List α} (h : a.Perm b) : setEq a b = true := by
  simp only [setEq, Bool.and_eq_true, List.all_eq_true, List.contains_iff_mem]
  exact ⟨fun x hx => h.subset hx, fun x hx => h.symm.subset hx⟩

theorem comparable_of_fnFree {f : Filter} (h : fnFree f = true) : f.comparable = true := by
  cases f <;> simp_all [fnFree, Filter.comparable]

theorem fnFreeList_map {α : Type} (l : List α) (g : α → Filter) (h : ∀ a ∈ l, fnFree (g a) = true) :
    fnFree.fnFreeList (l.map g) = true := by
  induction l with
  | nil => rfl
  | cons a as ih =>
    simp only [List.map_cons, fnFree.fnFreeList, Bool.and_eq_true]
    exact ⟨h a List.mem_cons_self, ih (fun b hb => h b (List.mem_cons_of_mem _ hb))⟩

theorem fnFreeList_filterMap {α : Type} (l : List α) (g : α → Option Filter)
    (h : ∀ a ∈ l, ∀ f, g a = some f → fnFree f = true) :
    fnFree.fnFreeList (l.filterMap g) = true := by
  induction l with
  | nil => rfl
  | cons a as ih =>
    have ih' := ih (fun b hb => h b (List.mem_cons_of_mem _ hb))
    simp only [List.filterMap_cons]
    cases hg : g a with
    | none => simpa using ih'
    | some f =>
      simp only [fnFree.fnFreeList, Bool.and_eq_true]
      exact ⟨h a List.mem_cons_self f hg, ih'⟩

theorem workloadSelF_fnFree (w : Workload) : fnFree (workloadSelF w) = true := by
  unfold workloadSelF; split <;> rfl

theorem podsFilter_fnFree (ws : List Workload) : fnFree (podsFilter ws) = true := by
  unfold podsFilter
  simp only [fnFree]
  apply fnFreeList_map
  intro w _
  simp [fnFree, fnFree.fnFreeList, nsnameF, workloadSelF_fnFree]

theorem servicePodsFilter_fnFree (ws : List Workload) : fnFree (servicePodsFilter ws) = true := by
  unfold servicePodsFilter
  simp only [fnFree]
  apply fnFreeList_filterMap
  intro w _ f hf
  split at hf
  · cases hf
  · cases hf; simp [fnFree, fnFree.fnFreeList, nsnameF, labelsF]

theorem rcPodsFilter_fnFree (ws : List Workload) : fnFree (rcPodsFilter ws) = true := by
  unfold rcPodsFilter
  simp only [fnFree]
  apply fnFreeList_map
  intro w _
  rfl

theorem Ingress.ids_full (i : Ingress) (hns : i.ns ≠ "") : ∀ id ∈ i.ids, id.ns ≠ "" ∧ id.name ≠ "" := by
  intro id hid
  unfold Ingress.ids at hid
  simp only [List.mem_append, List.mem_map, List.mem_filter] at hid
  rcases hid with hid | ⟨s, hs, rfl⟩
  · split at hid
    · simp only [List.mem_singleton] at hid; subst hid; exact ⟨hns, by assumption⟩
    · simp at hid
  · exact ⟨hns, by simpa using hs.2⟩

theorem servicesFilter_equal_of_perm {is is' : List Ingress} (hp : is.Perm is')
    (hns : ∀ i ∈ is, i.ns ≠ "") : equals (servicesFilter is) (servicesFilter is') = true := by
  have hns' : ∀ i ∈ is', i.ns ≠ "" := fun i hi => hns i (hp.symm.subset hi)
  have hperm : (is.flatMap Ingress.ids).Perm (is'.flatMap Ingress.ids) := hp.flatMap_right _
  have hfull : ∀ (l : List Ingress), (∀ i ∈ l, i.ns ≠ "") →
      ∀ id ∈ l.flatMap Ingress.ids, (id.ns != "" && id.name != "") = true := by
    intro l hl id hid
    obtain ⟨i, hi, hid⟩ := List.mem_flatMap.mp hid
    have := Ingress.ids_full i (hl i hi) id hid
    simp [this.1, this.2]
  unfold servicesFilter nsnameF
  simp only [equals, Bool.and_eq_true, beq_iff_eq]
  refine ⟨setEq_of_perm (hperm.filter _), ?_⟩
  have e1 : (is.flatMap Ingress.ids).filter (fun id => !(id.ns != "" && id.name != "")) = [] := by
    apply List.filter_eq_nil_iff.mpr
    intro id hid; simp [hfull is hns id hid]
  have e2 : (is'.flatMap Ingress.ids).filter (fun id => !(id.ns != "" && id.name != "")) = [] := by
    apply List.filter_eq_nil_iff.mpr
    intro id hid; simp [hfull is' hns' id hid]
  rw [e1, e2]

end KC

namespace KC

theorem acceptAll_eq_all (fns : Nat → Obj → Bool) (cs : List Filter) (o : Obj) :
    acceptAll fns cs o = cs.all (accept fns · o) := by
  induction cs with
  | nil => rfl
  | cons c cs ih => simp [acceptAll, ih]

theorem acceptAny_eq_any (fns : Nat → Obj → Bool) (cs : List Filter) (o : Obj) :
    acceptAny fns cs o = cs.any (accept fns · o) := by
  induction cs with
  | nil => rfl
  | cons c cs ih => simp [acceptAny, ih]

theorem insertReq_perm (r : Req) (l : List Req) : (insertReq r l).Perm (r :: l) := by
  induction l with
  | nil => exact List.Perm.refl _
  | cons x xs ih =>
    unfold insertReq
    split
    · exact List.Perm.refl _
    · exact (List.Perm.cons x ih).trans (List.Perm.swap r x xs)

theorem sortReqs_perm (l : List Req) : (sortReqs l).Perm l := by
  induction l with
  | nil => exact List.Perm.refl _
  | cons r rs ih => exact (insertReq_perm r (sortReqs rs)).trans (List.Perm.cons r ih)

theorem all_perm {α : Type} {l l' : List α} (h : l.Perm l') (p : α → Bool) : l.all p = l'.all p := by
  induction h with
  | nil => rfl
  | cons x _ ih => simp [ih]
  | swap x y l => simp [Bool.and_left_comm]
  | trans _ _ ih1 ih2 => exact ih1.trans ih2

theorem any_perm {α : Type} {l l' : List α} (h : l.Perm l') (p : α → Bool) : l.any p = l'.any p := by
  induction h with
  | nil => rfl
  | cons x _ ih => simp [ih]
  | swap x y l => simp [Bool.or_left_comm]
  | trans _ _ ih1 ih2 => exact ih1.trans ih2

theorem all_congr_mem {α : Type} {l : List α} {p q : α → Bool} (h : ∀ a ∈ l, p a = q a) :
    l.all p = l.all q := by
  induction l with
  | nil => rfl
  | cons a as ih =>
    simp only [List.all_cons]
    rw [h a List.mem_cons_self, ih (fun b hb => h b (List.mem_cons_of_mem _ hb))]

theorem eqReq_matches (kv : String × String) (ls : List (String × String)) :
    Req.matches ⟨kv.1, .eq, [kv.2]⟩ ls = (AL.lookup kv.1 ls == some kv.2) := by
  simp only [Req.matches]
  cases AL.lookup kv.1 ls with
  | none => simp
  | some v =>
    simp only [List.contains_cons, List.contains_nil, Bool.or_false]
    by_cases h : v = kv.2
    · subst h; simp
    · simp

theorem lsReq_matches (e : LSReq) (hv : e.valid = true) (ls : List (String × String)) :
    Req.matches ⟨e.key, e.op, e.vals⟩ ls = e.holds ls := by
  obtain ⟨k, op, vals⟩ := e
  cases op <;> simp_all [LSReq.valid, Req.matches, LSReq.holds] <;>
    (cases AL.lookup k ls <;> rfl)

theorem labelsF_accept (fns : Nat → Obj → Bool) (m : List (String × String)) (o : Obj) :
    accept fns (labelsF m) o = subsetLabels m o.labels := by
  simp only [labelsF, accept, Sel.matches, subsetLabels, List.all_map]
  congr 1
  funext kv
  exact eqReq_matches kv o.labels

theorem labelSelectorF_accept (fns : Nat → Obj → Bool) (s : LabelSelector)
    (hv : ∀ e ∈ s.matchExpressions, e.valid = true) (o : Obj) :
    accept fns (labelSelectorF (some s)) o = s.holds o.labels := by
  simp only [labelSelectorF, labelSelectorAsSel, accept, LabelSelector.holds]
  split
  · rename_i h
    simp only [Bool.and_eq_true, List.isEmpty_iff] at h
    simp [Sel.matches, h.1, h.2, subsetLabels]
  · simp only [Sel.matches]
    rw [all_perm (sortReqs_perm _), List.all_append, List.all_map, List.all_map]
    congr 1
    · simp only [subsetLabels]
      congr 1; funext kv; exact eqReq_matches kv o.labels
    · apply all_congr_mem
      intro e he
      exact lsReq_matches e (hv e he) o.labels

theorem workloadSelF_accept (fns : Nat → Obj → Bool) (w : Workload) (hv : w.valid = true) (o : Obj) :
    accept fns (workloadSelF w) o = w.selects o.labels := by
  unfold workloadSelF Workload.selects
  unfold Workload.valid at hv
  cases hs : w.selector with
  | some s =>
    rw [hs] at hv
    simp only [List.all_eq_true] at hv
    exact labelSelectorF_accept fns s hv o
  | none => exact labelsF_accept fns _ o

theorem nsOnly_accept (fns : Nat → Obj → Bool) (ns : String) (hns : ns ≠ "") (o : Obj) :
    accept fns (nsnameF [⟨ns, ""⟩]) o = (ns == o.ns) := by
  simp only [nsnameF, accept, partialMatches, Obj.key]
  by_cases h : ns = o.ns
  · subst h; simp [hns]
  · simp [hns, h]

end KC
