/- helper definitions and lemmas (invariants and their preservation) behind the property theorems of Props/C11.lean -/
import KcacheModel.Life
namespace KC.C11
open KC

/-- `a` is `i` itself or one of the components `i` is (transitively) fed by -/
inductive Anc (s : Life) (a : Nat) : Nat → Prop
  | refl : Anc s a a
  | up (i : Nat) : 0 < i → Anc s a (s.parent i) → Anc s a i

/-- a fresh tree: nothing requested, nothing stopping, nothing done -/
def Fresh (s : Life) : Prop := ∀ i, s.stopReq i = false ∧ s.stopping i = false ∧ s.done i = false

structure Inv (s : Life) : Prop where
  stop_cause : ∀ i, s.stopping i = true → ∃ a, Anc s a i ∧ s.stopReq a = true
  done_stop : ∀ i, s.done i = true → s.stopping i = true

theorem anc_step (s : Life) (l : LLabel) (a i : Nat) : Anc (s.step l) a i ↔ Anc s a i := by
  have hp : (s.step l).parent = s.parent := by cases l <;> rfl
  constructor
  · intro h; induction h with
    | refl => exact .refl
    | up i hi _ ih => exact .up i hi (by rw [hp] at ih; exact ih)
  · intro h; induction h with
    | refl => exact .refl
    | up i hi _ ih => exact .up i hi (by rw [hp]; exact ih)

theorem inv_step (s : Life) (l : LLabel) (h : Inv s) (hen : s.enabled l = true) : Inv (s.step l) := by
  obtain ⟨hc, hd⟩ := h
  cases l with
  | close j =>
    refine ⟨?_, hd⟩
    intro i hi
    obtain ⟨a, ha, hr⟩ := hc i hi
    exact ⟨a, (anc_step s _ a i).mpr ha, by simp only [Life.step]; split <;> simp [hr]⟩
  | stop j =>
    simp only [Life.enabled, Bool.and_eq_true, decide_eq_true_eq, Bool.not_eq_true', Bool.or_eq_true] at hen
    refine ⟨?_, ?_⟩
    · intro i hi
      simp only [Life.step] at hi
      by_cases hij : i = j
      · subst hij
        rcases hen.2 with hr | ⟨hpos, hps⟩
        · exact ⟨i, .refl, hr⟩
        · obtain ⟨a, ha, hr⟩ := hc _ hps
          exact ⟨a, (anc_step s _ a i).mpr (.up i hpos ha), hr⟩
      · simp only [hij, ↓reduceIte] at hi
        obtain ⟨a, ha, hr⟩ := hc i hi
        exact ⟨a, (anc_step s _ a i).mpr ha, hr⟩
    · intro i hi
      have := hd i hi
      simp only [Life.step]; split <;> simp [this]
  | finish j =>
    simp only [Life.enabled, Bool.and_eq_true, decide_eq_true_eq, Bool.not_eq_true'] at hen
    refine ⟨fun i hi => ?_, ?_⟩
    · obtain ⟨a, ha, hr⟩ := hc i hi
      exact ⟨a, (anc_step s _ a i).mpr ha, hr⟩
    · intro i hi
      simp only [Life.step] at hi ⊢
      by_cases hij : i = j
      · subst hij; exact hen.1.1.2
      · simp only [hij, ↓reduceIte] at hi; exact hd i hi

theorem inv_run (s : Life) (ls : List LLabel) (s' : Life) (h : Inv s) (hr : s.run ls = some s') : Inv s' := by
  induction ls generalizing s with
  | nil => simp [Life.run] at hr; subst hr; exact h
  | cons l ls ih =>
    simp only [Life.run] at hr
    split at hr
    · rename_i hen; exact ih _ (inv_step s l h hen) hr
    · cases hr

theorem inv_fresh (s : Life) (h : Fresh s) : Inv s :=
  ⟨(fun i hi => by rw [(h i).2.1] at hi; cases hi), (fun i hi => by rw [(h i).2.2] at hi; cases hi)⟩

theorem terminal_stop (s : Life) (ht : s.terminal) (i : Nat) (hi : i < s.len)
    (h : s.stopReq i = true ∨ (0 < i ∧ s.stopping (s.parent i) = true)) : s.stopping i = true := by
  have := (ht i).1
  simp only [Life.enabled, hi, decide_true, Bool.true_and] at this
  cases hs : s.stopping i with
  | true => rfl
  | false =>
    rcases h with h | ⟨h1, h2⟩
    · simp [hs, h] at this
    · simp [hs, h1, h2] at this

theorem terminal_stopping_down (s : Life) (hw : s.WF) (ht : s.terminal) (a i : Nat) (h : Anc s a i) (hi : i < s.len)
    (hr : s.stopReq a = true) : s.stopping i = true := by
  induction h with
  | refl => exact terminal_stop s ht _ hi (Or.inl hr)
  | up i hpos _ ih =>
    have hp := hw i hpos hi
    exact terminal_stop s ht i hi (Or.inr ⟨hpos, ih (by omega)⟩)

theorem terminal_done (s : Life) (hw : s.WF) (ht : s.terminal) :
    ∀ n i, s.len - i = n → i < s.len → s.stopping i = true → s.done i = true := by
  intro n
  induction n using Nat.strongRecOn with
  | _ n ih =>
    intro i hn hi hs
    have hcd : s.childrenDone i = true := by
      simp only [Life.childrenDone, List.all_eq_true, List.mem_range, Bool.or_eq_true, Bool.not_eq_true']
      intro c hc
      by_cases hch : s.isChild i c = true
      · right
        simp only [Life.isChild, Bool.and_eq_true, decide_eq_true_eq, beq_iff_eq] at hch
        obtain ⟨⟨hpos, _⟩, hpar⟩ := hch
        have hci : i < c := by have := hw c hpos hc; omega
        have hsc : s.stopping c = true := terminal_stop s ht c hc (Or.inr ⟨hpos, by rw [hpar]; exact hs⟩)
        exact ih (s.len - c) (by omega) c rfl hc hsc
      · left; simpa using hch
    have := (ht i).2
    simp only [Life.enabled, hi, decide_true, hs, hcd, Bool.true_and, Bool.and_true, Bool.not_eq_false'] at this
    exact this

def pending (s : Life) : Nat :=
  ((List.range s.len).filter (fun i => !s.stopping i)).length + ((List.range s.len).filter (fun i => !s.done i)).length

theorem filter_flip (l : List Nat) (hn : l.Nodup) (p q : Nat → Bool) (i : Nat) (hi : i ∈ l) (hp : p i = true)
    (hq : q i = false) (hsame : ∀ j, j ≠ i → q j = p j) : (l.filter q).length + 1 = (l.filter p).length := by
  induction l with
  | nil => cases hi
  | cons x xs ih =>
    simp only [List.nodup_cons] at hn
    by_cases hx : x = i
    · subst hx
      have hrest : xs.filter q = xs.filter p := by
        apply List.filter_congr
        intro j hj
        exact hsame j (fun e => hn.1 (e ▸ hj))
      simp [List.filter_cons, hp, hq, hrest]
    · have hi' : i ∈ xs := by
        rcases List.mem_cons.mp hi with h | h
        · exact absurd h.symm hx
        · exact h
      have := ih hn.2 hi'
      simp only [List.filter_cons, hsame x hx]
      split
      · simp only [List.length_cons]; omega
      · exact this

end KC.C11
