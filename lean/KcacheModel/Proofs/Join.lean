/-
  The join machine (join/*.go): a source monitor whose handler reads the source cache and hands
  filterFn(sources) to Refilter on a deferred filtered clone of the destination. Model, invariant and its
  preservation; the property theorems are in Props/C09.lean.
-/
namespace KC.C09
open KC

/-- the monitor side of a join: `n` source changes so far (the source cache has applied them), the join's
subscription exists since change `s0`, `handled` of them have been handed to the handler, and the last
`Refilter(filterFn(List()))` used the source cache as of change `last`. Each handler call lists the cache
*after* the change that triggered it was applied (the cache is updated before the event is published). -/
structure JS where
  n : Nat
  s0 : Nat
  handled : Nat
  last : Nat
  inited : Bool

inductive JL
  | srcChange
  | init (j : Nat)     -- OnInitialize: the cache as of change j
  | handle (j : Nat)   -- OnCreate/OnUpdate/OnDelete for the next event: the cache as of change j

def JS.enabled (s : JS) : JL → Bool
  | .srcChange => true
  | .init j => !s.inited && decide (s.s0 ≤ j) && decide (j ≤ s.n)
  | .handle j => s.inited && decide (s.handled < s.n) && decide (s.handled + 1 ≤ j) && decide (j ≤ s.n)

def JS.step (s : JS) : JL → JS
  | .srcChange => { s with n := s.n + 1 }
  | .init j => { s with inited := true, last := j }
  | .handle j => { s with handled := s.handled + 1, last := j }

def JS.run (s : JS) : List JL → Option JS
  | [] => some s
  | l :: ls => if s.enabled l then (s.step l).run ls else none

def JSInv (s : JS) : Prop :=
  s.handled ≤ s.n ∧ (s.inited = false → s.handled = s.s0) ∧ (s.inited = true → s.handled ≤ s.last ∧ s.last ≤ s.n)

theorem jsinv_step (s : JS) (l : JL) (h : JSInv s) (hen : s.enabled l = true) : JSInv (s.step l) := by
  obtain ⟨h1, h2, h3⟩ := h
  cases l with
  | srcChange =>
    refine ⟨by show s.handled ≤ s.n + 1; omega, h2, fun hi => ?_⟩
    have := h3 hi
    exact ⟨this.1, by show s.last ≤ s.n + 1; omega⟩
  | init j =>
    simp only [JS.enabled, Bool.and_eq_true, Bool.not_eq_true', decide_eq_true_eq] at hen
    refine ⟨h1, (fun hi => by cases hi), fun _ => ?_⟩
    have := h2 hen.1.1
    exact ⟨by show s.handled ≤ j; omega, hen.2⟩
  | handle j =>
    simp only [JS.enabled, Bool.and_eq_true, decide_eq_true_eq] at hen
    refine ⟨by show s.handled + 1 ≤ s.n; omega, fun hi => ?_, fun _ => ⟨hen.1.2, hen.2⟩⟩
    have : s.inited = false := hi
    rw [this] at hen; simp at hen

theorem jsinv_run (s : JS) (ls : List JL) (t : JS) (h : JSInv s) (hr : s.run ls = some t) : JSInv t := by
  induction ls generalizing s with
  | nil => simp [JS.run] at hr; subst hr; exact h
  | cons l ls ih =>
    simp only [JS.run] at hr
    split at hr
    · rename_i hen; exact ih _ (jsinv_step s l h hen) hr
    · cases hr

end KC.C09
