/- bridge between the executable tree model (Sys.lean) and the lifecycle cascade (Life.lean): helper lemmas -/
import KcacheModel.Sys
import KcacheModel.Props.C11
import KcacheModel.Proofs.Life2
namespace KC.C11
open KC

/-- the lifecycle tree of the executable tree model: same nodes, same feeders, nothing requested yet -/
def lifeOf (s : Sys) : Life :=
  ⟨s.nodes.length, fun i => ((s.node i).map (·.parent)).getD 0, fun _ => false, fun _ => false, fun _ => false⟩

theorem descendantOf_anc (s : Sys) (a : Nat) : ∀ (f i : Nat), descendantOf f s a i = true → Anc (lifeOf s) a i := by
  intro f
  induction f with
  | zero => intro i h; simp [descendantOf] at h
  | succ f ih =>
    intro i h
    unfold descendantOf at h
    by_cases hia : i = a
    · subst hia; exact Anc.refl
    · have : (i == a) = false := by simpa using hia
      simp only [this, Bool.false_eq_true, if_false] at h
      by_cases hi0 : i = 0
      · simp [hi0] at h
      · have : (i == 0) = false := by simpa using hi0
        simp only [this, Bool.false_eq_true, if_false] at h
        cases hn : s.node i with
        | none => simp [hn] at h
        | some n =>
          simp only [hn] at h
          have hp : (lifeOf s).parent i = n.parent := by simp [lifeOf, hn]
          exact Anc.up i (by omega) (by rw [hp]; exact ih _ h)

theorem anc_descendantOf (s : Sys) (hw : (lifeOf s).WF) (a : Nat) :
    ∀ i, Anc (lifeOf s) a i → i < s.nodes.length → ∀ f, i + 1 ≤ f → descendantOf f s a i = true := by
  intro i h
  induction h with
  | refl => intro _ f hf; cases f with
    | zero => omega
    | succ f => simp [descendantOf]
  | up i hi0 _ ih =>
    intro hil f hf
    cases f with
    | zero => omega
    | succ f =>
      unfold descendantOf
      by_cases hia : i = a
      · simp [hia]
      · have h1 : (i == a) = false := by simpa using hia
        have h2 : (i == 0) = false := by simp; omega
        simp only [h1, h2, Bool.false_eq_true, if_false]
        have hlt : (lifeOf s).parent i < i := hw i hi0 hil
        cases hn : s.node i with
        | none =>
          have : s.nodes[i]? = none := hn
          rw [List.getElem?_eq_none_iff] at this
          omega
        | some n =>
          simp only
          have hp : (lifeOf s).parent i = n.parent := by simp [lifeOf, hn]
          rw [hp] at hlt ih
          exact ih (by omega) f (by omega)


theorem run_shape (s : Life) (ls : List LLabel) (t : Life) (hr : s.run ls = some t) :
    t.len = s.len ∧ t.parent = s.parent ∧ (∀ a i, Anc t a i ↔ Anc s a i) := by
  induction ls generalizing s with
  | nil => simp only [Life.run, Option.some.injEq] at hr; subst hr; exact ⟨rfl, rfl, fun _ _ => Iff.rfl⟩
  | cons l ls ih =>
    simp only [Life.run] at hr
    split at hr
    · obtain ⟨h1, h2, h3⟩ := ih (s.step l) hr
      refine ⟨by rw [h1, C12.step_len], by rw [h2, C12.step_parent], fun a i => ?_⟩
      rw [h3 a i, anc_step]
    · cases hr

theorem run_internal_stopReq (s : Life) (ls : List LLabel) (hint : ∀ l ∈ ls, C12.internal l = true) (t : Life)
    (hr : s.run ls = some t) : t.stopReq = s.stopReq := by
  induction ls generalizing s with
  | nil => simp only [Life.run, Option.some.injEq] at hr; subst hr; rfl
  | cons l ls ih =>
    simp only [Life.run] at hr
    split at hr
    · rw [ih (s.step l) (fun l' h => hint l' (List.mem_cons_of_mem _ h)) hr]
      have := hint l List.mem_cons_self
      cases l with
      | close i => simp [C12.internal] at this
      | stop i => rfl
      | finish i => rfl
    · cases hr

end KC.C11
