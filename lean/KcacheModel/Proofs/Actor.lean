/- the actor model's invariant and list lemmas behind C15 (helper lemmas; the property theorems are in Props/C15.lean) -/
import KcacheModel.Actor
import KcacheModel.Cache
namespace KC.C15
open KC

section
variable {S Op Res : Type} (apply : S → Op → S × Res)

theorem seqRun_append (s : S) (ops : List Op) (op : Op) :
    seqRun apply s (ops ++ [op]) =
      ((apply (seqRun apply s ops).1 op).1, (seqRun apply s ops).2 ++ [(apply (seqRun apply s ops).1 op).2]) := by
  induction ops generalizing s with
  | nil => simp [seqRun]
  | cons o os ih => simp [seqRun, ih]

structure AInv (s0 : S) (s : ASt S Op Res) : Prop where
  /-- the processed requests, replayed one after the other on the initial state, give the current state and
      exactly the recorded results -/
  seq : seqRun apply s0 (s.lin.map (·.2.1)) = (s.st, s.lin.map (·.2.2))
  /-- every result handed out (or waiting to be) is the one computed at the processing instant -/
  computed_lin : ∀ i r, lookupId i s.computed = some r → ∃ op, (i, op, r) ∈ s.lin
  returned_lin : ∀ i r, (i, r) ∈ s.returned → ∃ op, (i, op, r) ∈ s.lin
  /-- ids are fresh -/
  lin_called : ∀ i op r, (i, op, r) ∈ s.lin → i ∈ s.called
  pending_called : ∀ i op, lookupId i s.pending = some op → i ∈ s.called
  pending_not_lin : ∀ i op, lookupId i s.pending = some op → ∀ op' r, (i, op', r) ∉ s.lin
  /-- real-time order: if `i` had returned when `j` was called, `i` is processed before `j` -/
  rt : ∀ i j, (i, j) ∈ s.before → (∃ a, idxOf i s.lin = some a) ∧ ∀ a b, idxOf i s.lin = some a → idxOf j s.lin = some b → a < b
  before_called : ∀ i j, (i, j) ∈ s.before → j ∈ s.called

theorem lookupId_removeId_ne {α : Type} (i j : Nat) (l : List (Nat × α)) (h : i ≠ j) :
    lookupId i (removeId j l) = lookupId i l := by
  induction l with
  | nil => rfl
  | cons p rest ih =>
    obtain ⟨k, a⟩ := p
    by_cases hk : k = j
    · subst hk
      have : ¬ k = i := fun e => h e.symm
      simp [removeId, lookupId, this, ih]
    · by_cases hki : k = i
      · subst hki; simp [removeId, lookupId, hk]
      · simp [removeId, lookupId, hk, hki, ih]

theorem lookupId_removeId_self {α : Type} (i : Nat) (l : List (Nat × α)) : lookupId i (removeId i l) = none := by
  induction l with
  | nil => rfl
  | cons p rest ih =>
    obtain ⟨k, a⟩ := p
    by_cases hk : k = i <;> simp [removeId, lookupId, hk, ih]

theorem lookupId_append {α : Type} (i : Nat) (l : List (Nat × α)) (j : Nat) (a : α) :
    lookupId i (l ++ [(j, a)]) = (lookupId i l).orElse (fun _ => if j = i then some a else none) := by
  induction l with
  | nil => simp [lookupId]
  | cons p rest ih =>
    obtain ⟨k, c⟩ := p
    by_cases hk : k = i <;> simp [lookupId, hk, ih]

theorem idxOf_append_some (i : Nat) (l : List (Nat × Op × Res)) (x : Nat × Op × Res) (a : Nat)
    (h : idxOf i l = some a) : idxOf i (l ++ [x]) = some a := by
  induction l generalizing a with
  | nil => simp [idxOf] at h
  | cons p rest ih =>
    obtain ⟨k, o, r⟩ := p
    by_cases hk : k = i
    · simp [idxOf, hk] at h ⊢; exact h
    · simp only [idxOf, hk, ↓reduceIte, Option.map_eq_some_iff, List.cons_append] at h ⊢
      obtain ⟨b, hb, hab⟩ := h
      exact ⟨b, ih b hb, hab⟩

theorem idxOf_lt_length (i : Nat) (l : List (Nat × Op × Res)) (a : Nat) (h : idxOf i l = some a) : a < l.length := by
  induction l generalizing a with
  | nil => simp [idxOf] at h
  | cons p rest ih =>
    obtain ⟨k, o, r⟩ := p
    by_cases hk : k = i
    · simp [idxOf, hk] at h; subst h; simp
    · simp only [idxOf, hk, ↓reduceIte, Option.map_eq_some_iff] at h
      obtain ⟨b, hb, hab⟩ := h
      have := ih b hb
      simp; omega

theorem idxOf_append_new (i : Nat) (l : List (Nat × Op × Res)) (o : Op) (r : Res)
    (h : idxOf i l = none) : idxOf i (l ++ [(i, o, r)]) = some l.length := by
  induction l with
  | nil => simp [idxOf]
  | cons p rest ih =>
    obtain ⟨k, o', r'⟩ := p
    by_cases hk : k = i
    · simp [idxOf, hk] at h
    · simp only [idxOf, hk, ↓reduceIte, Option.map_eq_none_iff] at h
      simp [idxOf, hk, ih h]

theorem idxOf_append_other (b i : Nat) (l : List (Nat × Op × Res)) (o : Op) (r : Res) (h : idxOf b l = none)
    (hbi : b ≠ i) : idxOf b (l ++ [(i, o, r)]) = none := by
  induction l with
  | nil => simp only [List.nil_append, idxOf]; have : ¬ i = b := fun e => hbi e.symm; simp [this]
  | cons p rest ih =>
    obtain ⟨k, o2, r2⟩ := p
    by_cases hk : k = b
    · simp [idxOf, hk] at h
    · simp only [idxOf, hk, ↓reduceIte, Option.map_eq_none_iff] at h
      simp [idxOf, hk, ih h]

theorem idxOf_none_of_not_mem (i : Nat) (l : List (Nat × Op × Res)) (h : ∀ op r, (i, op, r) ∉ l) : idxOf i l = none := by
  induction l with
  | nil => rfl
  | cons p rest ih =>
    obtain ⟨k, o, r⟩ := p
    by_cases hk : k = i
    · subst hk; exact absurd List.mem_cons_self (h o r)
    · simp only [idxOf, hk, ↓reduceIte, Option.map_eq_none_iff]
      exact ih (fun op r hm => h op r (List.mem_cons_of_mem _ hm))

theorem idxOf_some_of_mem (i : Nat) (l : List (Nat × Op × Res)) (op : Op) (r : Res) (h : (i, op, r) ∈ l) :
    ∃ a, idxOf i l = some a := by
  induction l with
  | nil => cases h
  | cons p rest ih =>
    obtain ⟨k, o, r'⟩ := p
    by_cases hk : k = i
    · exact ⟨0, by simp [idxOf, hk]⟩
    · rcases List.mem_cons.mp h with h' | h'
      · cases h'; exact absurd rfl hk
      · obtain ⟨a, ha⟩ := ih h'
        exact ⟨a + 1, by simp [idxOf, hk, ha]⟩

theorem ainv_init (s0 : S) : AInv apply s0 ({ st := s0 } : ASt S Op Res) := by
  refine ⟨rfl, ?_, ?_, ?_, ?_, ?_, ?_, ?_⟩ <;> intros <;> simp_all [lookupId]

theorem ainv_step (s0 : S) (s : ASt S Op Res) (e : AEv Op Res) (h : AInv apply s0 s) (hen : s.enabled e = true) :
    AInv apply s0 (s.step apply e) := by
  obtain ⟨hseq, hcl, hrl, hlc, hpc, hpnl, hrt, hbc⟩ := h
  cases e with
  | call i op =>
    simp only [ASt.enabled, Bool.not_eq_true', List.contains_eq_mem, decide_eq_false_iff_not] at hen
    simp only [ASt.step]
    refine ⟨hseq, hcl, hrl, fun j o r hm => List.mem_cons_of_mem _ (hlc j o r hm), ?_, ?_, ?_, ?_⟩
    · intro j o hj
      rw [lookupId_append] at hj
      cases hl : lookupId j s.pending with
      | some o' => exact List.mem_cons_of_mem _ (hpc j o' hl)
      | none =>
        simp only [hl, Option.orElse_none] at hj
        split at hj
        · rename_i hij; subst hij; exact List.mem_cons_self
        · cases hj
    · intro j o hj o' r hm
      rw [lookupId_append] at hj
      cases hl : lookupId j s.pending with
      | some o'' => exact hpnl j o'' hl o' r hm
      | none =>
        simp only [hl, Option.orElse_none] at hj
        split at hj
        · rename_i hij; subst hij; exact hen (hlc _ o' r hm)
        · cases hj
    · intro a b hab
      rcases List.mem_append.mp hab with hab | hab
      · exact hrt a b hab
      · simp only [List.mem_map] at hab
        obtain ⟨⟨a', r⟩, hm, heq⟩ := hab
        simp only [Prod.mk.injEq] at heq
        obtain ⟨rfl, rfl⟩ := heq
        obtain ⟨o, hmo⟩ := hrl a' r hm
        refine ⟨idxOf_some_of_mem a' s.lin o r hmo, ?_⟩
        intro x y _ hy
        -- `i` is fresh: it is not in `lin`
        have : idxOf i s.lin = none := idxOf_none_of_not_mem i s.lin (fun o' r' hm' => hen (hlc i o' r' hm'))
        rw [this] at hy; cases hy
    · intro a b hab
      rcases List.mem_append.mp hab with hab | hab
      · exact List.mem_cons_of_mem _ (hbc a b hab)
      · simp only [List.mem_map] at hab
        obtain ⟨⟨a', r⟩, _, heq⟩ := hab
        simp only [Prod.mk.injEq] at heq
        obtain ⟨_, rfl⟩ := heq
        exact List.mem_cons_self
  | proc i =>
    simp only [ASt.enabled] at hen
    simp only [ASt.step]
    cases hp : lookupId i s.pending with
    | none => rw [hp] at hen; cases hen
    | some op =>
      simp only
      have hnl := hpnl i op hp
      have hidx : idxOf i s.lin = none := idxOf_none_of_not_mem i s.lin hnl
      refine ⟨?_, ?_, ?_, ?_, ?_, ?_, ?_, hbc⟩
      · simp only [List.map_append, List.map_cons, List.map_nil]
        rw [seqRun_append, hseq]
      · intro j r hj
        rw [lookupId_append] at hj
        cases hl : lookupId j s.computed with
        | some r' =>
          simp only [hl, Option.orElse_some, Option.some.injEq] at hj; subst hj
          obtain ⟨o, hm⟩ := hcl j r' hl
          exact ⟨o, List.mem_append_left _ hm⟩
        | none =>
          simp only [hl, Option.orElse_none] at hj
          split at hj
          · rename_i hij; subst hij; cases hj; exact ⟨op, by simp⟩
          · cases hj
      · intro j r hm
        obtain ⟨o, hmo⟩ := hrl j r hm
        exact ⟨o, List.mem_append_left _ hmo⟩
      · intro j o r hm
        rcases List.mem_append.mp hm with hm | hm
        · exact hlc j o r hm
        · simp only [List.mem_singleton, Prod.mk.injEq] at hm
          obtain ⟨rfl, _, _⟩ := hm
          exact hpc _ op hp
      · intro j o hj
        by_cases hji : j = i
        · subst hji; rw [lookupId_removeId_self] at hj; cases hj
        · rw [lookupId_removeId_ne j i s.pending hji] at hj; exact hpc j o hj
      · intro j o hj o' r hm
        by_cases hji : j = i
        · subst hji; rw [lookupId_removeId_self] at hj; cases hj
        · rw [lookupId_removeId_ne j i s.pending hji] at hj
          rcases List.mem_append.mp hm with hm | hm
          · exact hpnl j o hj o' r hm
          · simp only [List.mem_singleton, Prod.mk.injEq] at hm
            exact hji hm.1
      · intro a b hab
        obtain ⟨⟨x, hx⟩, hord⟩ := hrt a b hab
        refine ⟨⟨x, idxOf_append_some a s.lin _ x hx⟩, ?_⟩
        intro x' y' hx' hy'
        rw [idxOf_append_some a s.lin _ x hx] at hx'
        cases hx'
        cases hb : idxOf b s.lin with
        | some y =>
          rw [idxOf_append_some b s.lin _ y hb] at hy'; cases hy'
          exact hord _ _ hx hb
        | none =>
          -- `b` is the request being processed now: it goes to the end
          by_cases hbi : b = i
          · subst hbi
            rw [idxOf_append_new b s.lin op _ hb] at hy'; cases hy'
            exact idxOf_lt_length a s.lin _ hx
          · rw [idxOf_append_other b i s.lin op _ hb hbi] at hy'; cases hy'
  | ret i =>
    simp only [ASt.enabled] at hen
    simp only [ASt.step]
    cases hp : lookupId i s.computed with
    | none => rw [hp] at hen; cases hen
    | some r =>
      simp only
      refine ⟨hseq, ?_, ?_, hlc, hpc, hpnl, hrt, hbc⟩
      · intro j r' hj
        by_cases hji : j = i
        · subst hji; rw [lookupId_removeId_self] at hj; cases hj
        · rw [lookupId_removeId_ne j i s.computed hji] at hj
          exact hcl j r' hj
      · intro j r' hm
        rcases List.mem_append.mp hm with hm | hm
        · exact hrl j r' hm
        · simp only [List.mem_singleton, Prod.mk.injEq] at hm
          obtain ⟨rfl, rfl⟩ := hm
          exact hcl _ _ hp


theorem ainv_run (s0 : S) (s : ASt S Op Res) (es : List (AEv Op Res)) (s' : ASt S Op Res)
    (h : AInv apply s0 s) (hr : s.run apply es = some s') : AInv apply s0 s' := by
  induction es generalizing s with
  | nil => simp [ASt.run] at hr; subst hr; exact h
  | cons e es ih =>
    simp only [ASt.run] at hr
    split at hr
    · rename_i hen; exact ih _ (ainv_step apply s0 s e h hen) hr
    · cases hr

end

end KC.C15
