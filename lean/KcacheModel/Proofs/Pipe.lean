/- invariants of the publication pipeline (for C05, C10) -/
import KcacheModel.Pipe
namespace KC
section
variable {α : Type}

structure PInv (s : Pipe α) : Prop where
  len_pos : 0 < s.len
  root_pub : (s.node 0).isPub = true
  parent_lt : ∀ c, 0 < c → c < s.len → (s.node c).parent < c ∧ (s.node (s.node c).parent).isPub = true
  att_le : ∀ c, 0 < c → c < s.len → (s.node c).attachedAt ≤ (s.node (s.node c).parent).out.length
  /-- exactness while nothing was dropped -/
  root_exact : (s.node 0).dropped = false → (s.node 0).out ++ (s.node 0).q = s.published
  exact : ∀ c, 0 < c → c < s.len → (s.node c).dropped = false →
    (s.node c).out ++ (s.node c).q = ((s.node (s.node c).parent).out).drop (s.node c).attachedAt
  /-- in-order subsequence always, drops or not -/
  root_sub : ((s.node 0).out ++ (s.node 0).q).Sublist s.published
  sub : ∀ c, 0 < c → c < s.len →
    ((s.node c).out ++ (s.node c).q).Sublist (((s.node (s.node c).parent).out).drop (s.node c).attachedAt)

theorem pinv_init (cap : Nat) : PInv (Pipe.init cap : Pipe α) := by
  refine ⟨by simp [Pipe.init], rfl, ?_, ?_, fun _ => rfl, ?_, by simp [Pipe.init], ?_⟩ <;>
    (intro c h1 h2; simp [Pipe.init] at h2; omega)

theorem offer_of_not_full (cap : Nat) (q : List α) (e : α) (h : full cap q = false) : offer cap q e = q ++ [e] := by
  simp only [full, Bool.not_eq_false', decide_eq_true_eq] at h
  simp [offer, h]

theorem offer_sublist (cap : Nat) (q : List α) (e : α) : (offer cap q e).Sublist (q ++ [e]) := by
  unfold offer; split
  · exact List.Sublist.refl _
  · exact List.sublist_append_left q [e]

theorem drop_append_of_le {l : List α} {n : Nat} (h : n ≤ l.length) (e : α) : (l ++ [e]).drop n = l.drop n ++ [e] := by
  rw [List.drop_append_of_le_length h]

theorem pinv_step (s : Pipe α) (l : PLabel α) (hi : PInv s) (hen : s.enabled l = true) : PInv (s.step l) := by
  cases l with
  | publish e =>
    simp only [Pipe.step]
    refine ⟨hi.len_pos, by simp [hi.root_pub], ?_, ?_, ?_, ?_, ?_, ?_⟩
    · intro c h1 h2
      have hc : ¬ c = 0 := by omega
      obtain ⟨hp, hpub⟩ := hi.parent_lt c h1 h2
      simp only [hc, ↓reduceIte]
      refine ⟨hp, ?_⟩
      by_cases h0 : (s.node c).parent = 0
      · simp [h0, hi.root_pub]
      · simp [h0, hpub]
    · intro c h1 h2
      have hc : ¬ c = 0 := by omega
      simp only [hc, ↓reduceIte]
      by_cases h0 : (s.node c).parent = 0
      · simp only [h0, ↓reduceIte]; have := hi.att_le c h1 h2; rw [h0] at this; exact this
      · simp only [h0, ↓reduceIte]; exact hi.att_le c h1 h2
    · intro hd
      simp only [↓reduceIte, Bool.or_eq_false_iff] at hd ⊢
      rw [offer_of_not_full _ _ _ hd.2, ← List.append_assoc, hi.root_exact hd.1]
    · intro c h1 h2 hd
      have hc : ¬ c = 0 := by omega
      simp only [hc, ↓reduceIte] at hd ⊢
      by_cases h0 : (s.node c).parent = 0
      · simp only [h0, ↓reduceIte]; have := hi.exact c h1 h2 hd; rw [h0] at this; exact this
      · simp only [h0, ↓reduceIte]; exact hi.exact c h1 h2 hd
    · simp only [↓reduceIte]
      have h1 : ((s.node 0).out ++ offer s.cap (s.node 0).q e).Sublist (((s.node 0).out ++ (s.node 0).q) ++ [e]) := by
        rw [List.append_assoc]; exact List.Sublist.append_left (offer_sublist _ _ _) _
      exact h1.trans (List.Sublist.append_right hi.root_sub _)
    · intro c h1 h2
      have hc : ¬ c = 0 := by omega
      simp only [hc, ↓reduceIte]
      by_cases h0 : (s.node c).parent = 0
      · simp only [h0, ↓reduceIte]; have := hi.sub c h1 h2; rw [h0] at this; exact this
      · simp only [h0, ↓reduceIte]; exact hi.sub c h1 h2
  | consume l =>
    simp only [Pipe.enabled, Bool.and_eq_true, decide_eq_true_eq, Bool.not_eq_true'] at hen
    obtain ⟨⟨hl, hleaf⟩, hne⟩ := hen
    simp only [Pipe.step]
    cases hq : (s.node l).q with
    | nil => simp [hq] at hne
    | cons e rest =>
      simp only
      have hl0 : l ≠ 0 := by intro h; subst h; rw [hi.root_pub] at hleaf; cases hleaf
      -- the consumer is no one's parent (parents are publishers)
      have hnp : ∀ c, 0 < c → c < s.len → (s.node c).parent ≠ l := by
        intro c h1 h2 h; have := (hi.parent_lt c h1 h2).2; rw [h, hleaf] at this; cases this
      refine ⟨hi.len_pos, by simp [hl0.symm, hi.root_pub], ?_, ?_, ?_, ?_, ?_, ?_⟩
      · intro c h1 h2
        obtain ⟨hp, hpub⟩ := hi.parent_lt c h1 h2
        by_cases hc : c = l
        · subst hc; simp only [↓reduceIte]; exact ⟨hp, by simp [hnp c h1 h2, hpub]⟩
        · simp only [hc, ↓reduceIte]; exact ⟨hp, by simp [hnp c h1 h2, hpub]⟩
      · intro c h1 h2
        by_cases hc : c = l
        · subst hc; simp only [↓reduceIte, hnp c h1 h2]; exact hi.att_le c h1 h2
        · simp only [hc, ↓reduceIte, hnp c h1 h2]; exact hi.att_le c h1 h2
      · intro hd; simp only [hl0.symm, ↓reduceIte] at hd ⊢; exact hi.root_exact hd
      · intro c h1 h2 hd
        by_cases hc : c = l
        · subst hc
          simp only [↓reduceIte, hnp c h1 h2] at hd ⊢
          rw [List.append_assoc]; simp only [List.singleton_append]
          rw [← hq]; exact hi.exact c h1 h2 hd
        · simp only [hc, ↓reduceIte, hnp c h1 h2] at hd ⊢; exact hi.exact c h1 h2 hd
      · simp only [hl0.symm, ↓reduceIte]; exact hi.root_sub
      · intro c h1 h2
        by_cases hc : c = l
        · subst hc
          simp only [↓reduceIte, hnp c h1 h2]
          rw [List.append_assoc]; simp only [List.singleton_append]
          rw [← hq]; exact hi.sub c h1 h2
        · simp only [hc, ↓reduceIte, hnp c h1 h2]; exact hi.sub c h1 h2
  | attach p isPub =>
    simp only [Pipe.enabled, Bool.and_eq_true, decide_eq_true_eq] at hen
    obtain ⟨hp, hpub⟩ := hen
    simp only [Pipe.step]
    have hlen := hi.len_pos
    have hne0 : ¬ (0 = s.len) := by omega
    refine ⟨Nat.succ_pos _, by simp [hne0, hi.root_pub], ?_, ?_, ?_, ?_, ?_, ?_⟩
    · intro c h1 h2
      have h2 : c < s.len + 1 := h2
      by_cases hc : c = s.len
      · subst hc
        have : ¬ p = s.len := by omega
        simp [this, hp, hpub]
      · have hc2 : c < s.len := by omega
        obtain ⟨hpl, hpp⟩ := hi.parent_lt c h1 hc2
        have : ¬ (s.node c).parent = s.len := by omega
        simp [hc, this, hpl, hpp]
    · intro c h1 h2
      have h2 : c < s.len + 1 := h2
      by_cases hc : c = s.len
      · subst hc
        have : ¬ p = s.len := by omega
        simp [this]
      · have hc2 : c < s.len := by omega
        have : ¬ (s.node c).parent = s.len := by have := (hi.parent_lt c h1 hc2).1; omega
        simp only [hc, ↓reduceIte, this]; exact hi.att_le c h1 hc2
    · intro hd; simp only [hne0, ↓reduceIte] at hd ⊢; exact hi.root_exact hd
    · intro c h1 h2 hd
      have h2 : c < s.len + 1 := h2
      by_cases hc : c = s.len
      · subst hc
        have : ¬ p = s.len := by omega
        simp [this]
      · have hc2 : c < s.len := by omega
        have : ¬ (s.node c).parent = s.len := by have := (hi.parent_lt c h1 hc2).1; omega
        simp only [hc, ↓reduceIte, this] at hd ⊢; exact hi.exact c h1 hc2 hd
    · simp only [hne0, ↓reduceIte]; exact hi.root_sub
    · intro c h1 h2
      have h2 : c < s.len + 1 := h2
      by_cases hc : c = s.len
      · subst hc
        have : ¬ p = s.len := by omega
        simp [this]
      · have hc2 : c < s.len := by omega
        have : ¬ (s.node c).parent = s.len := by have := (hi.parent_lt c h1 hc2).1; omega
        simp only [hc, ↓reduceIte, this]; exact hi.sub c h1 hc2
  | forward p =>
    simp only [Pipe.enabled, Bool.and_eq_true, decide_eq_true_eq, Bool.not_eq_true'] at hen
    obtain ⟨⟨hp, hpub⟩, hne⟩ := hen
    simp only [Pipe.step]
    cases hq : (s.node p).q with
    | nil => simp [hq] at hne
    | cons e rest =>
      simp only
      -- a node is never its own parent (except the root, which is excluded by `0 < i`)
      have hself : ∀ c, 0 < c → c < s.len → (s.node c).parent ≠ c := fun c h1 h2 h => by
        have := (hi.parent_lt c h1 h2).1; omega
      refine ⟨hi.len_pos, ?_, ?_, ?_, ?_, ?_, ?_, ?_⟩
      · by_cases h0 : (0 : Nat) = p
        · subst h0; simp [hi.root_pub]
        · simp [h0, hi.root_pub]
      · intro c h1 h2
        obtain ⟨hpl, hpp⟩ := hi.parent_lt c h1 h2
        have key : ∀ j, (if j = p then ({ s.node p with q := rest, out := (s.node p).out ++ [e] } : PNode α)
            else if 0 < j ∧ j < s.len ∧ (s.node j).parent = p then
              { s.node j with q := offer s.cap (s.node j).q e, dropped := (s.node j).dropped || full s.cap (s.node j).q }
            else s.node j).isPub = (s.node j).isPub ∧
            (if j = p then ({ s.node p with q := rest, out := (s.node p).out ++ [e] } : PNode α)
            else if 0 < j ∧ j < s.len ∧ (s.node j).parent = p then
              { s.node j with q := offer s.cap (s.node j).q e, dropped := (s.node j).dropped || full s.cap (s.node j).q }
            else s.node j).parent = (s.node j).parent := by
          intro j; by_cases hj : j = p
          · subst hj; simp
          · simp only [hj, ↓reduceIte]; split <;> simp
        rw [(key c).2]
        exact ⟨hpl, by rw [(key _).1]; exact hpp⟩
      · intro c h1 h2
        have hatt := hi.att_le c h1 h2
        by_cases hc : c = p
        · subst hc
          simp only [↓reduceIte]
          have hpp := hself c h1 h2
          simp only [hpp, ↓reduceIte]
          split <;> exact hatt
        · simp only [hc, ↓reduceIte]
          by_cases hcp : (s.node c).parent = p
          · simp only [h1, h2, hcp, and_self, ↓reduceIte, List.length_append, List.length_singleton]
            rw [hcp] at hatt; omega
          · simp only [hcp, and_false, ↓reduceIte]
            split <;> exact hatt
      · intro hd
        by_cases h0 : (0 : Nat) = p
        · subst h0
          simp only [↓reduceIte] at hd ⊢
          rw [List.append_assoc]; simp only [List.singleton_append]; rw [← hq]; exact hi.root_exact hd
        · simp only [h0, ↓reduceIte, Nat.lt_irrefl, false_and] at hd ⊢; exact hi.root_exact hd
      · intro c h1 h2 hd
        by_cases hc : c = p
        · subst hc
          have hpp := hself c h1 h2
          simp only [↓reduceIte, hpp] at hd ⊢
          have hex := hi.exact c h1 h2 hd
          rw [List.append_assoc]; simp only [List.singleton_append]; rw [← hq]
          split <;> exact hex
        · simp only [hc, ↓reduceIte] at hd ⊢
          by_cases hcp : (s.node c).parent = p
          · simp only [h1, h2, hcp, and_self, ↓reduceIte, Bool.or_eq_false_iff] at hd ⊢
            have hex := hi.exact c h1 h2 hd.1
            have hatt := hi.att_le c h1 h2
            rw [hcp] at hex hatt
            rw [offer_of_not_full _ _ _ hd.2, ← List.append_assoc, hex, drop_append_of_le hatt]
          · simp only [hcp, and_false, ↓reduceIte] at hd ⊢
            have hex := hi.exact c h1 h2 hd
            split <;> exact hex
      · by_cases h0 : (0 : Nat) = p
        · subst h0
          simp only [↓reduceIte]
          rw [List.append_assoc]; simp only [List.singleton_append]; rw [← hq]; exact hi.root_sub
        · simp only [h0, ↓reduceIte, Nat.lt_irrefl, false_and]; exact hi.root_sub
      · intro c h1 h2
        by_cases hc : c = p
        · subst hc
          have hpp := hself c h1 h2
          simp only [↓reduceIte, hpp]
          have hex := hi.sub c h1 h2
          rw [List.append_assoc]; simp only [List.singleton_append]; rw [← hq]
          split <;> exact hex
        · simp only [hc, ↓reduceIte]
          by_cases hcp : (s.node c).parent = p
          · simp only [h1, h2, hcp, and_self, ↓reduceIte]
            have hex := hi.sub c h1 h2
            have hatt := hi.att_le c h1 h2
            rw [hcp] at hex hatt
            rw [drop_append_of_le hatt]
            have h1' : ((s.node c).out ++ offer s.cap (s.node c).q e).Sublist (((s.node c).out ++ (s.node c).q) ++ [e]) := by
              rw [List.append_assoc]; exact List.Sublist.append_left (offer_sublist _ _ _) _
            exact h1'.trans (List.Sublist.append_right hex _)
          · simp only [hcp, and_false, ↓reduceIte]
            have hex := hi.sub c h1 h2
            split <;> exact hex

theorem pinv_run (s : Pipe α) (ls : List (PLabel α)) (s' : Pipe α) (hi : PInv s) (h : s.run ls = some s') : PInv s' := by
  induction ls generalizing s with
  | nil => simp [Pipe.run] at h; subst h; exact hi
  | cons l ls ih =>
    simp only [Pipe.run] at h
    split at h
    · rename_i hen; exact ih _ (pinv_step s l hi hen) h
    · cases h

end
end KC

namespace KC
section
variable {α : Type}

/-- no buffer on the way from the controller down to node `c` ever overflowed -/
inductive Clean (s : Pipe α) : Nat → Prop
  | root : (s.node 0).dropped = false → Clean s 0
  | child (c : Nat) : 0 < c → (s.node c).dropped = false → Clean s (s.node c).parent → Clean s c

theorem infix_of_prefix_of_infix {a b c : List α} (h1 : a <+: b) (h2 : b <:+: c) : a <:+: c :=
  (List.IsPrefix.isInfix h1).trans h2

/-- everything that has reached node `c` (read or still buffered) is one contiguous segment of the
published sequence: no duplicate, no gap, no reordering -/
theorem segment_of_published (s : Pipe α) (hi : PInv s) (c : Nat) (hc : c < s.len) (hcl : Clean s c) :
    ((s.node c).out ++ (s.node c).q) <:+: s.published := by
  induction hcl with
  | root h0 => rw [hi.root_exact h0]; exact List.infix_refl _
  | child c hpos hd _ ih =>
    have hp := (hi.parent_lt c hpos hc).1
    have hinf := ih (by omega)
    rw [hi.exact c hpos hc hd]
    have h1 : ((s.node (s.node c).parent).out.drop (s.node c).attachedAt) <:+: (s.node (s.node c).parent).out :=
      (List.drop_suffix _ _).isInfix
    exact h1.trans (infix_of_prefix_of_infix (List.prefix_append _ _) hinf)

/-- a consumer that has never read holds the first `cap` events offered to it -/
def PKeep (s : Pipe α) : Prop :=
  ∀ c, 0 < c → c < s.len → (s.node c).out = [] →
    (s.node c).q = (((s.node (s.node c).parent).out).drop (s.node c).attachedAt).take s.cap

theorem offer_take (cap : Nat) (offered : List α) (e : α) :
    offer cap (offered.take cap) e = (offered ++ [e]).take cap := by
  unfold offer
  by_cases h : offered.length < cap
  · have h1 : offered.take cap = offered := List.take_of_length_le (by omega)
    rw [h1]; simp only [h, ↓reduceIte]
    exact (List.take_of_length_le (by simp; omega)).symm
  · have hl : (offered.take cap).length = cap := by simp; omega
    simp only [hl, Nat.lt_irrefl, ↓reduceIte]
    rw [List.take_append_of_le_length (by omega)]

theorem pkeep_init (cap : Nat) : PKeep (Pipe.init cap : Pipe α) := by
  intro c h1 h2; simp [Pipe.init] at h2; omega

theorem pkeep_step (s : Pipe α) (l : PLabel α) (hi : PInv s) (hk : PKeep s) (hen : s.enabled l = true) :
    PKeep (s.step l) := by
  unfold PKeep
  cases l with
  | publish e =>
    simp only [Pipe.step]
    intro c h1 h2 ho
    have hc : ¬ c = 0 := by omega
    simp only [hc, ↓reduceIte] at ho ⊢
    by_cases h0 : (s.node c).parent = 0
    · simp only [h0, ↓reduceIte]; have := hk c h1 h2 ho; rw [h0] at this; exact this
    · simp only [h0, ↓reduceIte]; exact hk c h1 h2 ho
  | consume l =>
    simp only [Pipe.enabled, Bool.and_eq_true, decide_eq_true_eq, Bool.not_eq_true'] at hen
    obtain ⟨⟨hl, hleaf⟩, hne⟩ := hen
    simp only [Pipe.step]
    cases hq : (s.node l).q with
    | nil => simp [hq] at hne
    | cons e rest =>
      simp only
      intro c h1 h2 ho
      have hnp : (s.node c).parent ≠ l := by
        intro h; have := (hi.parent_lt c h1 h2).2; rw [h, hleaf] at this; cases this
      by_cases hc : c = l
      · subst hc; simp at ho
      · simp only [hc, ↓reduceIte, hnp] at ho ⊢; exact hk c h1 h2 ho
  | attach p isPub =>
    simp only [Pipe.enabled, Bool.and_eq_true, decide_eq_true_eq] at hen
    simp only [Pipe.step]
    intro c h1 h2 ho
    by_cases hc : c = s.len
    · subst hc
      have : ¬ p = s.len := by omega
      simp [this]
    · have hc2 : c < s.len := by omega
      have : ¬ (s.node c).parent = s.len := by have := (hi.parent_lt c h1 hc2).1; omega
      simp only [hc, ↓reduceIte, this] at ho ⊢; exact hk c h1 hc2 ho
  | forward p =>
    simp only [Pipe.enabled, Bool.and_eq_true, decide_eq_true_eq, Bool.not_eq_true'] at hen
    obtain ⟨⟨hp, hpub⟩, hne⟩ := hen
    simp only [Pipe.step]
    cases hq : (s.node p).q with
    | nil => simp [hq] at hne
    | cons e rest =>
      simp only
      intro c h1 h2 ho
      by_cases hc : c = p
      · subst hc; simp at ho
      · simp only [hc, ↓reduceIte] at ho ⊢
        by_cases hcp : (s.node c).parent = p
        · have hcond : (0 < c ∧ c < s.len ∧ (s.node c).parent = p) := ⟨h1, h2, hcp⟩
          simp only [hcond, and_self, ↓reduceIte] at ho ⊢
          have hq' := hk c h1 h2 ho
          have hatt := hi.att_le c h1 h2
          rw [hcp] at hq' hatt
          rw [hq', drop_append_of_le hatt]
          exact offer_take _ _ _
        · have hcond : ¬ (0 < c ∧ c < s.len ∧ (s.node c).parent = p) := fun h => hcp h.2.2
          simp only [hcond, ↓reduceIte] at ho ⊢
          have hq' := hk c h1 h2 ho
          by_cases hpp : (s.node c).parent = p
          · exact absurd hpp hcp
          · have hself : ¬ (0 < (s.node c).parent ∧ (s.node c).parent < s.len ∧ (s.node (s.node c).parent).parent = p) ∨ True := Or.inr trivial
            simp only [hpp, ↓reduceIte]
            split
            · exact hq'
            · exact hq'

theorem pinv_pkeep_run (s : Pipe α) (ls : List (PLabel α)) (s' : Pipe α) (hi : PInv s) (hk : PKeep s)
    (h : s.run ls = some s') : PInv s' ∧ PKeep s' := by
  induction ls generalizing s with
  | nil => simp [Pipe.run] at h; subst h; exact ⟨hi, hk⟩
  | cons l ls ih =>
    simp only [Pipe.run] at h
    split at h
    · rename_i hen; exact ih _ (pinv_step s l hi hen) (pkeep_step s l hi hk hen) h
    · cases h

end
end KC

namespace KC
section
variable {α : Type}

/-- the two states agree on everything but the buffer/read-log of consumer `l` -/
def EqExcept (l : Nat) (s t : Pipe α) : Prop :=
  s.len = t.len ∧ s.published = t.published ∧ s.cap = t.cap ∧
  (∀ i, i ≠ l → s.node i = t.node i) ∧
  (s.node l).parent = (t.node l).parent ∧ (s.node l).isPub = (t.node l).isPub ∧ (s.node l).isPub = false ∧
  0 < l ∧ l < s.len

def isConsumeOf (l : Nat) : PLabel α → Bool
  | .consume j => j == l
  | _ => false

theorem eqExcept_enabled (l : Nat) (s t : Pipe α) (h : EqExcept l s t) (lab : PLabel α)
    (hl : isConsumeOf l lab = false) : s.enabled lab = t.enabled lab := by
  obtain ⟨hlen, _, _, hn, _, hpub, hleaf, _, _⟩ := h
  cases lab with
  | publish e => rfl
  | forward p =>
    by_cases hp : p = l
    · subst hp; simp [Pipe.enabled, hleaf, ← hpub]
    · simp [Pipe.enabled, hlen, hn p hp]
  | consume j =>
    have hj : j ≠ l := by simpa [isConsumeOf] using hl
    simp [Pipe.enabled, hlen, hn j hj]
  | attach p isPub =>
    by_cases hp : p = l
    · subst hp; simp [Pipe.enabled, hleaf, ← hpub]
    · simp [Pipe.enabled, hlen, hn p hp]

theorem eqExcept_step (l : Nat) (s t : Pipe α) (h : EqExcept l s t) (lab : PLabel α)
    (hl : isConsumeOf l lab = false) (hen : s.enabled lab = true) : EqExcept l (s.step lab) (t.step lab) := by
  obtain ⟨hlen, hpubl, hcap, hn, hpar, hpub, hleaf, hpos, hlt⟩ := h
  have hl0 : ¬ l = 0 := by omega
  cases lab with
  | publish e =>
    simp only [Pipe.step]
    refine ⟨hlen, by rw [hpubl], hcap, ?_, by simp [hl0, hpar], by simp [hl0, hpub], by simp [hl0, hleaf], hpos, hlt⟩
    intro i hi
    by_cases h0 : i = 0
    · subst h0; simp only [↓reduceIte]; rw [hn 0 hi, hcap]
    · simp only [h0, ↓reduceIte]; exact hn i hi
  | consume j =>
    have hj : j ≠ l := by simpa [isConsumeOf] using hl
    have hjl : ¬ l = j := fun e => hj e.symm
    simp only [Pipe.step, ← hn j hj]
    cases (s.node j).q with
    | nil => exact ⟨hlen, hpubl, hcap, hn, hpar, hpub, hleaf, hpos, hlt⟩
    | cons e rest =>
      refine ⟨hlen, hpubl, hcap, ?_, by simp [hjl, hpar], by simp [hjl, hpub], by simp [hjl, hleaf], hpos, hlt⟩
      intro i hi
      by_cases hij : i = j
      · simp [hij]
      · simp only [hij, ↓reduceIte]; exact hn i hi
  | attach p isPub =>
    simp only [Pipe.enabled, Bool.and_eq_true, decide_eq_true_eq] at hen
    have hp : p ≠ l := by intro e; subst e; rw [hleaf] at hen; exact absurd hen.2 (by simp)
    have hlt' : ¬ l = t.len := by omega
    have hls : ¬ l = s.len := by omega
    simp only [Pipe.step, ← hn p hp]
    refine ⟨by simp [hlen], hpubl, hcap, ?_, by simp [hlt', hls, hpar], by simp [hlt', hls, hpub],
      by simp [hls, hleaf], hpos, by show l < s.len + 1; omega⟩
    intro i hi
    rw [hlen]
    by_cases hit : i = t.len
    · simp [hit]
    · simp only [hit, ↓reduceIte]; exact hn i hi
  | forward p =>
    simp only [Pipe.enabled, Bool.and_eq_true, decide_eq_true_eq, Bool.not_eq_true'] at hen
    have hp : p ≠ l := by intro e; subst e; rw [hleaf] at hen; exact absurd hen.1.2 (by simp)
    have hlp : ¬ l = p := fun e => hp e.symm
    simp only [Pipe.step, ← hn p hp]
    cases (s.node p).q with
    | nil => exact ⟨hlen, hpubl, hcap, hn, hpar, hpub, hleaf, hpos, hlt⟩
    | cons e rest =>
      refine ⟨hlen, hpubl, hcap, ?_, ?_, ?_, ?_, hpos, hlt⟩
      · intro i hi
        by_cases hip : i = p
        · simp [hip]
        · simp only [hip, ↓reduceIte, ← hn i hi, hlen, hcap]
      · simp only [hlp, ↓reduceIte, ← hpar, ← hlen]
        split <;> simp [hpar]
      · simp only [hlp, ↓reduceIte, ← hpar, ← hlen]
        split <;> simp [hpub]
      · simp only [hlp, ↓reduceIte]
        split <;> simp [hleaf]

/-- **a consumer's reading behaviour affects nobody else**: deleting all of `l`'s reads from a run leaves
a valid run in which every other node (buffers, forwarded and read sequences, the controller's published
sequence) is exactly the same -/
theorem stall_noninterference_aux (l : Nat) (ls : List (PLabel α)) (s t s' : Pipe α) (h : EqExcept l s t)
    (hrun : s.run ls = some s') :
    ∃ t', t.run (ls.filter (fun lab => !isConsumeOf l lab)) = some t' ∧ EqExcept l s' t' := by
  induction ls generalizing s t with
  | nil => simp [Pipe.run] at hrun; subst hrun; exact ⟨t, rfl, h⟩
  | cons lab ls ih =>
    simp only [Pipe.run] at hrun
    split at hrun
    · rename_i hen
      by_cases hc : isConsumeOf l lab = true
      · -- a read of `l`: skipped on the other side; only node `l` changes on this side
        simp only [List.filter_cons, hc, Bool.not_true, Bool.false_eq_true, ↓reduceIte]
        refine ih (s.step lab) t ?_ hrun
        cases lab with
        | consume j =>
          have hj : j = l := by simpa [isConsumeOf] using hc
          subst hj
          obtain ⟨hlen, hpubl, hcap, hn, hpar, hpub, hleaf, hpos, hlt⟩ := h
          simp only [Pipe.step]
          cases (s.node j).q with
          | nil => exact ⟨hlen, hpubl, hcap, hn, hpar, hpub, hleaf, hpos, hlt⟩
          | cons e rest =>
            refine ⟨hlen, hpubl, hcap, ?_, by simp [hpar], by simp [hpub], by simp [hleaf], hpos, hlt⟩
            intro i hi; simp only [hi, ↓reduceIte]; exact hn i hi
        | publish e => simp [isConsumeOf] at hc
        | forward p => simp [isConsumeOf] at hc
        | attach p b => simp [isConsumeOf] at hc
      · have hc' : isConsumeOf l lab = false := by simpa using hc
        simp only [List.filter_cons, hc', Bool.not_false, ↓reduceIte, Pipe.run]
        rw [← eqExcept_enabled l s t h lab hc', hen]
        simp only [↓reduceIte]
        exact ih _ _ (eqExcept_step l s t h lab hc' hen) hrun
    · cases hrun

end
end KC

/-! ### what never changes for a node once it exists; the published sequence only grows -/
namespace KC
section
variable {α : Type}

theorem step_static (s : Pipe α) (l : PLabel α) (i : Nat) (hi : i < s.len) :
    s.len ≤ (s.step l).len ∧ ((s.step l).node i).parent = (s.node i).parent ∧
    ((s.step l).node i).attachedAt = (s.node i).attachedAt := by
  cases l with
  | publish e =>
    simp only [Pipe.step]
    refine ⟨Nat.le_refl _, ?_, ?_⟩ <;> (split <;> simp_all)
  | forward p =>
    simp only [Pipe.step]
    cases (s.node p).q with
    | nil => exact ⟨Nat.le_refl _, rfl, rfl⟩
    | cons e rest =>
      refine ⟨Nat.le_refl _, ?_, ?_⟩ <;>
        (simp only; split
         · simp_all
         · split <;> simp_all)
  | consume c =>
    simp only [Pipe.step]
    cases (s.node c).q with
    | nil => exact ⟨Nat.le_refl _, rfl, rfl⟩
    | cons e rest =>
      refine ⟨Nat.le_refl _, ?_, ?_⟩ <;> (simp only; split <;> simp_all)
  | attach p b =>
    simp only [Pipe.step]
    have : ¬ i = s.len := by omega
    refine ⟨by omega, ?_, ?_⟩ <;> simp [this]

theorem step_published (s : Pipe α) (l : PLabel α) : s.published <+: (s.step l).published := by
  cases l with
  | publish e => simp only [Pipe.step]; exact List.prefix_append _ _
  | forward p =>
    simp only [Pipe.step]
    cases (s.node p).q <;> exact List.prefix_refl _
  | consume c =>
    simp only [Pipe.step]
    cases (s.node c).q <;> exact List.prefix_refl _
  | attach p b => exact List.prefix_refl _

theorem run_static (s : Pipe α) (ls : List (PLabel α)) (s' : Pipe α) (h : s.run ls = some s') (i : Nat) (hi : i < s.len) :
    s.len ≤ s'.len ∧ (s'.node i).parent = (s.node i).parent ∧ (s'.node i).attachedAt = (s.node i).attachedAt ∧
    s.published <+: s'.published := by
  induction ls generalizing s with
  | nil => simp [Pipe.run] at h; subst h; exact ⟨Nat.le_refl _, rfl, rfl, List.prefix_refl _⟩
  | cons l ls ih =>
    simp only [Pipe.run] at h
    split at h
    · obtain ⟨h1, h2, h3⟩ := step_static s l i hi
      obtain ⟨g1, g2, g3, g4⟩ := ih (s.step l) h (by omega)
      exact ⟨by omega, by rw [g2, h2], by rw [g3, h3], (step_published s l).trans g4⟩
    · cases h

end
end KC
