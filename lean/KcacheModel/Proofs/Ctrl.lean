/- invariants of the controller world (for C03, C04, C14) -/
import KcacheModel.Ctrl
import KcacheModel.Proofs.FSub
namespace KC
open AL

section
variable {K O : Type} [DecidableEq K]
variable (key : O → K) (ver : O → Option Int) (acc : O → Bool)

theorem state_zero (w : CW K O) (k : K) : w.state key ver 0 k = none := by
  simp [CW.state, CW.core, World.pcontent]

theorem state_succ (w : CW K O) (i : Nat) (e : Ev O) (h : w.hist[i]? = some e) :
    w.state key ver (i + 1) = papply key ver (w.state key ver i) e :=
  pcontent_succ key ver w.core i e h

theorem state_stable (w : CW K O) (k : K) (s t : Nat) (hst : s ≤ t) (ht : t ≤ w.hist.length)
    (h : ∀ i, s ≤ i → i < t → ∀ e, w.hist[i]? = some e → key e.obj ≠ k) :
    w.state key ver t k = w.state key ver s k :=
  pcontent_stable key ver w.core k s t hst ht h

/-- `state` depends on the history only -/
theorem state_congr (w w' : CW K O) (h : w'.hist = w.hist) (i : Nat) : w'.state key ver i = w.state key ver i := by
  simp [CW.state, CW.core, World.pcontent, h]

theorem state_append (w : CW K O) (e : Ev O) (i : Nat) (hi : i ≤ w.hist.length) :
    CW.state key ver { w with hist := w.hist ++ [e] } i = w.state key ver i := by
  simp only [CW.state, CW.core, World.pcontent]
  rw [List.take_append_of_le_length hi]

/-- an entry of the server state comes from the last change of its key -/
theorem state_some_last (w : CW K O) (hvs : ∀ (i : Nat) (e : Ev O), w.hist[i]? = some e → (ver e.obj).isSome = true)
    (j : Nat) (hj : j ≤ w.hist.length) (k : K) (en : Entry O)
    (h : w.state key ver j k = some en) :
    ∃ i ev, i < j ∧ w.hist[i]? = some ev ∧ key ev.obj = k ∧ ver ev.obj = some en.ver ∧
      ∀ i', i < i' → i' < j → ∀ e', w.hist[i']? = some e' → key e'.obj ≠ k := by
  induction j with
  | zero => rw [state_zero] at h; cases h
  | succ j ih =>
    have hlt : j < w.hist.length := by omega
    have he : w.hist[j]? = some w.hist[j] := List.getElem?_eq_getElem hlt
    generalize w.hist[j] = e at he
    rw [state_succ key ver w j e he] at h
    by_cases hk : key e.obj = k
    · -- the last change of `k` is this one
      subst hk
      unfold papply at h
      cases ht : e.t with
      | delete => simp [ht, AMap.set] at h
      | create | update =>
        simp only [ht] at h
        cases hv : ver e.obj with
        | none => have := hvs j e he; rw [hv] at this; cases this
        | some v =>
          simp only [hv, AMap.set, ↓reduceIte, Option.some.injEq] at h
          subst h
          exact ⟨j, e, by omega, he, rfl, hv, fun i' h1 h2 => by omega⟩
    · rw [papply_frame key ver _ _ k hk] at h
      obtain ⟨i, ev, hi, hev, hkk, hvv, hno⟩ := ih (by omega) h
      refine ⟨i, ev, by omega, hev, hkk, hvv, ?_⟩
      intro i' h1 h2 e' he'
      by_cases hij : i' = j
      · subst hij; rw [he] at he'; cases he'; exact hk
      · exact hno i' h1 (by omega) e' he'

end
end KC

namespace KC
open AL
section
variable {K O : Type} [DecidableEq K]
variable (key : O → K) (ver : O → Option Int) (acc : O → Bool)

/-- the cache holds, for key `k`, the accepted server content at index `s`, and every server change of `k`
from `s` on is still ahead of the cache (index ≥ a) — or was lost to a buffer overflow -/
def CCut (w : CW K O) (k : K) (s : Nat) : Prop :=
  s ≤ w.hist.length ∧
  lookup k w.items = view acc (w.state key ver s k) ∧
  ∀ i, s ≤ i → ∀ e, w.hist[i]? = some e → key e.obj = k → w.a ≤ i ∨ i ∈ w.lost

structure CInv (w : CW K O) : Prop where
  pipe : w.a ≤ w.b ∧ w.b ≤ w.c ∧ w.c ≤ w.hist.length
  wf : ∀ (i : Nat) (e : Ev O), w.hist[i]? = some e →
    (applyEv key ver (w.state key ver i) e).isSome = true ∧ (ver e.obj).isSome = true
  mono : MonoHist ver w.hist
  notready : w.ready = false → w.items = [] ∧ w.a = 0 ∧ w.b = 0 ∧ w.c = 0 ∧ w.live = false ∧ w.published = []
  cut : w.ready = true → ∀ k, ∃ s, CCut key ver acc w k s

theorem cinv_init : CInv key ver acc ({} : CW K O) := by
  refine ⟨by simp, ?_, ?_, fun _ => ⟨rfl, rfl, rfl, rfl, rfl, rfl⟩, fun h => by cases h⟩
  · intro i e h; simp at h
  · intro i j ei ej vi vj _ h; simp at h

/-- if the cache keeps an entry `c` although the snapshot at `j` lists the key at a version that is not
newer, then (versions being monotone) the snapshot entry *is* `c` -/
theorem kept_is_snapshot (w : CW K O) (hi : CInv key ver acc w) (k : K) (s j : Nat) (hs : s ≤ w.hist.length)
    (hj : j ≤ w.hist.length) (c sn : Entry O) (h1 : w.state key ver s k = some c) (h2 : w.state key ver j k = some sn)
    (hv : ¬ c.ver < sn.ver) (hsj : s < j) : w.state key ver j k = w.state key ver s k := by
  have hvs : ∀ (i : Nat) (e : Ev O), w.hist[i]? = some e → (ver e.obj).isSome = true := fun i e h => (hi.wf i e h).2
  by_cases hno : ∀ i, s ≤ i → i < j → ∀ e, w.hist[i]? = some e → key e.obj ≠ k
  · exact state_stable key ver w k s j (by omega) hj hno
  · exfalso
    obtain ⟨ic, ec, hic, hec, _, hvc, _⟩ := state_some_last key ver w hvs s hs k c h1
    obtain ⟨inn, en, hin, hen, _, hvn, hlast⟩ := state_some_last key ver w hvs j hj k sn h2
    -- some change of `k` lies in [s, j): the last change of `k` before `j` is at or after `s`
    have hge : s ≤ inn := by
      rcases Nat.lt_or_ge inn s with hlt | hge
      · exfalso; apply hno
        intro i h1' h2' e he hk
        exact hlast i (by omega) h2' e he hk
      · exact hge
    have := hi.mono ic inn ec en c.ver sn.ver (by omega) hec hen hvc hvn
    exact hv this

theorem cinv_serverChange (w : CW K O) (e : Ev O) (hi : CInv key ver acc w)
    (hen : w.enabled key ver (.serverChange e)) : CInv key ver acc (w.step key ver acc (.serverChange e)) := by
  obtain ⟨hwf, hvs, hmono⟩ := hen
  simp only [CW.step]
  refine ⟨?_, ?_, ?_, hi.notready, ?_⟩
  · obtain ⟨h1, h2, h3⟩ := hi.pipe
    exact ⟨h1, h2, by simp only [List.length_append, List.length_singleton]; omega⟩
  · intro i e' he'
    by_cases hlt : i < w.hist.length
    · rw [state_append key ver w e i (by omega)]
      rw [List.getElem?_append_left hlt] at he'
      exact hi.wf i e' he'
    · have hge : w.hist.length ≤ i := by omega
      rw [List.getElem?_append_right hge] at he'
      have : i = w.hist.length := by
        rcases Nat.eq_or_lt_of_le hge with h | h
        · exact h.symm
        · rw [List.getElem?_eq_none (by simp; omega)] at he'; cases he'
      subst this
      simp only [Nat.sub_self, List.getElem?_cons_zero, Option.some.injEq] at he'
      subst he'
      rw [state_append key ver w _ _ (Nat.le_refl _)]
      exact ⟨hwf, hvs⟩
  · intro i j ei ej vi vj hij hei hej hvi hvj
    by_cases hjl : j < w.hist.length
    · rw [List.getElem?_append_left hjl] at hej
      rw [List.getElem?_append_left (by omega)] at hei
      exact hi.mono i j ei ej vi vj hij hei hej hvi hvj
    · have hge : w.hist.length ≤ j := by omega
      rw [List.getElem?_append_right hge] at hej
      have : j = w.hist.length := by
        rcases Nat.eq_or_lt_of_le hge with h | h
        · exact h.symm
        · rw [List.getElem?_eq_none (by simp; omega)] at hej; cases hej
      subst this
      simp only [Nat.sub_self, List.getElem?_cons_zero, Option.some.injEq] at hej
      subst hej
      rw [List.getElem?_append_left (by omega)] at hei
      exact hmono i ei vi vj hei hvi hvj
  · intro hr k
    obtain ⟨s, hs, hl, hp⟩ := hi.cut hr k
    refine ⟨s, ?_, ?_, ?_⟩
    · simp only [List.length_append, List.length_singleton]; omega
    · show lookup k w.items = view acc (CW.state key ver { w with hist := w.hist ++ [e] } s k)
      rw [state_append key ver w e s hs]; exact hl
    · intro i his e' he' hk
      show w.a ≤ i ∨ i ∈ w.lost
      by_cases hlt : i < w.hist.length
      · have he'' : w.hist[i]? = some e' := by
          have : (w.hist ++ [e])[i]? = some e' := he'
          rwa [List.getElem?_append_left hlt] at this
        exact hp i his e' he'' hk
      · have := hi.pipe; left; omega

/-- steps that only move the watch pipeline positions -/
theorem cinv_pipeline (w w' : CW K O) (hi : CInv key ver acc w)
    (hh : w'.hist = w.hist) (hit : w'.items = w.items) (hr : w'.ready = w.ready) (ha : w'.a = w.a)
    (hpub : w'.published = w.published) (hlost : w'.lost = w.lost)
    (hpipe : w'.a ≤ w'.b ∧ w'.b ≤ w'.c ∧ w'.c ≤ w'.hist.length)
    (hnr : w.ready = false → w'.b = 0 ∧ w'.c = 0 ∧ w'.live = false) : CInv key ver acc w' := by
  refine ⟨hpipe, ?_, by rw [hh]; exact hi.mono, ?_, ?_⟩
  · intro i e he
    rw [hh] at he
    rw [state_congr key ver w w' hh i]
    exact hi.wf i e he
  · intro h
    rw [hr] at h
    obtain ⟨h1, h2, _, _, _, h6⟩ := hi.notready h
    obtain ⟨h3, h4, h5⟩ := hnr h
    exact ⟨by rw [hit]; exact h1, by rw [ha]; exact h2, h3, h4, h5, by rw [hpub]; exact h6⟩
  · intro h k
    rw [hr] at h
    obtain ⟨s, hs, hl, hp⟩ := hi.cut h k
    refine ⟨s, by rw [hh]; exact hs, ?_, ?_⟩
    · rw [hit, state_congr key ver w w' hh s]; exact hl
    · intro i his e he hk
      rw [hh] at he; rw [ha, hlost]
      exact hp i his e he hk

end
end KC

namespace KC
open AL
section
variable {K O : Type} [DecidableEq K]
variable (key : O → K) (ver : O → Option Int) (acc : O → Bool)

theorem ccut_mk (w : CW K O) (items' : Items K O) (r l : Bool) (a' b' c' : Nat) (st : Option StopKind)
    (pub : List (Ev O)) (base' : Items K O) (lost' : List Nat) (k : K) (s : Nat) (hs : s ≤ w.hist.length)
    (hl : lookup k items' = view acc (w.state key ver s k))
    (hp : ∀ i, s ≤ i → ∀ e, w.hist[i]? = some e → key e.obj = k → a' ≤ i ∨ i ∈ lost') :
    CCut key ver acc ⟨w.hist, items', r, l, a', b', c', st, pub, base', lost'⟩ k s := ⟨hs, hl, hp⟩

/-- an older (or absent) cached entry is always replaced by the event's outcome -/
theorem capply_older (a : AMap K O) (e : Ev O) (v : Int) (hv : ver e.obj = some v) (cur : Option (Entry O))
    (hold : ∀ c, cur = some c → c.ver < v) :
    capply acc cur e.t v e.obj = view acc (papply key ver a e (key e.obj)) := by
  unfold papply capply
  cases ht : e.t with
  | delete => simp [AMap.set, view]
  | create | update =>
    simp only [hv]
    cases cur with
    | none => simp [AMap.set, view]
    | some c => simp [AMap.set, view, hold c rfl]

theorem cinv_apply (w : CW K O) (hi : CInv key ver acc w) (hen : w.enabled key ver .apply) :
    CInv key ver acc (w.step key ver acc .apply) := by
  obtain ⟨_, hab⟩ := hen
  obtain ⟨hp1, hp2, hp3⟩ := hi.pipe
  have hlt : w.a < w.hist.length := by omega
  have he : w.hist[w.a]? = some w.hist[w.a] := List.getElem?_eq_getElem hlt
  generalize w.hist[w.a] = e at he
  have hr : w.ready = true := by
    cases hrd : w.ready with
    | true => rfl
    | false => have := hi.notready hrd; omega
  obtain ⟨hwf, hvs⟩ := hi.wf _ _ he
  obtain ⟨v, hv⟩ := Option.isSome_iff_exists.mp hvs
  have hvs' : ∀ (i : Nat) (e : Ev O), w.hist[i]? = some e → (ver e.obj).isSome = true := fun i e h => (hi.wf i e h).2
  simp only [CW.step, he]
  refine ⟨by show w.a + 1 ≤ w.b ∧ w.b ≤ w.c ∧ w.c ≤ w.hist.length; omega, ?_, hi.mono, ?_, ?_⟩
  · intro i e' he'; exact hi.wf i e' he'
  · intro h; rw [show w.ready = false from h] at hr; cases hr
  · intro _ k
    obtain ⟨s, hs, hl, hp⟩ := hi.cut hr k
    by_cases hk : key e.obj = k
    · subst hk
      rcases Nat.lt_or_ge w.a s with hcs | hsc
      · rcases capply_reflected key ver acc (w.state key ver w.a) e v hv (lookup (key e.obj) w.items) with h1 | ⟨h1, _⟩
        · refine ⟨w.a + 1, ccut_mk key ver acc w _ _ _ _ _ _ _ _ _ _ _ _ (by omega) ?_ (fun i hi' _ _ _ => Or.inl hi')⟩
          show lookup (key e.obj) (doUpdate key ver acc w.items e.t e.obj).1 = _
          rw [doUpdate_own key ver _ _ _ _ v hv, h1, state_succ key ver w _ _ he]
        · refine ⟨s, ccut_mk key ver acc w _ _ _ _ _ _ _ _ _ _ _ _ hs ?_ (fun i hi' e' he' hk' => Or.inl (by show w.a + 1 ≤ i; omega))⟩
          show lookup (key e.obj) (doUpdate key ver acc w.items e.t e.obj).1 = _
          rw [doUpdate_own key ver _ _ _ _ v hv, h1]; exact hl
      · -- the cached entry stems from a change before `s ≤ a`: it is older than this one (whatever was lost
        -- in between), so the event's outcome replaces it
        have hold : ∀ c, lookup (key e.obj) w.items = some c → c.ver < v := by
          intro c hc
          rw [hc] at hl
          obtain ⟨hps, _⟩ := view_some_eq hl.symm
          obtain ⟨ic, ec, hic, hec, _, hvc, _⟩ := state_some_last key ver w hvs' s hs (key e.obj) c hps
          exact hi.mono ic w.a ec e c.ver v (by omega) hec he hvc hv
        refine ⟨w.a + 1, ccut_mk key ver acc w _ _ _ _ _ _ _ _ _ _ _ _ (by omega) ?_ (fun i hi' _ _ _ => Or.inl hi')⟩
        show lookup (key e.obj) (doUpdate key ver acc w.items e.t e.obj).1 = _
        rw [doUpdate_own key ver _ _ _ _ v hv, capply_older key ver acc (w.state key ver w.a) e v hv _ hold,
          state_succ key ver w _ _ he]
    · refine ⟨s, ccut_mk key ver acc w _ _ _ _ _ _ _ _ _ _ _ _ hs ?_ ?_⟩
      · show lookup k (doUpdate key ver acc w.items e.t e.obj).1 = _
        rw [doUpdate_frame key ver _ _ _ _ k hk]; exact hl
      · intro i hi' e' he' hk'
        show w.a + 1 ≤ i ∨ i ∈ w.lost
        rcases hp i hi' e' he' hk' with h1 | h1
        · have : i ≠ w.a := by
            intro heq; subst heq
            rw [he] at he'; cases he'; exact hk hk'
          left; omega
        · exact Or.inr h1

/-- a change lost to a buffer overflow: the cache is untouched, the position moves on -/
theorem cinv_drop (w : CW K O) (hi : CInv key ver acc w) (hen : w.enabled key ver .drop) :
    CInv key ver acc (w.step key ver acc .drop) := by
  obtain ⟨_, hab⟩ := hen
  obtain ⟨hp1, hp2, hp3⟩ := hi.pipe
  have hr : w.ready = true := by
    cases hrd : w.ready with
    | true => rfl
    | false => have := hi.notready hrd; omega
  simp only [CW.step]
  refine ⟨by show w.a + 1 ≤ w.b ∧ w.b ≤ w.c ∧ w.c ≤ w.hist.length; omega, fun i e he => hi.wf i e he, hi.mono, ?_, ?_⟩
  · intro h; rw [show w.ready = false from h] at hr; cases hr
  · intro _ k
    obtain ⟨s, hs, hl, hp⟩ := hi.cut hr k
    refine ⟨s, ccut_mk key ver acc w _ _ _ _ _ _ _ _ _ _ _ _ hs hl ?_⟩
    intro i hi' e' he' hk'
    show w.a + 1 ≤ i ∨ i ∈ w.a :: w.lost
    rcases hp i hi' e' he' hk' with h1 | h1
    · by_cases heq : i = w.a
      · right; rw [heq]; exact List.mem_cons_self
      · left; omega
    · right; exact List.mem_cons_of_mem _ h1

/-- what a list result does to one key of the cache -/
theorem list_key (w : CW K O) (j : Nat) (plist : List O) (hsnap : Snapshot key ver plist (w.state key ver j)) (k : K) :
    lookup k (doSync key ver acc w.items plist).1 = csync acc (lookup k w.items) (w.state key ver j k) :=
  doSync_snapshot key ver acc w.items plist _ hsnap k

theorem cinv_listApplied (w : CW K O) (j : Nat) (plist : List O) (hi : CInv key ver acc w)
    (hen : w.enabled key ver (.listApplied j plist)) : CInv key ver acc (w.step key ver acc (.listApplied j plist)) := by
  obtain ⟨_, hj, hsnap⟩ := hen
  simp only [CW.step]
  refine ⟨by show j ≤ j ∧ j ≤ j ∧ j ≤ w.hist.length; omega, fun i e he => hi.wf i e he, hi.mono,
    (fun h => by cases h), ?_⟩
  intro _ k
  have hnow := list_key key ver acc w j plist hsnap k
  -- a cut at the snapshot index `j`
  have atJ : lookup k (doSync key ver acc w.items plist).1 = view acc (w.state key ver j k) →
      ∃ s, CCut key ver acc ⟨w.hist, (doSync key ver acc w.items plist).1, true, true, j, j, j, w.stopped,
        (if w.ready then w.published ++ (doSync key ver acc w.items plist).2 else w.published),
        (if w.ready then w.base else (doSync key ver acc w.items plist).1), []⟩ k s :=
    fun h => ⟨j, ccut_mk key ver acc w _ _ _ _ _ _ _ _ _ _ k j hj h (fun i hi' _ _ _ => Or.inl hi')⟩
  by_cases hr : w.ready = true
  · obtain ⟨s, hs, hl, hp⟩ := hi.cut hr k
    cases hP : w.state key ver j k with
    | none => apply atJ; rw [hnow, hP]; simp [csync, view]
    | some sn =>
      cases hc : lookup k w.items with
      | none => apply atJ; rw [hnow, hP, hc]; simp [csync]
      | some c =>
        by_cases hv : c.ver < sn.ver
        · apply atJ; rw [hnow, hP, hc]; simp [csync, hv]
        · -- the cached entry is kept
          rw [hc] at hl
          obtain ⟨hps, hacc⟩ := view_some_eq hl.symm
          rcases Nat.lt_or_ge s j with hsj | hjs
          · -- its cut lies before the snapshot: the snapshot holds the very same entry
            have heq := kept_is_snapshot key ver acc w hi k s j hs hj c sn hps hP hv hsj
            apply atJ
            rw [hnow, hc, heq, hps]
            simp [csync, view, hacc]
          · refine ⟨s, ccut_mk key ver acc w _ _ _ _ _ _ _ _ _ _ k s hs ?_ (fun i hi' _ _ _ => Or.inl (by show j ≤ i; omega))⟩
            show lookup k (doSync key ver acc w.items plist).1 = _
            rw [hnow, hP, hc, hps]; simp [csync, hv]
  · have hr' : w.ready = false := by simpa using hr
    obtain ⟨hitems, _⟩ := hi.notready hr'
    apply atJ
    rw [hitems]
    exact sync_from_empty key ver acc plist _ hsnap k

theorem cinv_step (w : CW K O) (l : CLabel O) (hi : CInv key ver acc w) (hen : w.enabled key ver l) :
    CInv key ver acc (w.step key ver acc l) := by
  obtain ⟨hp1, hp2, hp3⟩ := hi.pipe
  cases l with
  | serverChange e => exact cinv_serverChange key ver acc w e hi hen
  | apply => exact cinv_apply key ver acc w hi hen
  | drop => exact cinv_drop key ver acc w hi hen
  | listApplied j plist => exact cinv_listApplied key ver acc w j plist hi hen
  | decode =>
    obtain ⟨_, hlive, hc⟩ := hen
    refine cinv_pipeline key ver acc w _ hi rfl rfl rfl rfl rfl rfl ?_ ?_
    · show w.a ≤ w.b ∧ w.b ≤ w.c + 1 ∧ w.c + 1 ≤ w.hist.length; omega
    · intro h; have := hi.notready h; rw [this.2.2.2.2.1] at hlive; cases hlive
  | take =>
    obtain ⟨_, hbc⟩ := hen
    refine cinv_pipeline key ver acc w _ hi rfl rfl rfl rfl rfl rfl ?_ ?_
    · show w.a ≤ w.b + 1 ∧ w.b + 1 ≤ w.c ∧ w.c ≤ w.hist.length; omega
    · intro h; have := hi.notready h; omega
  | sessEnd =>
    refine cinv_pipeline key ver acc w _ hi rfl rfl rfl rfl rfl rfl ?_ ?_
    · show w.a ≤ w.b ∧ w.b ≤ w.b ∧ w.b ≤ w.hist.length; omega
    · intro h; have := hi.notready h; exact ⟨this.2.2.1, this.2.2.1, rfl⟩
  | retry =>
    obtain ⟨_, _, hrdy⟩ := hen
    refine cinv_pipeline key ver acc w _ hi rfl rfl rfl rfl rfl rfl ?_ ?_
    · show w.a ≤ w.b ∧ w.b ≤ w.b ∧ w.b ≤ w.hist.length; omega
    · intro h; rw [h] at hrdy; cases hrdy
  | listFail kd =>
    refine cinv_pipeline key ver acc w _ hi rfl rfl rfl rfl rfl rfl ⟨hp1, hp2, hp3⟩ ?_
    intro h; have := hi.notready h; exact ⟨this.2.2.1, this.2.2.2.1, rfl⟩
  | close =>
    refine cinv_pipeline key ver acc w _ hi rfl rfl rfl rfl rfl rfl ⟨hp1, hp2, hp3⟩ ?_
    intro h; have := hi.notready h; exact ⟨this.2.2.1, this.2.2.2.1, rfl⟩

theorem creach_inv {w : CW K O} (h : CReach key ver acc w) : CInv key ver acc w := by
  induction h with
  | init => exact cinv_init key ver acc
  | step w l _ hen ih => exact cinv_step key ver acc w l ih hen

/-- the controller cache's item list stays well formed (one entry per key) -/
theorem creach_wf {w : CW K O} (h : CReach key ver acc w) : WF key w.items := by
  induction h with
  | init => exact WF_nil key
  | step w l _ _ ih =>
    cases l with
    | apply =>
      simp only [CW.step]
      cases w.hist[w.a]? with
      | none => exact ih
      | some e => exact doUpdate_WF key ver acc _ _ _ ih
    | listApplied j plist => exact doSync_WF key ver acc _ _ ih
    | _ => exact ih

/-- the published stream is the cache's own history since Ready(): replayed in order on the content the cache had
when Ready() was closed (`base`), the events published so far give exactly the cache's current content -/
theorem published_replays {w : CW K O} (h : CReach key ver acc w) :
    w.ready = true → replay key ver w.published (abs w.base) = some (abs w.items) := by
  induction h with
  | init => intro h; cases h
  | step w l hreach hen ih =>
    cases l with
    | apply =>
      simp only [CW.step]
      cases he : w.hist[w.a]? with
      | none => exact ih
      | some e =>
        intro hr
        show replay key ver (w.published ++ (doUpdate key ver acc w.items e.t e.obj).2) (abs w.base) = _
        rw [replay_append, ih hr]
        exact doUpdate_replay key ver acc w.items e.t e.obj
    | listApplied j plist =>
      intro _
      simp only [CW.step]
      by_cases hr : w.ready = true
      · simp only [hr, if_true]
        rw [replay_append, ih hr]
        exact doSync_replay key ver acc w.items plist (creach_wf key ver acc hreach)
      · have hr' : w.ready = false := by simpa using hr
        have hp := ((creach_inv key ver acc hreach).notready hr').2.2.2.2.2
        simp [hr', hp, replay]
    | _ => exact ih

end
end KC
