/- a concrete reachable run of the controller world, used for non-vacuity examples and negative witnesses (C03, C04, C14):
   one object is created and listed, then updated; the update is decoded, taken — and lost to a buffer overflow -/
import KcacheModel.Ctrl
import KcacheModel.Proofs.Ctrl
namespace KC.CtrlWitness
open KC AL

abbrev Ob := Nat × Int
def kk (o : Ob) : Nat := o.1
def vv (o : Ob) : Option Int := some o.2
def aa (_ : Ob) : Bool := true

def w0 : CW Nat Ob := {}
def w1 := w0.step kk vv aa (.serverChange ⟨.create, (1, 1)⟩)
def w2 := w1.step kk vv aa (.listApplied 1 [(1, 1)])
def w3 := w2.step kk vv aa (.serverChange ⟨.update, (1, 2)⟩)
def w4 := w3.step kk vv aa .decode
def w5 := w4.step kk vv aa .take
def w6 := w5.step kk vv aa .drop

theorem w6_facts : w6.ready = true ∧ w6.a = w6.hist.length ∧ w6.lost = [1] ∧
    lookup 1 w6.items = some ⟨1, (1, 1)⟩ ∧ w6.state kk vv w6.hist.length 1 = some ⟨2, (1, 2)⟩ := by
  refine ⟨rfl, rfl, rfl, ?_, ?_⟩
  · decide
  · decide

theorem w6_reach : CReach kk vv aa w6 := by
  have r0 : CReach kk vv aa w0 := CReach.init
  have r1 : CReach kk vv aa w1 := by
    refine CReach.step w0 _ r0 ⟨by decide, rfl, ?_⟩
    intro i ei vi v h; simp [w0] at h
  have r2 : CReach kk vv aa w2 := by
    refine CReach.step w1 _ r1 ⟨rfl, by decide, ?_⟩
    intro k
    by_cases hk : k = 1
    · subst hk; decide
    · have h1 : listedAll kk vv k [((1 : Nat), (1 : Int))] = [] := by
        have : ¬ (1 = k) := fun h => hk h.symm
        simp [listedAll, vv, kk, this]
      have h2 : w1.state kk vv 1 k = none := by
        simp [w1, w0, CW.step, CW.state, CW.core, World.pcontent, papply, vv, kk, AMap.set]; exact hk
      rw [h1, h2]
  have r3 : CReach kk vv aa w3 := by
    refine CReach.step w2 _ r2 ⟨by decide, rfl, ?_⟩
    intro i ei vi v h hvi hv
    have hlen : w2.hist = [⟨.create, (1, 1)⟩] := rfl
    rw [hlen] at h
    cases i with
    | zero =>
      simp at h; subst h
      simp [vv] at hvi hv; omega
    | succ i => simp at h
  have r4 : CReach kk vv aa w4 := CReach.step w3 _ r3 ⟨rfl, rfl, by decide⟩
  have r5 : CReach kk vv aa w5 := CReach.step w4 _ r4 ⟨rfl, by decide⟩
  exact CReach.step w5 _ r5 ⟨rfl, by decide⟩


/-- a list of the server's current state is a snapshot of it -/
theorem snap2 : Snapshot kk vv [((1 : Nat), (2 : Int))] (w6.state kk vv 2) := by
  intro k
  by_cases hk : k = 1
  · subst hk; decide
  · have h0 : ¬ (1 = k) := fun h => hk h.symm
    have h1 : listedAll kk vv k [((1 : Nat), (2 : Int))] = [] := by simp [listedAll, vv, kk, h0]
    have h2 : w6.state kk vv 2 k = none := by
      simp [w6, w5, w4, w3, w2, w1, w0, CW.step, CW.state, CW.core, World.pcontent, papply, vv, kk, AMap.set, hk]
    rw [h1, h2]

end KC.CtrlWitness
