/- helper definitions and lemmas (invariants and their preservation) behind the property theorems of Props/C16.lean -/
import KcacheModel.Mon
namespace KC.C16
open KC
variable {O : Type}

/-- the shape invariant of the callback log, phase by phase -/
def Shape2 (m : Mon O) : Prop :=
  (m.phase = .waiting → m.log = [] ∧ m.received = []) ∧
  (m.phase = .running → ∃ l, m.log = .init l :: m.received.map callbackOf) ∧
  (m.phase = .done → (m.log = [] ∧ m.received = []) ∨ ∃ l, m.log = .init l :: m.received.map callbackOf)

theorem shape2_step (m : Mon O) (l : MonLabel O) (h : Shape2 m) (hen : m.enabled l = true) : Shape2 (m.step l) := by
  obtain ⟨hw, hr, hd⟩ := h
  cases l with
  | subDone =>
    simp only [Mon.step]
    refine ⟨(by intro h; cases h), (by intro h; cases h), fun _ => ?_⟩
    cases hp : m.phase with
    | waiting => exact Or.inl (hw hp)
    | running => exact Or.inr (hr hp)
    | done => exact hd hp
  | eventsClosed =>
    simp only [Mon.enabled, beq_iff_eq] at hen
    simp only [Mon.step]
    exact ⟨(by intro h; cases h), (by intro h; cases h), fun _ => Or.inr (hr hen)⟩
  | ready list =>
    simp only [Mon.enabled, beq_iff_eq] at hen
    obtain ⟨hl, hrec⟩ := hw hen
    cases list with
    | none => simp only [Mon.step]; exact ⟨(by intro h; cases h), (by intro h; cases h), fun _ => Or.inl ⟨hl, hrec⟩⟩
    | some lst =>
      simp only [Mon.step]
      exact ⟨(by intro h; cases h), fun _ => ⟨lst, by simp [hl, hrec]⟩, (by intro h; cases h)⟩
  | event e =>
    simp only [Mon.enabled, beq_iff_eq] at hen
    obtain ⟨lst, hl⟩ := hr hen
    simp only [Mon.step]
    exact ⟨(by intro h; rw [hen] at h; cases h), fun _ => ⟨lst, by simp [hl]⟩, (by intro h; rw [hen] at h; cases h)⟩

theorem run_shape2 (m : Mon O) (ls : List (MonLabel O)) (m' : Mon O) (h : Shape2 m) (hr : m.run ls = some m') : Shape2 m' := by
  induction ls generalizing m with
  | nil => simp [Mon.run] at hr; subst hr; exact h
  | cons l ls ih =>
    simp only [Mon.run] at hr
    split at hr
    · rename_i hen; exact ih _ (shape2_step m l h hen) hr
    · cases hr

theorem shape2_init : Shape2 ({} : Mon O) := ⟨fun _ => ⟨rfl, rfl⟩, (by intro h; cases h), (by intro h; cases h)⟩

end KC.C16
