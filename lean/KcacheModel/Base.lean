/-
  Base definitions shared by every model: keys, association lists, strconv.Atoi.
  Core Lean only (the driver links against this).
-/
namespace KC

/-- cache key: (namespace, name) — `cacheKey` in cache.go -/
structure Key where
  ns : String
  name : String
  deriving DecidableEq, Repr, Inhabited

instance : ToString Key := ⟨fun k => k.ns ++ "/" ++ k.name⟩

/-! ### Association lists (first binding wins). The only container used in models. -/
namespace AL

variable {κ : Type} {α : Type} [DecidableEq κ]

def lookup (k : κ) : List (κ × α) → Option α
  | [] => none
  | (k', a) :: rest => if k' = k then some a else lookup k rest

def erase (k : κ) : List (κ × α) → List (κ × α)
  | [] => []
  | (k', a) :: rest => if k' = k then erase k rest else (k', a) :: erase k rest

def insert (k : κ) (a : α) (m : List (κ × α)) : List (κ × α) := (k, a) :: erase k m

def keys (m : List (κ × α)) : List κ := m.map (·.1)

@[simp] theorem lookup_nil (k : κ) : lookup k ([] : List (κ × α)) = none := rfl

@[simp] theorem lookup_cons (k k' : κ) (a : α) (m : List (κ × α)) :
    lookup k ((k', a) :: m) = if k' = k then some a else lookup k m := rfl

@[simp] theorem lookup_erase_self (k : κ) (m : List (κ × α)) : lookup k (erase k m) = none := by
  induction m with
  | nil => rfl
  | cons p rest ih =>
    obtain ⟨k', a⟩ := p
    by_cases h : k' = k <;> simp [erase, h, ih]

@[simp] theorem lookup_erase_ne (k k' : κ) (m : List (κ × α)) (h : k' ≠ k) :
    lookup k (erase k' m) = lookup k m := by
  induction m with
  | nil => rfl
  | cons p rest ih =>
    obtain ⟨k'', a⟩ := p
    by_cases h1 : k'' = k'
    · subst h1; simp [erase, h, ih]
    · by_cases h2 : k'' = k
      · subst h2; simp [erase, h1]
      · simp [erase, h1, h2, ih]

@[simp] theorem lookup_insert_self (k : κ) (a : α) (m : List (κ × α)) :
    lookup k (insert k a m) = some a := by simp [insert]

@[simp] theorem lookup_insert_ne (k k' : κ) (a : α) (m : List (κ × α)) (h : k' ≠ k) :
    lookup k (insert k' a m) = lookup k m := by simp [insert, h]

theorem lookup_erase (k k' : κ) (m : List (κ × α)) :
    lookup k (erase k' m) = if k' = k then none else lookup k m := by
  by_cases h : k' = k
  · subst h; simp
  · simp [h]

theorem lookup_insert (k k' : κ) (a : α) (m : List (κ × α)) :
    lookup k (insert k' a m) = if k' = k then some a else lookup k m := by
  by_cases h : k' = k
  · subst h; simp
  · simp [h]

/-- no key bound twice -/
def NodupKeys (m : List (κ × α)) : Prop := (keys m).Nodup

theorem mem_keys_of_lookup {k : κ} {a : α} {m : List (κ × α)} (h : lookup k m = some a) : k ∈ keys m := by
  induction m with
  | nil => simp at h
  | cons p rest ih =>
    obtain ⟨k', a'⟩ := p
    by_cases hk : k' = k
    · subst hk; simp [keys]
    · simp [hk] at h
      have := ih h
      simp [keys] at this ⊢
      exact Or.inr this

theorem lookup_none_of_not_mem {k : κ} {m : List (κ × α)} (h : k ∉ keys m) : lookup k m = none := by
  induction m with
  | nil => rfl
  | cons p rest ih =>
    obtain ⟨k', a'⟩ := p
    simp [keys] at h
    have h1 : k' ≠ k := fun e => h.1 e.symm
    simp [h1]
    exact ih (by simpa [keys] using h.2)

theorem not_mem_keys_erase (k : κ) (m : List (κ × α)) : k ∉ keys (erase k m) := by
  induction m with
  | nil => simp [erase, keys]
  | cons p rest ih =>
    obtain ⟨k', a⟩ := p
    by_cases h : k' = k
    · simp [erase, h]; exact ih
    · simp [erase, h, keys] at ih ⊢
      exact ⟨fun e => h e.symm, ih⟩

theorem mem_keys_erase {k k' : κ} {m : List (κ × α)} (h : k ∈ keys (erase k' m)) : k ∈ keys m := by
  induction m with
  | nil => simp [erase, keys] at h
  | cons p rest ih =>
    obtain ⟨k'', a⟩ := p
    by_cases h1 : k'' = k'
    · simp [erase, h1] at h
      simp [keys]; exact Or.inr (by simpa [keys] using ih h)
    · simp [erase, h1, keys] at h ⊢
      rcases h with h | h
      · exact Or.inl h
      · exact Or.inr (by simpa [keys] using ih (by simpa [keys] using h))

theorem nodup_erase {m : List (κ × α)} (k : κ) (h : NodupKeys m) : NodupKeys (erase k m) := by
  induction m with
  | nil => simp [erase, NodupKeys, keys]
  | cons p rest ih =>
    obtain ⟨k', a⟩ := p
    simp [NodupKeys, keys] at h
    by_cases h1 : k' = k
    · simp [erase, h1]; exact ih (by simpa [NodupKeys, keys] using h.2)
    · simp [erase, h1, NodupKeys, keys]
      refine ⟨?_, by simpa [NodupKeys, keys] using ih (by simpa [NodupKeys, keys] using h.2)⟩
      intro x hx
      have := mem_keys_erase (k := k') (k' := k) (m := rest) (by simpa [keys] using ⟨x, hx⟩)
      simp [keys] at this
      obtain ⟨y, hy⟩ := this
      exact h.1 y hy

theorem nodup_insert {m : List (κ × α)} (k : κ) (a : α) (h : NodupKeys m) : NodupKeys (insert k a m) := by
  have h1 := not_mem_keys_erase k m
  have h2 := nodup_erase k h
  simp [insert, NodupKeys, keys] at h1 h2 ⊢
  exact ⟨h1, h2⟩

end AL

/-! ### strconv.Atoi -/
namespace Atoi

def digitVal (c : Char) : Option Nat :=
  if '0' ≤ c ∧ c ≤ '9' then some (c.toNat - '0'.toNat) else none

def digits : List Char → Option Nat
  | [] => none
  | cs => cs.foldl (fun acc c => match acc, digitVal c with
                      | some n, some d => some (n * 10 + d)
                      | _, _ => none) (some 0)

/-- `strconv.Atoi` on a 64-bit platform: `[+-]?[0-9]+`, value in the int64 range, else error. -/
def atoi (s : String) : Option Int :=
  match s.toList with
  | [] => none
  | '-' :: rest =>
    match digits rest with
    | some n => if n ≤ 2^63 then some (-(n : Int)) else none
    | none => none
  | '+' :: rest =>
    match digits rest with
    | some n => if n < 2^63 then some (n : Int) else none
    | none => none
  | cs =>
    match digits cs with
    | some n => if n < 2^63 then some (n : Int) else none
    | none => none

end Atoi

end KC
