/-
  Request/response plumbing of every API call that goes through a component's goroutine
  (publisher.Subscribe and everything built on it, cache List/Get/sync/update/refilter,
  filterSubscription.Refilter): the caller runs

      select { case <-lc.ShuttingDown(): return ErrNotRunning ; case reqch <- req: }   ;   return <-resultch

  with `resultch` buffered (capacity 1), and the component's loop takes requests until it calls
  `ShutdownInitiated` (which closes ShuttingDown) and leaves the loop in the same breath.
  One label = one observable instant.
-/
namespace KC

inductive CallSt
  /-- blocked in the `select` -/
  | offering
  /-- the request was taken; the result sits in the buffered result channel -/
  | accepted
  /-- returned: a result (`true`) or ErrNotRunning (`false`) -/
  | returned (ok : Bool)
  deriving DecidableEq, Repr

structure Api where
  /-- the component's goroutine is in its loop; `false` = ShutdownInitiated was called (ShuttingDown is closed) -/
  running : Bool := true
  calls : List (Nat × CallSt) := []
  /-- ghost: requests served -/
  served : Nat := 0

inductive ApiEv
  | call (i : Nat)
  | accept (i : Nat)
  | refuse (i : Nat)
  | receive (i : Nat)
  | stop

def lookL : List (Nat × CallSt) → Nat → Option CallSt
  | [], _ => none
  | (j, c) :: rest, i => if j = i then some c else lookL rest i

def setL : List (Nat × CallSt) → Nat → CallSt → List (Nat × CallSt)
  | [], _, _ => []
  | (j, d) :: rest, i, c => if j = i then (i, c) :: setL rest i c else (j, d) :: setL rest i c

def Api.look (s : Api) (i : Nat) : Option CallSt := lookL s.calls i

def Api.set (s : Api) (i : Nat) (c : CallSt) : Api := { s with calls := setL s.calls i c }

def Api.enabled (s : Api) : ApiEv → Bool
  | .call i => (s.look i).isNone
  | .accept i => s.running && s.look i == some .offering
  | .refuse i => !s.running && s.look i == some .offering
  | .receive i => s.look i == some .accepted
  | .stop => s.running

def Api.step (s : Api) : ApiEv → Api
  | .call i => { s with calls := (i, .offering) :: s.calls }
  | .accept i => { s.set i .accepted with served := s.served + 1 }
  | .refuse i => s.set i (.returned false)
  | .receive i => s.set i (.returned true)
  | .stop => { s with running := false }

def Api.run (s : Api) : List ApiEv → Option Api
  | [] => some s
  | e :: es => if s.enabled e then (s.step e).run es else none

/-- what is left for call `i` to do: 2 steps while offering to a running component (accept, receive), 1 otherwise -/
def Api.todo (s : Api) (i : Nat) : Nat :=
  match s.look i with
  | some .offering => if s.running then 2 else 1
  | some .accepted => 1
  | _ => 0

end KC
