/-
  Filters: model of filter/*.go, types/pod/filter.go, types/event/filter.go,
  types/service/filter.go (SelectorMatchFilter) and of the parts of
  k8s.io/apimachinery/pkg/labels they use.

  Go maps are represented as association lists in canonical form (sorted by key, no
  duplicate key); the harness serialises maps that way.
-/
import KcacheModel.Base
namespace KC

/-- what filters can read of an object -/
structure Obj where
  kind : String := "pod"
  ns : String := ""
  name : String := ""
  rv : String := ""
  labels : List (String × String) := []
  /-- pod: .spec.nodeName -/
  node : String := ""
  /-- service: .spec.selector -/
  selector : List (String × String) := []
  /-- event: .involvedObject -/
  invKind : String := ""
  invNs : String := ""
  invName : String := ""
  deriving DecidableEq, Repr, Inhabited

def Obj.key (o : Obj) : Key := ⟨o.ns, o.name⟩

/-- selection.Operator -/
inductive Op | in_ | notIn | exists_ | doesNotExist | eq | dblEq | notEq | gt | lt
  deriving DecidableEq, Repr

/-- labels.Requirement -/
structure Req where
  key : String
  op : Op
  vals : List String
  deriving DecidableEq, Repr

/-- labels.Selector as produced by Everything / Nothing / SelectorFromSet / LabelSelectorAsSelector -/
inductive Sel
  | nothing
  | reqs (rs : List Req)
  /-- `labels.NewSelector()` / `labels.Parse("")`: the nil requirement slice — matches everything like `reqs []`, but
  it is a different value for `reflect.DeepEqual` (a nil slice is not an empty slice) -/
  | nilReqs
  deriving DecidableEq, Repr

/-- `Requirement.Matches` -/
def Req.matches (r : Req) (ls : List (String × String)) : Bool :=
  match r.op with
  | .in_ | .eq | .dblEq =>
    match AL.lookup r.key ls with
    | none => false
    | some v => r.vals.contains v
  | .notIn | .notEq =>
    match AL.lookup r.key ls with
    | none => true
    | some v => !r.vals.contains v
  | .exists_ => (AL.lookup r.key ls).isSome
  | .doesNotExist => (AL.lookup r.key ls).isNone
  | .gt | .lt =>
    match AL.lookup r.key ls with
    | none => false
    | some v =>
      match Atoi.atoi v, r.vals with
      | some lv, [rv] =>
        match Atoi.atoi rv with
        | some rvv => (r.op == .gt && decide (lv > rvv)) || (r.op == .lt && decide (lv < rvv))
        | none => false
      | _, _ => false

/-- `Selector.Matches` -/
def Sel.matches : Sel → List (String × String) → Bool
  | .nothing, _ => false
  | .reqs rs, ls => rs.all (·.matches ls)
  | .nilReqs, _ => true

inductive Filter
  | null
  | all
  | not (c : Filter)
  | and (cs : List Filter)
  | or (cs : List Filter)
  /-- `nsNameFilter{fullset, partials}`; `full` is a set (compared as one), `partials` a slice -/
  | nsname (full : List Key) (partials : List Key)
  | selector (s : Sel)
  /-- `filter.FN`: an opaque predicate, identified by an index into an environment -/
  | fn (id : Nat)
  /-- pod.NodeFilter: set of node names -/
  | node (names : List String)
  /-- event.InvolvedFilter -/
  | involved (kind ns name : String)
  /-- service.SelectorMatchFilter: target map -/
  | selectorMatch (target : List (String × String))
  deriving Repr

def partialMatches (id : Key) (k : Key) : Bool :=
  if id.ns = "" then id.name == k.name
  else if id.name = "" then id.ns == k.ns
  else false

mutual
  /-- `Filter.Accept` -/
  def accept (fns : Nat → Obj → Bool) : Filter → Obj → Bool
    | .null, _ => true
    | .all, _ => false
    | .not c, o => !accept fns c o
    | .and cs, o => acceptAll fns cs o
    | .or cs, o => acceptAny fns cs o
    | .nsname full partials, o => full.contains o.key || partials.any (partialMatches · o.key)
    | .selector s, o => s.matches o.labels
    | .fn id, o => fns id o
    | .node names, o => o.kind == "pod" && names.contains o.node
    | .involved kind ns name, o =>
      o.kind == "event" && o.invKind == kind && o.invNs == ns && o.invName == name
    | .selectorMatch target, o =>
      o.kind == "service" && !o.selector.isEmpty && !target.isEmpty &&
        o.selector.all (fun kv => AL.lookup kv.1 target == some kv.2)
  def acceptAll (fns : Nat → Obj → Bool) : List Filter → Obj → Bool
    | [], _ => true
    | c :: cs, o => accept fns c o && acceptAll fns cs o
  def acceptAny (fns : Nat → Obj → Bool) : List Filter → Obj → Bool
    | [], _ => false
    | c :: cs, o => accept fns c o || acceptAny fns cs o
end

/-- implements `ComparableFilter` (everything but FN) -/
def Filter.comparable : Filter → Bool
  | .fn _ => false
  | _ => true

def setEq {α : Type} [BEq α] (a b : List α) : Bool := a.all (b.contains ·) && b.all (a.contains ·)

mutual
  /-- `f.Equals(g)`; false when `f` is not comparable (as `FiltersEqual` does) -/
  def equals : Filter → Filter → Bool
    | .null, .null => true
    | .all, .all => true
    | .not c, .not d => c.comparable && equals c d
    | .and cs, .and ds => equalsList cs ds
    | .or cs, .or ds => equalsList cs ds
    | .nsname f p, .nsname f' p' => setEq f f' && p == p'
    | .selector s, .selector s' => s == s'
    | .node ns, .node ns' => setEq ns ns'
    | .involved k n m, .involved k' n' m' => k == k' && n == n' && m == m'
    | .selectorMatch t, .selectorMatch t' => t == t'
    | _, _ => false
  /-- `compareFilterList` -/
  def equalsList : List Filter → List Filter → Bool
    | [], [] => true
    | c :: cs, d :: ds => c.comparable && d.comparable && equals c d && equalsList cs ds
    | _, _ => false
end

/-- `filter.FiltersEqual` with nil handling -/
def filtersEqual : Option Filter → Option Filter → Bool
  | none, none => true
  | some f, some g => equals f g
  | _, _ => false

/-! ### Constructors -/

/-- `filter.NSName(ids...)` -/
def nsnameF (ids : List Key) : Filter :=
  .nsname (ids.filter (fun id => id.ns != "" && id.name != ""))
          (ids.filter (fun id => !(id.ns != "" && id.name != "")))

/-- `filter.Labels(m)` = `Selector(labels.SelectorFromSet(m))`; `m` canonical (sorted by key) -/
def labelsF (m : List (String × String)) : Filter :=
  .selector (.reqs (m.map (fun kv => ⟨kv.1, .eq, [kv.2]⟩)))

/-- metav1.LabelSelectorRequirement (operator already one of the four valid ones) -/
structure LSReq where
  key : String
  op : Op
  vals : List String
  deriving DecidableEq, Repr

/-- metav1.LabelSelector -/
structure LabelSelector where
  matchLabels : List (String × String) := []
  matchExpressions : List LSReq := []
  deriving DecidableEq, Repr

/-- stable insertion sort by key (`sort.Sort(ByKey(..))` on the short lists that occur) -/
def insertReq (r : Req) : List Req → List Req
  | [] => [r]
  | x :: xs => if r.key < x.key then r :: x :: xs else x :: insertReq r xs

def sortReqs : List Req → List Req
  | [] => []
  | r :: rs => insertReq r (sortReqs rs)

/-- `metav1.LabelSelectorAsSelector` for a valid selector -/
def labelSelectorAsSel : Option LabelSelector → Sel
  | none => .nothing
  | some ls =>
    if ls.matchLabels.isEmpty && ls.matchExpressions.isEmpty then .reqs []
    else .reqs (sortReqs (ls.matchLabels.map (fun kv => ⟨kv.1, .eq, [kv.2]⟩) ++
                          ls.matchExpressions.map (fun e => ⟨e.key, e.op, e.vals⟩)))

/-- `filter.LabelSelector(ls)` -/
def labelSelectorF (ls : Option LabelSelector) : Filter := .selector (labelSelectorAsSel ls)

/-- `pod.NodeFilter(names...)` -/
def nodeF (names : List String) : Filter := .node names

/-- no `FN` leaf anywhere in the term -/
def fnFree : Filter → Bool
  | .fn _ => false
  | .not c => fnFree c
  | .and cs => fnFreeList cs
  | .or cs => fnFreeList cs
  | _ => true
where fnFreeList : List Filter → Bool
  | [] => true
  | c :: cs => fnFree c && fnFreeList cs

end KC
