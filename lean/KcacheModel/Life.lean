/-
  Lifecycle cascade: who stops when something is closed. Every component (controller, subscription,
  publisher/clone, filtered subscription, monitor, join helper) owns a boz/go-lifecycle: "stopping" =
  ShutdownInitiated (its stopping channel is closed), "done" = ShutdownCompleted. The rules read off the code:
    * Close(x) / context cancel / fatal error requests x's own shutdown;
    * a component starts stopping when it was asked to, or when the component it is fed by is stopping
      (publisher closes its subscriptions on ShuttingDown; a subscription's closed Events() stops the
      publisher / filtered subscription / monitor reading it);
    * a component is done once it is stopping and everything it feeds is done (publisher.run drains its
      subscriptions; controller.run waits for cache, watcher and lister).
  Nodes are numbered so that a node's feeder (`parent`) has a smaller index; node 0 is the root controller.
  The scheduler picks which enabled rule fires next.
-/
namespace KC

structure Life where
  len : Nat
  parent : Nat → Nat
  stopReq : Nat → Bool
  stopping : Nat → Bool
  done : Nat → Bool

inductive LLabel
  | close (i : Nat)    -- Close() / cancel / fatal error on node i (external)
  | stop (i : Nat)     -- node i observes a reason to stop: ShutdownInitiated
  | finish (i : Nat)   -- node i completes: ShutdownCompleted
  deriving DecidableEq

def Life.isChild (s : Life) (i c : Nat) : Bool := decide (0 < c) && decide (c < s.len) && (s.parent c == i)

def Life.childrenDone (s : Life) (i : Nat) : Bool :=
  (List.range s.len).all (fun c => !s.isChild i c || s.done c)

def Life.enabled (s : Life) : LLabel → Bool
  | .close i => decide (i < s.len)
  | .stop i => decide (i < s.len) && !s.stopping i && (s.stopReq i || (decide (0 < i) && s.stopping (s.parent i)))
  | .finish i => decide (i < s.len) && s.stopping i && !s.done i && s.childrenDone i

def Life.step (s : Life) : LLabel → Life
  | .close i => { s with stopReq := fun j => if j = i then true else s.stopReq j }
  | .stop i => { s with stopping := fun j => if j = i then true else s.stopping j }
  | .finish i => { s with done := fun j => if j = i then true else s.done j }

def Life.run (s : Life) : List LLabel → Option Life
  | [] => some s
  | l :: ls => if s.enabled l then (s.step l).run ls else none

/-- `a` is `i` or an ancestor of `i` (following feeders up to the root) -/
def Life.ancestorOrSelf (s : Life) : Nat → Nat → Nat → Bool
  | 0, a, i => a == i
  | fuel + 1, a, i => a == i || (decide (0 < i) && s.ancestorOrSelf fuel a (s.parent i))

/-- some Close() hit node `i` or one of its ancestors -/
def Life.underClose (s : Life) (i : Nat) : Bool :=
  (List.range s.len).any (fun a => s.stopReq a && s.ancestorOrSelf s.len a i)

/-- well-formed tree: feeders have smaller indices -/
def Life.WF (s : Life) : Prop := ∀ c, 0 < c → c < s.len → s.parent c < c

/-- no internal rule can fire any more -/
def Life.terminal (s : Life) : Prop := ∀ i, s.enabled (.stop i) = false ∧ s.enabled (.finish i) = false

end KC
