def hello := "world"
