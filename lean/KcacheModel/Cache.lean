/-
  The versioned cache: code-shaped model of cache.go (doUpdate / doSync / doRefilter) and the
  reference semantics ("spec") the properties C01/C02 are stated against.
  Polymorphic in the key type, the object type, the key and version functions and the filter.
-/
import KcacheModel.Base
namespace KC

structure Entry (O : Type) where
  ver : Int
  obj : O
  deriving Repr

instance {O : Type} [DecidableEq O] : DecidableEq (Entry O) := fun a b =>
  if h : a.ver = b.ver ∧ a.obj = b.obj then isTrue (by cases a; cases b; simp_all)
  else isFalse (by intro e; apply h; subst e; exact ⟨rfl, rfl⟩)

abbrev Items (K O : Type) := List (K × Entry O)

inductive EvT | create | update | delete
  deriving DecidableEq, Repr

structure Ev (O : Type) where
  t : EvT
  obj : O
  deriving Repr

section
variable {K O : Type} [DecidableEq K]
variable (key : O → K) (ver : O → Option Int) (acc : O → Bool)

open AL

/-! ### code-shaped model -/

/-- `doUpdate`: an event whose resource version does not parse is ignored (also a delete) -/
def doUpdate (m : Items K O) (t : EvT) (o : O) : Items K O × List (Ev O) :=
  match ver o with
  | none => (m, [])
  | some v =>
    let k := key o
    match t with
    | .delete =>
      match lookup k m with
      | some _ => (erase k m, [⟨.delete, o⟩])
      | none => (m, [])
    | _ =>
      match lookup k m with
      | none => if acc o then (insert k ⟨v, o⟩ m, [⟨.create, o⟩]) else (m, [])
      | some cur =>
        if cur.ver < v then
          (if acc o then (insert k ⟨v, o⟩ m, [⟨.update, o⟩]) else (erase k m, [⟨.delete, o⟩]))
        else (m, [])

structure SyncSt (K O : Type) where
  items : Items K O
  set : List K
  evs : List (Ev O)

/-- one iteration of the `doSync` loop -/
def syncStep (st : SyncSt K O) (o : O) : SyncSt K O :=
  match ver o with
  | none => st
  | some v =>
    let k := key o
    match lookup k st.items with
    | none =>
      if acc o then ⟨insert k ⟨v, o⟩ st.items, k :: st.set, st.evs ++ [⟨.create, o⟩]⟩ else st
    | some cur =>
      if acc o && decide (cur.ver < v) then ⟨insert k ⟨v, o⟩ st.items, k :: st.set, st.evs ++ [⟨.update, o⟩]⟩
      else if decide (cur.ver ≥ v) then (if acc cur.obj then ⟨st.items, k :: st.set, st.evs⟩ else st)
      else st

/-- delete-missing pass: keep exactly the keys of the working set … -/
def keep (set : List K) : Items K O → Items K O
  | [] => []
  | (k, e) :: rest => if k ∈ set then (k, e) :: keep set rest else keep set rest

/-- … and emit a Delete (of the cached object) for every other one -/
def dropped (set : List K) : Items K O → List (Ev O)
  | [] => []
  | (k, e) :: rest => if k ∈ set then dropped set rest else ⟨.delete, e.obj⟩ :: dropped set rest

def syncFold (m : Items K O) (l : List O) : SyncSt K O := l.foldl (syncStep key ver acc) ⟨m, [], []⟩

/-- `doSync` -/
def doSync (m : Items K O) (l : List O) : Items K O × List (Ev O) :=
  let st := syncFold key ver acc m l
  (keep st.set st.items, st.evs ++ dropped st.set st.items)

/-! ### reference semantics -/

abbrev AMap (K O : Type) := K → Option (Entry O)

def abs (m : Items K O) : AMap K O := fun k => lookup k m

def AMap.set (a : AMap K O) (k : K) (e : Option (Entry O)) : AMap K O := fun k' => if k' = k then e else a k'

/-- valid listed entries for key `k`, in list order -/
def listedAll (k : K) : List O → List (Int × O)
  | [] => []
  | o :: rest =>
    match ver o with
    | none => listedAll k rest
    | some v => if key o = k then (v, o) :: listedAll k rest else listedAll k rest

/-- newest of the candidates, the earlier one winning among equal versions -/
def newest (best : Entry O) : List (Int × O) → Entry O
  | [] => best
  | (v, o) :: rest => if best.ver < v then newest ⟨v, o⟩ rest else newest best rest

/-- per-key result of a synchronisation: a key that is not listed is absent; a listed key holds the
newest of (cached entry, listed entries), cached before listed, if the filter accepts it -/
def specKey (cur : Option (Entry O)) (cands : List (Int × O)) : Option (Entry O) :=
  match cands with
  | [] => none
  | (v, o) :: rest =>
    let w := match cur with
      | some c => newest c ((v, o) :: rest)
      | none => newest ⟨v, o⟩ rest
    if acc w.obj then some w else none

def specSync (a : AMap K O) (l : List O) : AMap K O := fun k => specKey acc (a k) (listedAll key ver k l)

/-- create/update event: upsert unless not newer; a rejected newer version removes -/
def specUpsert (a : AMap K O) (v : Int) (o : O) : AMap K O :=
  match a (key o) with
  | none => if acc o then a.set (key o) (some ⟨v, o⟩) else a
  | some c => if c.ver < v then a.set (key o) (if acc o then some ⟨v, o⟩ else none) else a

/-- delete event: the key is absent afterwards; a delete older than the cached version is left
unspecified (either outcome allowed) -/
def specDeleteOk (a a' : AMap K O) (v : Int) (o : O) : Prop :=
  a' = a.set (key o) none ∨ (∃ c, a (key o) = some c ∧ v < c.ver ∧ a' = a)

/-! ### replaying events against an abstract map (C02) -/

/-- apply one event; `none` when it is ill-formed: Create on a present key, Update on an absent key
or with a version that is not strictly newer, Delete on an absent key, unparsable version -/
def applyEv (a : AMap K O) (e : Ev O) : Option (AMap K O) :=
  let k := key e.obj
  match e.t with
  | .delete =>
    match a k with
    | some _ => some (a.set k none)
    | none => none
  | .create =>
    match ver e.obj, a k with
    | some v, none => some (a.set k (some ⟨v, e.obj⟩))
    | _, _ => none
  | .update =>
    match ver e.obj, a k with
    | some v, some c => if c.ver < v then some (a.set k (some ⟨v, e.obj⟩)) else none
    | _, _ => none

def replay : List (Ev O) → AMap K O → Option (AMap K O)
  | [], a => some a
  | e :: es, a => match applyEv key ver a e with
    | some a' => replay es a'
    | none => none

end

/-! ### operations and runs -/

inductive CacheOp (O : Type) (F : Type)
  | sync (l : List O)
  | update (t : EvT) (o : O)
  | refilter (l : List O) (f : F)

structure CacheSt (K O F : Type) where
  items : Items K O
  filter : F

section
variable {K O F : Type} [DecidableEq K]
variable (key : O → K) (ver : O → Option Int) (accF : F → O → Bool)

/-- one request processed by the cache goroutine -/
def cacheStep (s : CacheSt K O F) : CacheOp O F → CacheSt K O F × List (Ev O)
  | .sync l => let r := doSync key ver (accF s.filter) s.items l; (⟨r.1, s.filter⟩, r.2)
  | .update t o => let r := doUpdate key ver (accF s.filter) s.items t o; (⟨r.1, s.filter⟩, r.2)
  | .refilter l f => let r := doSync key ver (accF f) s.items l; (⟨r.1, f⟩, r.2)

def cacheRun (s : CacheSt K O F) (ops : List (CacheOp O F)) : CacheSt K O F :=
  ops.foldl (fun s op => (cacheStep key ver accF s op).1) s

end
end KC
