/-
  Periodic relisting: model of ticker.go (`_ticker.run`) and of the timing part of lister.go (`_lister.run`).
  Logical time is a natural number. Every arming of the timer picks a duration `d` with `lo ≤ d ≤ hi`
  (period ± fuzz). The scheduler/environment chooses the labels: how time passes, when the timer's tick is
  received, how long a list takes, when the controller consumes the result.

  Timer states: `armed dl` (will fire at `dl`), `fired` (its value sits unread in `timer.C`), `idle`
  (fired and the value was received, or stopped). `Reset()` of the ticker: `if !timer.Stop() && !expired
  { <-timer.C }; timer.Reset(d)`. With `useFlag = false` the model is the code before the repair
  (`if !timer.Stop() { <-timer.C }`), which blocks forever when the tick had already been received.
  The two Go timer semantics (pre-1.23 / 1.23+) differ only in what `Stop` reports for a fired, unread
  timer; both leave the channel empty after the drain/Stop, which is all the model needs.
-/
namespace KC

inductive Tmr | armed (deadline : Nat) | fired | idle
  deriving DecidableEq, Repr

inductive LPhase
  | listing (doneAt : Nat)   -- a List call is running
  | pending                  -- its result waits to be consumed by the controller
  | waiting                  -- waiting for the next tick (`tickch != nil`)
  deriving DecidableEq, Repr

structure Tick where
  lo : Nat
  hi : Nat
  now : Nat := 0
  tmr : Tmr
  /-- the tick of the current arming has been received (the repair's flag) -/
  expired : Bool := false
  /-- `nextch != nil`: a tick is on offer to the lister -/
  offer : Bool := false
  ph : LPhase
  /-- the ticker goroutine is blocked forever in `<-timer.C` -/
  stuck : Bool := false
  /-- ghost: when the last result was consumed -/
  lastConsumed : Nat := 0
  /-- ghost: start times of the lists issued after the first -/
  starts : List Nat := []

inductive TLabel
  | advance (t : Nat)
  | fire
  | recv
  | tick (latency d : Nat)
  | done
  | consume (d : Nat)

def Tick.init (lo hi lat d : Nat) : Tick := { lo := lo, hi := hi, tmr := .armed d, ph := .listing lat }

def Tick.enabled (s : Tick) : TLabel → Bool
  | .advance _ => true
  | .fire => match s.tmr with | .armed dl => decide (dl ≤ s.now) | _ => false
  | .recv => !s.stuck && s.tmr == .fired
  | .tick _ d => !s.stuck && s.offer && s.ph == .waiting && decide (s.lo ≤ d) && decide (d ≤ s.hi)
  | .done => match s.ph with | .listing t => decide (t ≤ s.now) | _ => false
  | .consume d => !s.stuck && s.ph == .pending && decide (s.lo ≤ d) && decide (d ≤ s.hi)

def Tick.step (useFlag : Bool) (s : Tick) : TLabel → Tick
  | .advance t => { s with now := s.now + t }
  | .fire => { s with tmr := .fired }
  | .recv => { s with tmr := .idle, expired := true, offer := true }
  | .tick lat d =>
    { s with offer := false, tmr := .armed (s.now + d), expired := false, ph := .listing (s.now + lat),
             starts := s.starts ++ [s.now] }
  | .done => { s with ph := .pending }
  | .consume d =>
    -- the controller takes the result; the lister calls ticker.Reset() and waits for the next tick
    if !useFlag && s.tmr == .idle then
      -- `!timer.Stop()` is true and the channel is empty: `<-timer.C` never returns
      { s with ph := .waiting, lastConsumed := s.now, stuck := true }
    else
      { s with ph := .waiting, lastConsumed := s.now, tmr := .armed (s.now + d), expired := false, offer := false }

def Tick.run (useFlag : Bool) (s : Tick) : List TLabel → Option Tick
  | [] => some s
  | l :: ls => if s.enabled l then (Tick.step useFlag s l).run useFlag ls else none

end KC
