/-
  Filtered subscription: code-shaped model of `filterSubscription.run` (subscription_filter.go).
  One step = one iteration of its select loop; the label says which case fired and carries what
  the environment supplied (the parent's cache content for a List(), the parent's next event).
  Polymorphic in the filter representation `F` (with its equality test `feq` = filter.FiltersEqual
  and acceptance `accF`).
-/
import KcacheModel.Cache
namespace KC

/-- bounded FIFO with drop-newest: a buffered channel written with `select { case ch <- x: default: }` -/
def offer {α : Type} (cap : Nat) (q : List α) (a : α) : List α := if q.length < cap then q ++ [a] else q

def offerAll {α : Type} (cap : Nat) (q : List α) (as : List α) : List α := as.foldl (offer cap) q

structure FSub (K O F : Type) where
  deferReady : Bool
  /-- `preadych == nil`: the parent's readiness has been observed -/
  pseen : Bool := false
  pending : Bool := false
  ready : Bool := false
  /-- `s.filter`: the filter remembered for the "unchanged?" test -/
  filter : F
  /-- the filter inside `s.cache` -/
  cfilter : F
  items : Items K O := []
  /-- `s.outch` -/
  out : List (Ev O) := []
  /-- number of times `close(s.readych)` was executed (a second one would panic) -/
  readyCloses : Nat := 0
  stopped : Bool := false
  /-- ghost: some Refilter call has been received -/
  refilterSeen : Bool := false
  /-- ghost: the filter most recently asked for (constructor argument, then every Refilter argument) -/
  lastF : F

inductive FLabel (O F : Type)
  /-- `case <-preadych`, with the parent's `Cache().List()` at that instant -/
  | parentReady (plist : List O)
  /-- `case f := <-s.refilterch`, with the parent's `Cache().List()` (used only when needed) -/
  | refilter (f : F) (plist : List O)
  /-- `case evt := <-s.parent.Events()` -/
  | parentEvent (t : EvT) (o : O)
  /-- parent events closed / shutdown requested -/
  | stop

section
variable {K O F : Type} [DecidableEq K]
variable (key : O → K) (ver : O → Option Int) (accF : F → O → Bool) (feq : F → F → Bool) (cap : Nat)

def FSub.init (deferReady : Bool) (f : F) : FSub K O F :=
  { deferReady := deferReady, filter := f, cfilter := f, lastF := f }

/-- is the label's `select` case enabled? (`preadych` is nil once seen; nothing after stop) -/
def FSub.enabled (s : FSub K O F) : FLabel O F → Bool
  | .parentReady _ => !s.stopped && !s.pseen
  | _ => !s.stopped

def FSub.step (s : FSub K O F) : FLabel O F → FSub K O F
  | .stop => { s with stopped := true }
  | .parentReady plist =>
    if s.deferReady && !s.pending then { s with pseen := true }
    else
      let r := doSync key ver (accF s.cfilter) s.items plist
      { s with pseen := true, items := r.1, ready := true, readyCloses := s.readyCloses + 1 }
  | .refilter f plist =>
    let isNew := !feq s.filter f
    let s := { s with refilterSeen := true, lastF := f }
    if !s.pseen && !isNew then { s with pending := true }
    else if !s.pseen && isNew then
      let r := doSync key ver (accF f) s.items []
      { s with items := r.1, cfilter := f, filter := f, pending := true }
    else if s.ready && !isNew then s
    else if !s.ready && !isNew then { s with ready := true, readyCloses := s.readyCloses + 1 }
    else
      let r := doSync key ver (accF f) s.items plist
      if !s.ready then
        { s with items := r.1, cfilter := f, filter := f, ready := true, readyCloses := s.readyCloses + 1 }
      else
        { s with items := r.1, cfilter := f, filter := f, out := offerAll cap s.out r.2 }
  | .parentEvent t o =>
    if !s.ready then s
    else
      let r := doUpdate key ver (accF s.cfilter) s.items t o
      { s with items := r.1, out := offerAll cap s.out r.2 }

/-- the events a step hands to `distributeEvents` (before the bounded buffer) -/
def FSub.emitted (s : FSub K O F) : FLabel O F → List (Ev O)
  | .refilter f plist =>
    let isNew := !feq s.filter f
    if s.pseen && isNew && s.ready then (doSync key ver (accF f) s.items plist).2 else []
  | .parentEvent t o => if s.ready then (doUpdate key ver (accF s.cfilter) s.items t o).2 else []
  | _ => []

end
end KC
