/-
  Instantiation of the two code templates of the repository, as functions on token streams:
  * `types/gen/template.go` (genny): the generic identifier `ObjectType` is replaced by the concrete type, the
    package clause by the target package (imports and the `generic.Type` declaration are not part of the streams);
  * the text/template of `join/gen/main.go`: the `{{.Field}}` placeholders (turned into marker identifiers
    `ZZFieldZZ` by the extractor, so that the text scans as Go) are replaced by the join's parameters, also
    inside identifiers and string literals; `{{.SrcType}}` stands alone and becomes the type's tokens.
-/
import KcacheModel.Extracted.Gen
namespace KC.Gen
open KC.Extracted.Gen

/-- genny: `package main` → `package <pkg>`, every `ObjectType` token → the tokens of the concrete type -/
def instantiateTyped (pkgTok : Nat) (ty : List Nat) : List Nat → List Nat
  | p :: _ :: rest => p :: pkgTok :: rest.flatMap (fun t => if t = objectTypeTok then ty else [t])
  | ts => ts

/-- text/template: the token stream is a list of byte codes; code 256+i is the i-th placeholder
(SrcName, SrcPkg, SrcType, DstName, DstPkg) and is replaced by the bytes of the i-th parameter -/
def instantiateJoin (params : List (List Nat)) (codes : List Nat) : List Nat :=
  codes.flatMap (fun c => if c < 256 then [c] else params.getD (c - 256) [])

end KC.Gen
