/-
  The publication pipeline: a tree of bounded queues (subscription.go: `inch` + non-blocking send to
  `outch`, EventBufsiz slots) fed by publishers (publisher.go: pop own subscription, send to every child).
  Small-step model for *all* interleavings: the scheduler chooses which publisher forwards, which consumer
  reads, when a new subscription is attached. Node 0 is the controller's own subscription + publisher.

  Modelling: the unbuffered `inch` followed by the non-blocking send to `outch` is one `offer`
  (drop-newest when full); one `forward` hands the head event to every child at once (the per-child
  sends of `distributeEvent` commute with the children's reads).
-/
import KcacheModel.FSub
namespace KC

structure PNode (α : Type) where
  parent : Nat
  isPub : Bool
  /-- the node's subscription buffer (`outch`) -/
  q : List α := []
  /-- ghost: what the node has taken out of its buffer so far (a publisher: forwarded; a consumer: read) -/
  out : List α := []
  /-- ghost: how many events the parent had forwarded when this subscription was created -/
  attachedAt : Nat := 0
  /-- ghost: an offer to this node's buffer was dropped at some point (buffer overrun) -/
  dropped : Bool := false

structure Pipe (α : Type) where
  len : Nat
  node : Nat → PNode α
  /-- ghost: everything the controller has published -/
  published : List α
  cap : Nat

inductive PLabel (α : Type)
  | publish (e : α)
  | forward (p : Nat)
  | consume (l : Nat)
  | attach (p : Nat) (isPub : Bool)

section
variable {α : Type}

def Pipe.init (cap : Nat) : Pipe α :=
  { len := 1, node := fun _ => { parent := 0, isPub := true }, published := [], cap := cap }

def full (cap : Nat) (q : List α) : Bool := !(q.length < cap)

/-- is the label's step enabled? A publisher's `forward` needs only a non-empty buffer of its own:
nothing about its children (their buffers are written without blocking). -/
def Pipe.enabled (s : Pipe α) : PLabel α → Bool
  | .publish _ => true
  | .forward p => p < s.len && (s.node p).isPub && !(s.node p).q.isEmpty
  | .consume l => l < s.len && !(s.node l).isPub && !(s.node l).q.isEmpty
  | .attach p _ => p < s.len && (s.node p).isPub

def Pipe.step (s : Pipe α) : PLabel α → Pipe α
  | .publish e =>
    let n := s.node 0
    { s with published := s.published ++ [e],
             node := fun i => if i = 0 then { n with q := offer s.cap n.q e, dropped := n.dropped || full s.cap n.q }
                              else s.node i }
  | .forward p =>
    match (s.node p).q with
    | [] => s
    | e :: rest =>
      { s with node := fun i =>
          if i = p then { s.node p with q := rest, out := (s.node p).out ++ [e] }
          else if 0 < i ∧ i < s.len ∧ (s.node i).parent = p then
            { s.node i with q := offer s.cap (s.node i).q e, dropped := (s.node i).dropped || full s.cap (s.node i).q }
          else s.node i }
  | .consume l =>
    match (s.node l).q with
    | [] => s
    | e :: rest => { s with node := fun i => if i = l then { s.node l with q := rest, out := (s.node l).out ++ [e] } else s.node i }
  | .attach p isPub =>
    { s with len := s.len + 1,
             node := fun i => if i = s.len then { parent := p, isPub := isPub, attachedAt := (s.node p).out.length } else s.node i }

/-- a run: every label must be enabled when it is taken -/
def Pipe.run (s : Pipe α) : List (PLabel α) → Option (Pipe α)
  | [] => some s
  | l :: ls => if s.enabled l then (s.step l).run ls else none

end
end KC
