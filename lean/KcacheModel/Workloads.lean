/-
  Workload selection filters: model of types/{service,replicationcontroller,replicaset,
  deployment,daemonset,statefulset,job}/filter.go (PodsFilter) and types/ingress/filter.go
  (ServicesFilter).
-/
import KcacheModel.Filter
namespace KC

/-- what a PodsFilter reads of a workload (service, RC, RS, deployment, …) -/
structure Workload where
  key : Key
  /-- `.spec.selector` of an apps/batch workload (`*metav1.LabelSelector`, may be nil) -/
  selector : Option LabelSelector := none
  /-- `.spec.template.labels` of an apps/batch workload; `.spec.selector` (a map) of a service or RC -/
  labels : List (String × String) := []
  deriving DecidableEq, Repr

def Key.lt (a b : Key) : Bool := if a.ns ≠ b.ns then decide (a.ns < b.ns) else decide (a.name < b.name)

/-- insertion sort by (namespace, name) — `sort.Slice` with the `less` of the PodsFilters
    (its result is determined for distinct keys, the only case used) -/
def insertW (w : Workload) : List Workload → List Workload
  | [] => [w]
  | x :: xs => if Key.lt w.key x.key then w :: x :: xs else x :: insertW w xs

def sortW : List Workload → List Workload
  | [] => []
  | w :: ws => insertW w (sortW ws)

/-- the per-workload selector filter of the apps/batch PodsFilters -/
def workloadSelF (w : Workload) : Filter :=
  match w.selector with
  | some s => labelSelectorF (some s)
  | none => labelsF w.labels

/-- replicaset / deployment / daemonset / statefulset / job `PodsFilter` -/
def podsFilter (ws : List Workload) : Filter :=
  .or ((sortW ws).map (fun w => .and [nsnameF [⟨w.key.ns, ""⟩], workloadSelF w]))

/-- `service.PodsFilter`: services without selector contribute nothing -/
def servicePodsFilter (ws : List Workload) : Filter :=
  .or ((sortW ws).filterMap (fun w =>
    if w.labels.isEmpty then none else some (.and [nsnameF [⟨w.key.ns, ""⟩], labelsF w.labels])))

/-- `replicationcontroller.PodsFilter`: no namespace term (see C19, known finding) -/
def rcPodsFilter (ws : List Workload) : Filter :=
  .or ((sortW ws).map (fun w => labelsF w.labels))

/-- what ServicesFilter reads of an ingress: namespace and backend service names in order
    (default backend first, then every rule path), empty names already skipped -/
structure Ingress where
  ns : String
  /-- `.spec.backend.serviceName` ("" when there is no default backend) -/
  defaultBackend : String := ""
  /-- service names of `.spec.rules[*].http.paths[*].backend`, in order -/
  pathBackends : List String := []
  deriving DecidableEq, Repr

def Ingress.ids (i : Ingress) : List Key :=
  (if i.defaultBackend ≠ "" then [⟨i.ns, i.defaultBackend⟩] else []) ++
    (i.pathBackends.filter (· ≠ "")).map (fun s => ⟨i.ns, s⟩)

/-- `ingress.ServicesFilter` -/
def servicesFilter (is : List Ingress) : Filter := nsnameF (is.flatMap Ingress.ids)

/-! ### facts used by C17 / C19 -/

theorem Key.lt_asymm {a b : Key} (h : Key.lt a b = true) : Key.lt b a = false := by
  unfold Key.lt at *
  by_cases hn : a.ns = b.ns
  · simp only [hn, ne_eq, not_true_eq_false, ↓reduceIte, decide_eq_true_eq, decide_eq_false_iff_not] at h ⊢
    exact String.lt_asymm h
  · have hn' : ¬ b.ns = a.ns := fun e => hn e.symm
    simp only [ne_eq, hn, not_false_eq_true, ↓reduceIte, decide_eq_true_eq, hn', decide_eq_false_iff_not] at h ⊢
    exact String.lt_asymm h

theorem Key.lt_trans {a b c : Key} (h1 : Key.lt a b = true) (h2 : Key.lt b c = true) : Key.lt a c = true := by
  obtain ⟨an, am⟩ := a; obtain ⟨bn, bm⟩ := b; obtain ⟨cn, cm⟩ := c
  unfold Key.lt at *
  simp only [ne_eq, ite_not] at h1 h2 ⊢
  by_cases hab : an = bn <;> by_cases hbc : bn = cn
  · subst hab; subst hbc
    simp only [↓reduceIte, decide_eq_true_eq] at h1 h2 ⊢
    exact String.lt_trans h1 h2
  · subst hab
    simp only [↓reduceIte, hbc, decide_eq_true_eq] at h1 h2 ⊢
    exact h2
  · subst hbc
    simp only [↓reduceIte, hab, decide_eq_true_eq] at h1 h2 ⊢
    exact h1
  · simp only [hab, hbc, ↓reduceIte, decide_eq_true_eq] at h1 h2
    have hlt := String.lt_trans h1 h2
    have hac : ¬ an = cn := fun e => by rw [e] at hlt; exact String.lt_irrefl _ hlt
    simp only [hac, ↓reduceIte, decide_eq_true_eq]; exact hlt

theorem Key.lt_total {a b : Key} (h : a ≠ b) : Key.lt a b = true ∨ Key.lt b a = true := by
  obtain ⟨an, am⟩ := a; obtain ⟨bn, bm⟩ := b
  unfold Key.lt
  simp only [ne_eq, ite_not]
  by_cases hn : an = bn
  · subst hn
    have hm : am ≠ bm := by intro e; apply h; rw [e]
    simp only [↓reduceIte, decide_eq_true_eq]
    rcases Std.lt_trichotomy am bm with h | h | h
    · exact Or.inl h
    · exact absurd h hm
    · exact Or.inr h
  · have hn' : ¬ bn = an := fun e => hn e.symm
    simp only [hn, hn', ↓reduceIte, decide_eq_true_eq]
    rcases Std.lt_trichotomy an bn with h | h | h
    · exact Or.inl h
    · exact absurd h hn
    · exact Or.inr h

/-- sortedness w.r.t. the strict key order -/
def WLt (a b : Workload) : Prop := Key.lt a.key b.key = true

theorem insertW_perm (w : Workload) (l : List Workload) : (insertW w l).Perm (w :: l) := by
  induction l with
  | nil => exact List.Perm.refl _
  | cons x xs ih =>
    unfold insertW
    split
    · exact List.Perm.refl _
    · exact (List.Perm.cons x ih).trans (List.Perm.swap w x xs)

theorem sortW_perm (l : List Workload) : (sortW l).Perm l := by
  induction l with
  | nil => exact List.Perm.refl _
  | cons w ws ih => exact (insertW_perm w (sortW ws)).trans (List.Perm.cons w ih)

theorem insertW_sorted (w : Workload) (l : List Workload) (hs : l.Pairwise WLt)
    (hne : ∀ x ∈ l, x.key ≠ w.key) : (insertW w l).Pairwise WLt := by
  induction l with
  | nil => simp [insertW]
  | cons x xs ih =>
    unfold insertW
    have hx := List.pairwise_cons.mp hs
    split
    · rename_i hlt
      refine List.pairwise_cons.mpr ⟨?_, hs⟩
      intro y hy
      rcases List.mem_cons.mp hy with rfl | hy
      · exact hlt
      · exact Key.lt_trans hlt (hx.1 y hy)
    · rename_i hlt
      have hxw : Key.lt x.key w.key = true := by
        rcases Key.lt_total (hne x List.mem_cons_self) with h | h
        · exact h
        · exact absurd h hlt
      refine List.pairwise_cons.mpr ⟨?_, ih hx.2 (fun y hy => hne y (List.mem_cons_of_mem _ hy))⟩
      intro y hy
      have := (insertW_perm w xs).subset hy
      rcases List.mem_cons.mp this with rfl | hy'
      · exact hxw
      · exact hx.1 y hy'

theorem sortW_sorted (l : List Workload) (hn : (l.map (·.key)).Nodup) : (sortW l).Pairwise WLt := by
  induction l with
  | nil => simp [sortW]
  | cons w ws ih =>
    simp only [List.map_cons, List.nodup_cons] at hn
    refine insertW_sorted w (sortW ws) (ih hn.2) ?_
    intro x hx hk
    have hx' := (sortW_perm ws).subset hx
    exact hn.1 (hk ▸ List.mem_map_of_mem hx')

/-- sorting is independent of the order in which distinct-keyed sources are given -/
theorem sortW_eq_of_perm {ws ws' : List Workload} (hp : ws.Perm ws') (hn : (ws.map (·.key)).Nodup) :
    sortW ws = sortW ws' := by
  have hn' : (ws'.map (·.key)).Nodup := (hp.map _).nodup hn
  refine List.Perm.eq_of_pairwise (le := WLt) ?_ (sortW_sorted ws hn) (sortW_sorted ws' hn')
    ((sortW_perm ws).trans (hp.trans (sortW_perm ws').symm))
  intro a b _ _ h1 h2
  have := Key.lt_asymm h1
  rw [h2] at this; cases this

/-! ### reference predicates (specification side of C18/C19) -/

/-- Kubernetes semantics of one `matchExpressions` entry -/
def LSReq.holds (e : LSReq) (ls : List (String × String)) : Bool :=
  match e.op with
  | .in_ => match AL.lookup e.key ls with | some v => e.vals.contains v | none => false
  | .notIn => match AL.lookup e.key ls with | some v => !e.vals.contains v | none => true
  | .exists_ => (AL.lookup e.key ls).isSome
  | .doesNotExist => (AL.lookup e.key ls).isNone
  | _ => false

/-- the four operators a metav1.LabelSelector may carry -/
def LSReq.valid (e : LSReq) : Bool :=
  match e.op with
  | .in_ | .notIn | .exists_ | .doesNotExist => true
  | _ => false

/-- `m ⊆ labels` -/
def subsetLabels (m ls : List (String × String)) : Bool := m.all (fun kv => AL.lookup kv.1 ls == some kv.2)

/-- Kubernetes semantics of a LabelSelector -/
def LabelSelector.holds (s : LabelSelector) (ls : List (String × String)) : Bool :=
  subsetLabels s.matchLabels ls && s.matchExpressions.all (·.holds ls)

/-- the per-workload selection rule: selector if present, template labels otherwise -/
def Workload.selects (w : Workload) (ls : List (String × String)) : Bool :=
  match w.selector with
  | some s => s.holds ls
  | none => subsetLabels w.labels ls

def Workload.valid (w : Workload) : Bool :=
  match w.selector with
  | some s => s.matchExpressions.all (·.valid)
  | none => true

end KC
