/-
  A filtered subscription in its environment: the parent is any producer of a well-formed delta
  stream (C02) whose cache can be listed atomically (C15); events reach the child in order, without
  loss (C05, no buffer overflow). The scheduler/environment chooses the labels, so "for all
  interleavings of parent events, relists and Refilter calls" = "for all label sequences".
-/
import KcacheModel.FSub
import KcacheModel.Proofs.Cache
namespace KC

section
variable {K O F : Type} [DecidableEq K]
variable (key : O → K) (ver : O → Option Int) (accF : F → O → Bool) (feq : F → F → Bool) (cap : Nat)

/-- the parent's cache applies an event (total version of `applyEv`) -/
def papply (a : AMap K O) (e : Ev O) : AMap K O :=
  match e.t with
  | .delete => a.set (key e.obj) none
  | _ => match ver e.obj with
    | some v => a.set (key e.obj) (some ⟨v, e.obj⟩)
    | none => a

structure World (K O F : Type) where
  /-- parent content when the child's subscription was created -/
  p0 : AMap K O
  /-- events the parent's cache has applied since (and publishes, in this order) -/
  plog : List (Ev O)
  /-- how many of them the child has taken from its subscription -/
  consumed : Nat
  fs : FSub K O F

/-- parent content after its first `i` events -/
def World.pcontent (w : World K O F) (i : Nat) : AMap K O := (w.plog.take i).foldl (papply key ver) w.p0

def World.pnow (w : World K O F) : AMap K O := w.pcontent key ver w.plog.length

inductive WLabel (O F : Type)
  | parentApply (e : Ev O)
  | consume
  | parentReady (plist : List O)
  | refilter (f : F) (plist : List O)
  | stop

def World.enabled (w : World K O F) : WLabel O F → Prop
  | .parentApply e => (applyEv key ver (w.pnow key ver) e).isSome ∧ (ver e.obj).isSome
  | .consume => w.consumed < w.plog.length ∧ w.fs.stopped = false
  | .parentReady plist => w.fs.enabled (.parentReady plist) = true ∧ Snapshot key ver plist (w.pnow key ver)
  | .refilter _ plist => w.fs.stopped = false ∧ Snapshot key ver plist (w.pnow key ver)
  | .stop => True

def World.step (w : World K O F) : WLabel O F → World K O F
  | .parentApply e => { w with plog := w.plog ++ [e] }
  | .consume =>
    match w.plog[w.consumed]? with
    | some e => { w with consumed := w.consumed + 1, fs := FSub.step key ver accF feq cap w.fs (.parentEvent e.t e.obj) }
    | none => w
  | .parentReady plist => { w with fs := FSub.step key ver accF feq cap w.fs (.parentReady plist) }
  | .refilter f plist => { w with fs := FSub.step key ver accF feq cap w.fs (.refilter f plist) }
  | .stop => { w with fs := FSub.step key ver accF feq cap w.fs .stop }

/-- states reachable from the creation of the subscription, for any parent content, any filter
(a deferred subscription starts with the reject-everything filter, as SubscribeForFilter does) -/
inductive Reach : World K O F → Prop
  | init (p0 : AMap K O) (deferReady : Bool) (f0 : F) (h : deferReady = true → ∀ o, accF f0 o = false) :
      Reach ⟨p0, [], 0, FSub.init deferReady f0⟩
  | step (w : World K O F) (l : WLabel O F) : Reach w → w.enabled key ver l → Reach (w.step key ver accF feq cap l)

end
end KC
