/-
  Monitor: code-shaped model of `monitor.run` (monitor.go). One step = one `select` case firing; the
  label carries what the environment supplied. Callbacks are appended to a log.
-/
import KcacheModel.Cache
namespace KC

inductive Callback (O : Type)
  | init (objs : List O)
  | create (o : O)
  | update (o : O)
  | delete (o : O)
  deriving Repr

inductive MonPhase | waiting | running | done
  deriving DecidableEq, Repr

structure Mon (O : Type) where
  phase : MonPhase := .waiting
  log : List (Callback O) := []
  /-- ghost: events taken from the subscription while running -/
  received : List (Ev O) := []

inductive MonLabel (O : Type)
  /-- `case <-m.sub.Done()` -/
  | subDone
  /-- `case <-m.sub.Ready()` with the result of `Cache().List()` (none = error) -/
  | ready (list : Option (List O))
  /-- `case ev := <-m.sub.Events()` -/
  | event (e : Ev O)
  /-- `Events()` closed -/
  | eventsClosed

section
variable {O : Type}

def callbackOf (e : Ev O) : Callback O :=
  match e.t with
  | .create => .create e.obj
  | .update => .update e.obj
  | .delete => .delete e.obj

/-- which `select` cases exist in which phase (`Ready` only in the first select, `Events` only in the second) -/
def Mon.enabled (m : Mon O) : MonLabel O → Bool
  | .subDone => m.phase != .done
  | .ready _ => m.phase == .waiting
  | .event _ => m.phase == .running
  | .eventsClosed => m.phase == .running

def Mon.step (m : Mon O) : MonLabel O → Mon O
  | .subDone => { m with phase := .done }
  | .ready (some l) => { m with phase := .running, log := m.log ++ [.init l] }
  | .ready none => { m with phase := .done }
  | .event e => { m with log := m.log ++ [callbackOf e], received := m.received ++ [e] }
  | .eventsClosed => { m with phase := .done }

def Mon.run (m : Mon O) : List (MonLabel O) → Option (Mon O)
  | [] => some m
  | l :: ls => if m.enabled l then (m.step l).run ls else none

end
end KC
