/-
  The controller with its watch pipeline against an API server: small-step model of controller.go (run loop),
  watcher.go, watch_session.go at the level of *which server change is where*.

  The server's history `hist` is the content of the watch stream (every change, in order). Positions are
  indices into it:
      a ≤ b ≤ c ≤ |hist|
    hist[0..a)  handed to the cache since the last (re)list          (controller: `case evt := <-watcher.events()`)
    hist[a..b)  taken by the watcher, waiting in its out channel      (watcher `outch`; b = `curVersion`)
    hist[b..c)  decoded by the live session, waiting in its buffer    (session `outch`; c = the stream's cursor)
  A list result is a snapshot of the server at some index j (any j: a list may be slower than the watch);
  applying it reconciles the cache (`doSync`), and resets the watch to j (new out channel, new session).
  A session may end at any time (server closes the stream, non-object frame, connect error): what it had
  decoded but the watcher had not taken is re-requested by the retry from `b` — nothing taken is discarded.
  Status / bookmark frames are skipped by the session and do not appear here.
  An event may also be LOST: both buffers of the pipeline are written with a non-blocking send
  (watch_session.go / watcher.go: `default:` — "output buffer full; event missed"), and the resume version moves
  past it. Content-wise a lost change is one the cache never sees: label `drop` skips `hist[a]`; the ghost
  `lost` remembers the skipped indices since the last list.
-/
import KcacheModel.FSubWorld
namespace KC

inductive StopKind | listError | listInvalid | closed
  deriving DecidableEq, Repr

structure CW (K O : Type) where
  hist : List (Ev O) := []
  items : Items K O := []
  ready : Bool := false
  live : Bool := false
  a : Nat := 0
  b : Nat := 0
  c : Nat := 0
  stopped : Option StopKind := none
  /-- ghost: everything distributed to subscribers -/
  published : List (Ev O) := []
  /-- ghost: the cache content at the moment Ready() was closed (what a subscriber reads before its first event) -/
  base : Items K O := []
  /-- ghost: indices of server changes that overflowed a buffer since the last list (never applied) -/
  lost : List Nat := []

inductive CLabel (O : Type)
  | serverChange (e : Ev O)
  | decode
  | take
  | apply
  /-- the next change overflows a buffer of the watch pipeline and is lost -/
  | drop
  | sessEnd
  | retry
  /-- a list result arrives: snapshot of the server at index `j` -/
  | listApplied (j : Nat) (plist : List O)
  /-- a list call fails or returns something that is not a list of API objects -/
  | listFail (k : StopKind)
  | close

section
variable {K O : Type} [DecidableEq K]
variable (key : O → K) (ver : O → Option Int) (acc : O → Bool)

/-- the server's history seen as the parent of an FSub-style world (to reuse the content lemmas) -/
def CW.core (w : CW K O) : World K O Unit := ⟨fun _ => none, w.hist, w.a, FSub.init false ()⟩

/-- server content after its first `i` changes -/
def CW.state (w : CW K O) (i : Nat) : AMap K O := (w.core).pcontent key ver i

def CW.running (w : CW K O) : Bool := w.stopped.isNone

def CW.enabled (w : CW K O) : CLabel O → Prop
  | .serverChange e => (applyEv key ver (w.state key ver w.hist.length) e).isSome ∧ (ver e.obj).isSome ∧
      -- the server hands out strictly increasing resource versions
      (∀ (i : Nat) (ei : Ev O) (vi v : Int), w.hist[i]? = some ei → ver ei.obj = some vi → ver e.obj = some v → vi < v)
  | .decode => w.running = true ∧ w.live = true ∧ w.c < w.hist.length
  | .take => w.running = true ∧ w.b < w.c
  | .apply => w.running = true ∧ w.a < w.b
  | .drop => w.running = true ∧ w.a < w.b
  | .sessEnd => w.live = true
  | .retry => w.running = true ∧ w.live = false ∧ w.ready = true
  | .listApplied j plist => w.running = true ∧ j ≤ w.hist.length ∧ Snapshot key ver plist (w.state key ver j)
  | .listFail k => w.running = true ∧ k ≠ .closed
  | .close => True

def CW.step (w : CW K O) : CLabel O → CW K O
  | .serverChange e => { w with hist := w.hist ++ [e] }
  | .decode => { w with c := w.c + 1 }
  | .take => { w with b := w.b + 1 }
  | .apply =>
    match w.hist[w.a]? with
    | some e =>
      let r := doUpdate key ver acc w.items e.t e.obj
      { w with items := r.1, a := w.a + 1, published := w.published ++ r.2 }
    | none => w
  | .drop => { w with a := w.a + 1, lost := w.a :: w.lost }
  | .sessEnd => { w with live := false, c := w.b }
  | .retry => { w with live := true, c := w.b }
  | .listApplied j plist =>
    let r := doSync key ver acc w.items plist
    { w with items := r.1, ready := true, live := true, a := j, b := j, c := j,
             published := if w.ready then w.published ++ r.2 else w.published,
             base := if w.ready then w.base else r.1, lost := [] }
  | .listFail k => { w with stopped := some k, live := false }
  | .close => { w with stopped := some (w.stopped.getD .closed), live := false }

inductive CReach : CW K O → Prop
  | init : CReach {}
  | step (w : CW K O) (l : CLabel O) : CReach w → w.enabled key ver l → CReach (w.step key ver acc l)

/-- resource versions strictly increase along the server's history -/
def MonoHist (hist : List (Ev O)) : Prop :=
  ∀ (i j : Nat) (ei ej : Ev O) (vi vj : Int), i < j → hist[i]? = some ei → hist[j]? = some ej → ver ei.obj = some vi → ver ej.obj = some vj → vi < vj

end
end KC
