/-
  Executable model of a whole tree (root controller, subscriptions, clones, filtered
  subscriptions/clones, monitors) under the *stepwise* regime: after every harness action the
  system runs to quiescence. Built from the component models (Cache, FSub, bounded queues); used by
  the behavioural-conformance engines. Concrete types: Key / Obj / Filter.
-/
import KcacheModel.Filter
import KcacheModel.Cache
import KcacheModel.FSub
import KcacheModel.Extracted.Facts
namespace KC

def oVer (o : Obj) : Option Int := Atoi.atoi o.rv

/-- the opaque predicates behind `(fn i)` (the harness defines the same ones) -/
def stdFns (i : Nat) (o : Obj) : Bool :=
  match i with
  | 0 => AL.lookup "l" o.labels == some "1"
  | 1 => o.name == "a"
  | 2 => true
  | 3 => o.kind == "pod"
  | n => if n ≥ 10 then AL.lookup "l" o.labels == some (toString (n - 10)) else false

abbrev accStd (f : Filter) (o : Obj) : Bool := accept stdFns f o
def feqStd (f g : Filter) : Bool := filtersEqual (some f) (some g)

abbrev FS := FSub Key Obj Filter

/-- `EventBufsiz`, read off subscription.go by kextract on every run -/
def evCap : Nat := Extracted.Facts.eventBufsiz

structure SNode where
  kind : String            -- root sub subf subd clone clonef cloned mon
  parent : Nat
  closed : Bool := false
  /-- undrained `Events()` of a plain subscription -/
  q : List (Ev Obj) := []
  fs : Option FS := none
  monInit : Option (List Obj) := none
  monLog : List (Ev Obj) := []
  /-- a consumer that does not read (a monitor whose handler does not return) -/
  stalled : Bool := false
  /-- monitor: a callback is in progress and blocked -/
  busy : Bool := false
  /-- monitor: every event ever handed to it (ghost) -/
  monAll : List (Ev Obj) := []
  /-- plain subscription (ghost): the batch during which the buffer ran full, and how many events were queued
      before it — which events of that batch were kept depends on the order inside the batch -/
  bAt : Nat := 0
  bBatch : List (Ev Obj) := []

structure Sys where
  nodes : List SNode := []
  rootItems : Items Key Obj := []
  rootFilter : Filter := .null
  rootReady : Bool := false
  rootClosed : Bool := false
  /-- the API server's current objects -/
  server : Items Key Obj := []
  started : Bool := false

def isFsubKind (k : String) : Bool := k == "subf" || k == "subd" || k == "clonef" || k == "cloned"
def isFPub (k : String) : Bool := k == "clonef" || k == "cloned"

def Sys.node (s : Sys) (i : Nat) : Option SNode := s.nodes[i]?

def Sys.setNode (s : Sys) (i : Nat) (n : SNode) : Sys := { s with nodes := s.nodes.set i n }

/-- readiness of publisher `p` (node 0 is the root) -/
def pubReady : Nat → Sys → Nat → Bool
  | 0, _, _ => false
  | fuel + 1, s, p =>
    if p == 0 then s.rootReady else
    match s.node p with
    | none => false
    | some n =>
      if n.kind == "clone" then pubReady fuel s n.parent
      else match n.fs with
        | some fs => fs.ready
        | none => false

/-- content of the cache behind publisher `p`; `none` = that cache has shut down -/
def pubItems : Nat → Sys → Nat → Option (Items Key Obj)
  | 0, _, _ => none
  | fuel + 1, s, p =>
    if p == 0 then (if s.rootClosed then none else some s.rootItems) else
    match s.node p with
    | none => none
    | some n =>
      if n.kind == "clone" then pubItems fuel s n.parent
      else match n.fs with
        | some fs => if n.closed then none else some fs.items
        | none => none

def itemsList (m : Items Key Obj) : List Obj := m.map (·.2.obj)

def Sys.fuel (s : Sys) : Nat := s.nodes.length + 2

def plistOf (s : Sys) (p : Nat) : List Obj :=
  match pubItems s.fuel s p with
  | some m => itemsList m
  | none => []

def fsStep (fs : FS) (l : FLabel Obj Filter) : FS := FSub.step Obj.key oVer accStd feqStd evCap fs l
def fsEmitted (fs : FS) (l : FLabel Obj Filter) : List (Ev Obj) := FSub.emitted Obj.key oVer accStd feqStd fs l

/-- hand a batch to every live child of publisher `p` -/
def publish : Nat → Sys → Nat → List (Ev Obj) → Sys
  | 0, s, _, _ => s
  | fuel + 1, s, p, evs =>
    if evs.isEmpty then s else
    (List.range s.nodes.length).foldl (fun s c =>
      match s.node c with
      | none => s
      | some n =>
        if c == 0 || n.parent != p || n.closed then s else
        if n.kind == "sub" then
          (if n.q.length < evCap && evCap < n.q.length + evs.length then
             s.setNode c { n with q := offerAll evCap n.q evs, bAt := n.q.length, bBatch := evs }
           else s.setNode c { n with q := offerAll evCap n.q evs })
        else if n.kind == "mon" then
          (if n.monInit.isNone then s
           else if !n.stalled then s.setNode c { n with monLog := n.monLog ++ evs, monAll := n.monAll ++ evs }
           else s.setNode c (evs.foldl (fun (n : SNode) e =>
             let n := { n with monAll := n.monAll ++ [e] }
             if !n.busy then { n with monLog := n.monLog ++ [e], busy := true }
             else { n with q := offer evCap n.q e }) n))
        else if n.kind == "clone" then publish fuel s c evs
        else match n.fs with
          | none => s
          | some fs =>
            if isFPub n.kind then
              -- the clone's publisher drains the filtered subscription's buffer at once
              let (fs', out) := evs.foldl (fun (acc : FS × List (Ev Obj)) e =>
                let l := FLabel.parentEvent e.t e.obj
                ({ fsStep acc.1 l with out := [] }, acc.2 ++ fsEmitted acc.1 l)) (fs, [])
              publish fuel (s.setNode c { n with fs := some fs' }) c out
            else
              let fs' := evs.foldl (fun fs e => fsStep fs (.parentEvent e.t e.obj)) fs
              s.setNode c { n with fs := some fs' }) s

/-- tell child `c` of a publisher that has (just) become ready -/
def notifyChild : Nat → Sys → Nat → Sys
  | 0, s, _ => s
  | fuel + 1, s, c =>
    match s.node c with
    | none => s
    | some n =>
      if n.closed then s else
      if n.kind == "mon" then
        (if n.monInit.isNone then s.setNode c { n with monInit := some (plistOf s n.parent) } else s)
      else if n.kind == "clone" then
        (List.range s.nodes.length).foldl (fun s d =>
          match s.node d with
          | some m => if d != 0 && m.parent == c then notifyChild fuel s d else s
          | none => s) s
      else match n.fs with
        | none => s
        | some fs =>
          if !FSub.enabled fs (.parentReady []) then s else
          let fs' := fsStep fs (.parentReady (plistOf s n.parent))
          let s := s.setNode c { n with fs := some fs' }
          if !fs.ready && fs'.ready && isFPub n.kind then
            (List.range s.nodes.length).foldl (fun s d =>
              match s.node d with
              | some m => if d != 0 && m.parent == c then notifyChild fuel s d else s
              | none => s) s
          else s

def notifyChildren (s : Sys) (p : Nat) : Sys :=
  (List.range s.nodes.length).foldl (fun s d =>
    match s.node d with
    | some m => if d != 0 && m.parent == p then notifyChild s.fuel s d else s
    | none => s) s

def serverApply (m : Items Key Obj) (t : EvT) (o : Obj) : Items Key Obj :=
  match t, oVer o with
  | .delete, _ => AL.erase o.key m
  | _, some v => AL.insert o.key ⟨v, o⟩ m
  | _, none => m

def sortObjs (l : List Obj) : List Obj :=
  l.mergeSort (fun a b => a.ns < b.ns || (a.ns == b.ns && (a.name < b.name || (a.name == b.name && a.rv ≤ b.rv))))

def Sys.serverList (s : Sys) : List Obj := sortObjs (itemsList s.server)

/-- a list result applied by the controller (first list: become ready; later: publish the delta) -/
def Sys.rootSync (s : Sys) : Sys :=
  if s.rootClosed then s else
  let r := doSync Obj.key oVer (accStd s.rootFilter) s.rootItems s.serverList
  let s := { s with rootItems := r.1 }
  if !s.rootReady then notifyChildren { s with rootReady := true } 0
  else publish s.fuel s 0 r.2

inductive SAct
  | srv (t : EvT) (o : Obj)
  | start (f : Filter) (gated : Bool)
  | release
  | relist
  | attach (id parent : Nat) (kind : String) (f : Option Filter)
  | refilter (id : Nat) (f : Filter)
  | close (id : Nat)
  | closeRoot
  | stall (id : Nat)
  | unstall (id : Nat)

def descendantOf : Nat → Sys → Nat → Nat → Bool
  | 0, _, _, _ => false
  | fuel + 1, s, anc, i =>
    if i == anc then true else
    if i == 0 then false else
    match s.node i with
    | some n => descendantOf fuel s anc n.parent
    | none => false

def Sys.act (s : Sys) : SAct → Sys
  | .srv t o =>
    let s := { s with server := serverApply s.server t o }
    if s.rootReady && !s.rootClosed then
      let r := doUpdate Obj.key oVer (accStd s.rootFilter) s.rootItems t o
      publish s.fuel { s with rootItems := r.1 } 0 r.2
    else s
  | .start f gated =>
    let s := { s with rootFilter := f, started := true, nodes := [{ kind := "root", parent := 0 }] }
    if gated then s else s.rootSync
  | .release => s.rootSync
  | .relist => s.rootSync
  | .attach id parent kind f =>
    if id != s.nodes.length then s else
    let fs : Option FS :=
      if kind == "subf" || kind == "clonef" then some (FSub.init false (f.getD .all))
      else if kind == "subd" || kind == "cloned" then some (FSub.init true .all)
      else none
    let s := { s with nodes := s.nodes ++ [{ kind := kind, parent := parent, fs := fs }] }
    if pubReady s.fuel s parent then notifyChild s.fuel s id else s
  | .refilter id f =>
    match s.node id with
    | none => s
    | some n =>
      match n.fs with
      | none => s
      | some fs =>
        if n.closed then s else
        let l := FLabel.refilter f (plistOf s n.parent)
        let em := fsEmitted fs l
        let fs' := fsStep fs l
        if isFPub n.kind then
          let s := s.setNode id { n with fs := some { fs' with out := [] } }
          let s := publish s.fuel s id em
          if !fs.ready && fs'.ready then notifyChildren s id else s
        else s.setNode id { n with fs := some fs' }
  | .close id =>
    { s with nodes := s.nodes.mapIdx (fun i n => if i != 0 && descendantOf s.fuel s id i then { n with closed := true } else n) }
  | .closeRoot =>
    { s with rootClosed := true, nodes := s.nodes.map (fun n => { n with closed := true }) }
  | .stall id =>
    match s.node id with
    | some n => s.setNode id { n with stalled := true }
    | none => s
  | .unstall id =>
    match s.node id with
    | some n =>
      if n.kind == "mon" then s.setNode id { n with stalled := false, busy := false, monLog := n.monLog ++ n.q, q := [] }
      else s.setNode id { n with stalled := false }
    | none => s

/-! observations -/

def Sys.readyOf (s : Sys) (i : Nat) : Bool :=
  if i == 0 then s.rootReady else
  match s.node i with
  | none => false
  | some n =>
    if isFsubKind n.kind then (match n.fs with | some fs => fs.ready | none => false)
    else pubReady s.fuel s n.parent

def Sys.doneOf (s : Sys) (i : Nat) : Bool :=
  if i == 0 then s.rootClosed else
  match s.node i with
  | none => false
  | some n => n.closed && !(n.kind == "mon" && n.busy)

/-- `Cache().List()` of node `i`; `none` = ErrNotRunning -/
def Sys.cacheOf (s : Sys) (i : Nat) : Option (List Obj) :=
  if i == 0 then (pubItems s.fuel s 0).map itemsList else
  match s.node i with
  | none => none
  | some n =>
    if isFsubKind n.kind then (match n.fs with
      | some fs => if n.closed then none else some (itemsList fs.items)
      | none => none)
    else (pubItems s.fuel s n.parent).map itemsList

/-- events waiting on `Events()` of leaf `i` -/
def Sys.pendingOf (s : Sys) (i : Nat) : List (Ev Obj) :=
  match s.node i with
  | none => []
  | some n => if n.kind == "sub" then n.q else match n.fs with
    | some fs => fs.out
    | none => []

/-- (length of the queue before, events of) the batch during which plain subscription `i` ran full -/
def Sys.boundaryOf (s : Sys) (i : Nat) : Nat × List (Ev Obj) :=
  match s.node i with
  | none => (0, [])
  | some n => (n.bAt, n.bBatch)

def Sys.drain (s : Sys) (i : Nat) : Sys :=
  match s.node i with
  | none => s
  | some n =>
    if n.kind == "sub" then s.setNode i { n with q := [], bAt := 0, bBatch := [] }
    else match n.fs with
      | some fs => s.setNode i { n with fs := some { fs with out := [] } }
      | none => s

/-- a slow consumer reads the first `k` events of plain subscription `i` and stops again -/
def Sys.sip (s : Sys) (i : Nat) (k : Nat) : Sys :=
  match s.node i with
  | none => s
  | some n => if n.kind == "sub" then s.setNode i { n with q := n.q.drop k, bAt := n.bAt - k } else s

/-- the same when the events read are known (a read may stop in the middle of a batch, whose order is free):
what is left in the buffer is given -/
def Sys.sipTo (s : Sys) (i : Nat) (rest : List (Ev Obj)) : Sys :=
  match s.node i with
  | none => s
  | some n => if n.kind == "sub" then s.setNode i { n with q := rest, bAt := n.bAt - (n.q.length - rest.length) } else s

def Sys.monDrain (s : Sys) (i : Nat) : Sys :=
  match s.node i with
  | none => s
  | some n => s.setNode i { n with monLog := [] }

end KC
