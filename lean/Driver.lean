import Driver.SExp
import Driver.Decode
import Driver.FilterEng
import Driver.CacheEng
import Driver.TreeEng
import Driver.CtrlEng
import Driver.ListerEng
import Driver.LinEng
