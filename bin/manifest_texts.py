TEXTS = {
    "_hooks": ["9e4b57e verif: exported wrappers for in-package units (build tag verif)", "verif: gofmt hook file"],
    "C01": {
        "text": "Lean theorems over the code-shaped cache model, for every filter, content, object universe and operation history: "
                "sync/refilter refine the per-key newest-accepted reference semantics (any list without a doubly-listed key), updates are "
                "version-aware upserts, every reachable state holds only accepted objects, versions never regress; the literal statement "
                "for lists with duplicate keys is proved FALSE on a witness (known finding). The model is tied to cache.go by running the "
                "real cache goroutine on generated operation sequences and comparing every List()/event batch with the model and the reference semantics.",
        "design_ref": "DESIGN.md §7 C01, §3.2",
        "note": "Trusted: Lean kernel (axioms propext, Quot.sound, Classical.choice), the hand-written model, the cachediff correspondence "
                "(sampled inputs; exhaustive only over the small universe), strconv.Atoi model. Crash-freedom is exhibited by the harness (process death = violation), not by a theorem.",
        "technique": "Lean 4 proof (induction over the doSync fold and over operation lists, refinement to a per-key spec) + differential correspondence against the real cache",
    },
    "C02": {
        "text": "Lean theorems: for every operation with arbitrary arguments (duplicates and malformed entries included) the emitted batch replays, "
                "in order, from the content before to the content after (Create on absent, Update strictly newer, Delete on present); an operation "
                "that leaves the content unchanged emits nothing; a consumer replaying all batches never diverges (induction over histories). "
                "Tie: the real cache's batches are replayed in the order emitted by the Lean spec on every generated operation.",
        "design_ref": "DESIGN.md §7 C02",
        "note": "Trusted as for C01. Publication of the batches by controller / filtered subscription is covered by the pipeline properties, not here.",
        "technique": "Lean 4 proof (replay invariant of the sync fold, per-key 'an event means a change' invariant) + differential correspondence",
    },
    "C17": {
        "text": "Lean theorem equals_sound: for all filter terms of any shape/depth (mutual structural induction over the nested term type) Equals/FiltersEqual "
                "reporting true implies identical Accept on every object and every FN environment; equals_refl for FN-free terms; workload filters are "
                "invariant under permutation of distinct-keyed sources (sort uniqueness). Tie: real constructors, Equals, FiltersEqual and Accept on the same term pairs over a separating object universe.",
        "design_ref": "DESIGN.md §7 C17",
        "note": "Trusted: Lean kernel, the filter model (reflect.DeepEqual and apimachinery selectors modelled), filterdiff correspondence and its Go-side oracle (equal => same Accept vector).",
        "technique": "Lean 4 proof (mutual structural induction) + differential correspondence over term pairs",
    },
    "C18": {
        "text": "Lean theorems: Accept of Null/All/Not/And/Or are the boolean connectives (empty And accepts, empty Or rejects); NSName accepts iff some entry matches "
                "with empty fields as wildcards; Labels = subset; LabelSelector = all matchLabels and matchExpressions hold (In/NotIn/Exists/DoesNotExist), independent of the requirement sort. "
                "Tie: every term's Accept vector over the object universe, evaluated twice, against the model.",
        "design_ref": "DESIGN.md §7 C18",
        "note": "Trusted: Lean kernel, the selector model of k8s.io/apimachinery/pkg/labels, filterdiff. NSName entries with both fields empty and invalid selectors are outside the contract.",
        "technique": "Lean 4 proof (equational theorems about the filter model) + differential correspondence",
    },
    "C19": {
        "text": "Lean theorems: the apps/batch PodsFilter and the service PodsFilter accept a pod iff some given namespaced workload of the pod's namespace selects its labels "
                "(selector, else template labels; selector-less services select nothing); ServicesFilter accepts exactly the named backends of same-namespace ingresses; node/involved/selector-match "
                "specs incl. rejection of other kinds. For replication controllers the full statement is proved FALSE on a witness (known finding) and the exact behaviour is characterised. "
                "Tie: real constructors on source sets over the selector universe, Accept vectors against model and reference predicate.",
        "design_ref": "DESIGN.md §7 C19",
        "note": "Trusted: Lean kernel, filter/workload model, filterdiff. Known finding C19-rc-pods-no-namespace is reported as KNOWN-FINDING, any other deviation as a violation.",
        "technique": "Lean 4 proof + differential correspondence against a reference ownership predicate",
    },
}
NOT_BUILT = {}
