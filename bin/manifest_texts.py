TEXTS = {
    "_hooks": ["9e4b57e verif: exported wrappers for in-package units (build tag verif)", "2b723cb verif: gofmt hook file",
               "6c34214 verif: scheduling-point hook in controller.distributeEvents (no-op without build tag verif; verif_yield_off.go)",
               "b02e7f8 verif: export the filtered-subscription constructor (build tag verif)"],
    "C01": {
        "text": "Lean theorems over the code-shaped cache model, for every filter, content, object universe and operation history: "
                "sync/refilter refine the per-key newest-accepted reference semantics (any list without a doubly-listed key), updates are "
                "version-aware upserts, every reachable state holds only accepted objects, versions never regress; the literal statement "
                "for lists with duplicate keys is proved FALSE on a witness (known finding). The model is tied to cache.go by running the "
                "real cache goroutine on generated operation sequences and comparing every List()/event batch with the model and the reference semantics.",
        "design_ref": "DESIGN.md §7 C01, §3.2",
        "note": "Trusted: Lean kernel (axioms propext, Quot.sound, Classical.choice), the hand-written model, the cachediff correspondence "
                "(sampled inputs; exhaustive only over the small universe), strconv.Atoi model. Crash-freedom is exhibited by the harness (process death = violation), not by a theorem.",
        "technique": "Lean 4 proof (induction over the doSync fold and over operation lists, refinement to a per-key spec) + differential correspondence against the real cache",
    },
    "C02": {
        "text": "Lean theorems: for every operation with arbitrary arguments (duplicates and malformed entries included) the emitted batch replays, "
                "in order, from the content before to the content after (Create on absent, Update strictly newer, Delete on present); an operation "
                "that leaves the content unchanged emits nothing; a consumer replaying all batches never diverges (induction over histories). "
                "Tie: the real cache's batches are replayed in the order emitted by the Lean spec on every generated operation.",
        "design_ref": "DESIGN.md §7 C02",
        "note": "Trusted as for C01. Publication of the batches by controller / filtered subscription is covered by the pipeline properties, not here.",
        "technique": "Lean 4 proof (replay invariant of the sync fold, per-key 'an event means a change' invariant) + differential correspondence",
    },
    "C17": {
        "text": "Lean theorem equals_sound: for all filter terms of any shape/depth (mutual structural induction over the nested term type) Equals/FiltersEqual "
                "reporting true implies identical Accept on every object and every FN environment; equals_refl for FN-free terms; workload filters are "
                "invariant under permutation of distinct-keyed sources (sort uniqueness). Tie: real constructors, Equals, FiltersEqual and Accept on the same term pairs over a separating object universe.",
        "design_ref": "DESIGN.md §7 C17",
        "note": "Trusted: Lean kernel, the filter model (reflect.DeepEqual and apimachinery selectors modelled), filterdiff correspondence and its Go-side oracle (equal => same Accept vector).",
        "technique": "Lean 4 proof (mutual structural induction) + differential correspondence over term pairs",
    },
    "C18": {
        "text": "Lean theorems: Accept of Null/All/Not/And/Or are the boolean connectives (empty And accepts, empty Or rejects); NSName accepts iff some entry matches "
                "with empty fields as wildcards; Labels = subset; LabelSelector = all matchLabels and matchExpressions hold (In/NotIn/Exists/DoesNotExist), independent of the requirement sort. "
                "Tie: every term's Accept vector over the object universe, evaluated twice, against the model.",
        "design_ref": "DESIGN.md §7 C18",
        "note": "Trusted: Lean kernel, the selector model of k8s.io/apimachinery/pkg/labels, filterdiff. NSName entries with both fields empty and invalid selectors are outside the contract.",
        "technique": "Lean 4 proof (equational theorems about the filter model) + differential correspondence",
    },
    "C19": {
        "text": "Lean theorems: the apps/batch PodsFilter and the service PodsFilter accept a pod iff some given namespaced workload of the pod's namespace selects its labels "
                "(selector, else template labels; selector-less services select nothing); ServicesFilter accepts exactly the named backends of same-namespace ingresses; node/involved/selector-match "
                "specs incl. rejection of other kinds. For replication controllers the full statement is proved FALSE on a witness (known finding) and the exact behaviour is characterised. "
                "Tie: real constructors on source sets over the selector universe, Accept vectors against model and reference predicate.",
        "design_ref": "DESIGN.md §7 C19",
        "note": "Trusted: Lean kernel, filter/workload model, filterdiff. Known finding C19-rc-pods-no-namespace is reported as KNOWN-FINDING, any other deviation as a violation.",
        "technique": "Lean 4 proof + differential correspondence against a reference ownership predicate",
    },
}
TEXTS.update({
    "_engines": [
        {"name": "tree", "path": "harness/conc/tree_test.go", "serves_properties": ["C05", "C06", "C07", "C08", "C10", "C11", "C16"],
         "kind_free_text": "behavioural conformance under testing/synctest: real controller + subscription/clone/filter/monitor trees vs the Lean tree model (kdriver tree), stepwise and burst regimes, stalled consumers"},
    ],
    "C06": {
        "text": "Lean theorems over the code-shaped filtered-subscription machine in an environment that is ANY well-formed parent delta stream, for every "
                "interleaving (label sequence) of parent events, parent-ready, Refilter (equal / new, before or after readiness, immediate or deferred) and "
                "consumption: the per-key cut invariant, convergence (queue drained => cache = last requested filter applied to the parent's content, at the "
                "parent's versions), the remembered filter is the applied one, the own event stream replays (well-formed delta), conjunction of nested filters. "
                "Tie: real trees under synctest, each ready filtered node compared with its filter applied to the observed parent cache at every quiescent point.",
        "design_ref": "DESIGN.md §7 C06",
        "note": "Trusted: Lean kernel; the FSub model (hand-written from subscription_filter.go) and the environment assumptions stated in FSubWorld.lean "
                "(parent List() is an atomic snapshot = C15, events arrive in order without loss = C05/no overflow, filter equality sound = C17); "
                "interleavings of the real goroutines are sampled, not enumerated.",
        "technique": "Lean 4 proof (inductive invariant over all label sequences of an interleaving transition system) + behavioural conformance at quiescence under testing/synctest",
    },
    "C07": {
        "text": "Lean theorems: at quiescence (ready, nothing in flight) Refilter with a new filter emits, per key, exactly one Delete for a cached object the "
                "new filter rejects, exactly one Create for a parent object newly accepted, nothing otherwise, and the cache becomes the new view; an equal "
                "filter emits and changes nothing (and equal filters accept the same objects); any Refilter sequence ends in the view of the last filter "
                "(round trip). Tie: exhaustive family of contents x filter pairs on the real code, events compared with the membership changes.",
        "design_ref": "DESIGN.md §7 C07",
        "note": "Trusted as for C06; the exact-delta theorem rests on the per-key event account of doSync (Proofs/Cache.lean: doSync_events_key).",
        "technique": "Lean 4 proof (per-key event characterisation of the sync fold) + exhaustive conformance over a filter family under testing/synctest",
    },
    "C08": {
        "text": "Lean theorems (invariants of the filtered-subscription machine over all label sequences): readych is closed at most once; nothing is on Events() "
                "and the cache is empty while not ready; the step that makes it ready leaves the cache exactly synced with the parent's content (all three paths, "
                "including ready-on-unchanged-filter without a sync, justified by the 'unready deferred holds nothing and rejects everything' invariant); ready "
                "implies parent readiness observed and, for deferred, a filter supplied; readiness is stable. Controller/plain-node readiness is carried by the "
                "tree model. Tie: gated first lists with random pre-ready orders of attach/Refilter/events on the real code.",
        "design_ref": "DESIGN.md §7 C08",
        "note": "Trusted as for C06. 'No event before Ready' is checked on what Events() had delivered at each quiescent observation, not at arbitrary instants.",
        "technique": "Lean 4 proof (inductive invariants) + behavioural conformance with gated readiness under testing/synctest",
    },
})
TEXTS.update({
    "C05": {
        "text": "Lean theorems over the small-step pipeline model (tree of bounded queues and publishers, any shape/depth, subscriptions attached at any moment), "
                "for every interleaving: per stage, taken + buffered = what the parent forwarded since attachment (while its buffer never overflowed); end to end, "
                "what reached a node is one contiguous window of the published sequence (no duplicate, gap or reordering; same relative order for all); late "
                "subscribers get exactly the suffix; and along a well-formed stream the cache is never older than a received upsert. Tie: real trees under synctest, "
                "every subscriber's drained sequence against the published one.",
        "design_ref": "DESIGN.md §7 C05",
        "note": "Trusted: Lean kernel; Pipe model (inch + non-blocking send collapsed into one offer; one forward step hands the event to all children: "
                "modelling assumptions stated in Pipe.lean); interleavings of the real goroutines are sampled.",
        "technique": "Lean 4 proof (inductive invariant of an interleaving transition system over arbitrary trees) + behavioural conformance under testing/synctest",
    },
    "C10": {
        "text": "Lean theorems on the pipeline model: a publisher's forward step is enabled iff its own buffer is non-empty (independent of its children); removing all "
                "reads of any consumer from any run leaves a run in which the published sequence and every other node are identical (non-interference, hence C05 "
                "for healthy subscribers); what a stalled consumer holds is an in-order subsequence of what was forwarded to it, and exactly the first cap events if it "
                "never read. Tie: stalled subscribers / filtered subscribers / blocking monitor handlers under streams several times EventBufsiz on the real code.",
        "design_ref": "DESIGN.md §7 C10",
        "note": "Trusted as for C05. Watcher/session buffers (watcher.go, watch_session.go) are exercised by the controller engine, not by these theorems.",
        "technique": "Lean 4 proof (non-interference by simulation, subsequence invariants) + behavioural conformance with stalled consumers under testing/synctest",
    },
    "C11": {
        "text": "Lean theorems on the lifecycle cascade (any tree, any set of Close calls at any moments, every schedule of the stop/finish rules): a component stops only if "
                "it or a component it is fed by was closed (never up or sideways; survivors untouched); in every terminal state everything under a closed component is done; "
                "every internal step decreases a measure bounded by twice the number of components. Tie: Done()/Events()-closed of every node of real trees after every "
                "close, against the closed-subtree prediction, with traffic continuing through the survivors.",
        "design_ref": "DESIGN.md §7 C11",
        "note": "Trusted: Lean kernel; the cascade rules (Life.lean) are read off the code by hand; per-component responsiveness (each loop returns to its select) is "
                "exhibited by the harness (synctest reports goroutines that never finish), not proved. 'Eventually' = next quiescent point in virtual time.",
        "technique": "Lean 4 proof (safety invariant, terminal-state completeness, termination measure) + behavioural conformance under testing/synctest",
    },
    "C16": {
        "text": "Lean theorems on the monitor machine for every label sequence (event sequences, readiness, Close at any moment): the callback log is empty or "
                "OnInitialize(L) followed by exactly one callback per received event of matching kind and object in order; OnInitialize at most once and first; no step is "
                "enabled after done; no callback at all if never ready; at most one callback per step. Tie: recorded callback logs of real monitors (blocking handlers, "
                "Close at every point) against the model.",
        "design_ref": "DESIGN.md §7 C16",
        "note": "Trusted: Lean kernel; Mon model; that callbacks run only in the monitor goroutine is checked at run time by an overlap counter in the harness handler.",
        "technique": "Lean 4 proof (shape invariant of the monitor state machine) + behavioural conformance under testing/synctest",
    },
})
TEXTS["_engines"].append({"name": "ctrl", "path": "harness/conc/ctrl_test.go", "serves_properties": ["C03", "C04", "C13", "C14"],
    "kind_free_text": "behavioural conformance under testing/synctest: the real controller against a fake API server with watch/list faults and virtual time (kdriver ctrl)"})
TEXTS.update({
    "C03": {
        "text": "Lean theorems over the controller world (server history, cache, watch pipeline positions; list snapshots may reflect ANY earlier history index, the "
                "watch may end, reconnect, lag, never deliver, or lose changes to a buffer overflow — label drop), for every reachable state: the per-key cut invariant; each list is applied exactly (newest of cached/listed, "
                "filter-checked, never regressing) and its events replay; a list of the server's current state makes the cache equal the accepted server state from ANY reachable "
                "state (convergence after one relist without any help from the watch); every cached object occurred in the history; a list result is always accepted while running.",
        "design_ref": "DESIGN.md §7 C03",
        "note": "Trusted: Lean kernel; Ctrl model and its environment assumptions (monotone resource versions, watch replays in order, snapshot lists); the real-time bound "
                "'one further relist' is exhibited in virtual time by the engine; buffer overflow is outside the position model (granted by the property as lost events, recovered by the relist theorem).",
        "technique": "Lean 4 proof (inductive invariant over all label sequences incl. slow lists, monotone-version argument) + behavioural conformance with fault injection under testing/synctest",
    },
    "C04": {
        "text": "Lean theorems on the controller world: pipeline positions stay ordered; a reconnect resumes at the watcher's resume point (nothing received is discarded, nothing later is "
                "skipped); watch-side steps never touch the cache; whenever every server change has been applied and none was lost to a buffer overflow since the last list the cache equals the accepted server state "
                "(continuity, no relist needed, for every fault schedule and slow list); only an overflow loses a change, and a reachable witness shows that a lost change is "
                "never recovered by the watch (overflow_breaks_continuity: C03's relist repairs it); while something is outstanding some pipeline step is enabled and each step decreases the lag measure.",
        "design_ref": "DESIGN.md §7 C04",
        "note": "Trusted as for C03. The bound 'within the reconnect delay' is exhibited in virtual time. Buffer overflows of the watch buffers are excluded (C10).",
        "technique": "Lean 4 proof (cut invariant + progress/variant on the watch pipeline) + behavioural conformance with reconnect faults under testing/synctest",
    },
    "C14": {
        "text": "Decision logic of the controller loop stated outright in Lean: a list failure of either kind at any point stops the controller with that cause, leaves Ready as it was and "
                "tears the watch down; once stopped nothing is applied any more (fail-stop) and a failed first list never makes it ready; no watch-side step changes the run state; "
                "a deliberate Close records no failure. Tie: every failure kind at the k-th list, and every watch failure, on the real controller with a subscriber attached.",
        "design_ref": "DESIGN.md §7 C14",
        "note": "Trusted: Lean kernel; the model's classification of list results (error / not a list of API objects) mirrors lister.executeList, listResourceVersion and extractList by hand.",
        "technique": "Lean 4 proof (decision-logic theorems on the controller model) + fault enumeration on the real controller under testing/synctest",
    },
})
TEXTS["_engines"].append({"name": "lister", "path": "harness/conc/lister_test.go", "serves_properties": ["C13"],
    "kind_free_text": "the real lister+ticker on a (period, latency, consumption delay) grid in virtual time; observed schedule replayed through the Lean ticker model (kdriver lister)"})
TEXTS.update({
    "C13": {
        "text": "Lean theorems on the ticker/lister timing machine for every period, fuzz window, list latency (slower than the period included), consumption delay and "
                "schedule: the ticker goroutine never blocks; a list starts only when none is running or pending; every list starts at least period-fuzz after the previous "
                "result was consumed; while waiting, once period+fuzz has passed a step towards the next list is always enabled; a pending result is always consumable. The code "
                "before the repair provably reaches the stuck state (finding D4, fixed). Tie: time-stamped runs of the real lister on a ratio grid replayed through the model.",
        "design_ref": "DESIGN.md §7 C13",
        "note": "Trusted: Lean kernel; the Tick model incl. its abstraction of Go timers; virtual time. 'Shuts down promptly' is exhibited by the engine (done 50ms of virtual time after the stop).",
        "technique": "Lean 4 proof (inductive invariant of a timed transition system) + replay of observed schedules through the executable model under testing/synctest",
    },
})
TEXTS["_engines"].append({"name": "lin", "path": "harness/cmd/kharness/lin.go", "serves_properties": ["C15"],
    "kind_free_text": "real concurrent readers against a writer on the real cache (also built with -race); histories checked for atomicity by kdriver lin"})
TEXTS.update({
    "C15": {
        "text": "Lean theorems on the cache-as-actor model for every number of callers and every interleaving of calls, processing instants and returns: the processed "
                "requests replayed sequentially give the state and exactly the computed results; every result received is the one computed at the request's processing "
                "instant; a request that had returned before another was issued is processed before it (linearizable with the processing instant as linearization point); "
                "List is a read of the whole state at one instant and writes are applied in one step. The history checker the driver runs (Lin.accepts) is proved to accept "
                "exactly the well-formed single-writer histories that have a linearization (lin_accepts_sound, lin_rejects_sound). "
                "Tie: that checker applied to real concurrent histories of the cache, plus the race detector.",
        "design_ref": "DESIGN.md §7 C15",
        "note": "Partial: data-race freedom is a property of the Go runtime execution, exhibited by the race detector on sampled schedules, not proved. Mapping a returned "
                "list to a state index and the Get() window test are unproved driver code.",
        "technique": "Lean 4 proof (invariant of the actor transition system: sequential replay + real-time order) + linearizability checking of real histories, race detector",
    },
})
TEXTS.update({
    "C12": {
        "text": "Lean theorems on the lifecycle cascade from EVERY state: the library's own steps can always be completed to a terminal state within pending(s) <= 2 x components "
                "steps, every run of them is that short, after a root Close the terminal state has every component done, ShutdownInitiated/Completed are enabled at most once "
                "per component, and a subscription attached while racing with shutdown is a child of its publisher (so it is shut down with it); the executable tree model the engine "
                "compares the implementation with marks closed exactly the components that are done in the cascade's terminal state, for every schedule "
                "(sys_close_is_cascade_terminal); on the request/response "
                "model of the API calls (select on ShuttingDown vs request channel, buffered result channel) no call is ever stuck — a blocked caller can always take one of its two "
                "branches, an accepted request always finds its result, a stopped component refuses every later call — and each call needs at most two steps of its own. "
                "Goroutine exit and (virtual) time bounds are exhibited on the real code: shutdown-point enumeration with racing API calls under synctest.",
        "design_ref": "DESIGN.md §7 C12",
        "note": "Partial: the theorems are about the cascade model (Life.lean); that every real goroutine reaches its select again (responsiveness) and exits is exhibited by "
                "testing/synctest's end-of-bubble check on sampled schedules, not proved.",
        "technique": "Lean 4 proof (termination variant + terminal-state completeness from every state) + shutdown-point enumeration on the real code under testing/synctest",
    },
})
TEXTS["_engines"].append({"name": "join", "path": "harness/conc/join_test.go", "serves_properties": ["C09"],
    "kind_free_text": "all generated joins and IngressPods over fake servers under testing/synctest; join cache vs the reference selection, close scope, goroutine residue (kdriver join)"})
TEXTS.update({
    "C09": {
        "text": "Lean theorems: once the source monitor has handled every source change, the filter last handed to Refilter was computed from the final source cache (for every "
                "timing of changes, handler calls and their cache reads); then, the clone having drained, the join's cache is exactly the destination objects the selection rule selects "
                "(C06 convergence), the rule being Kubernetes ownership (C19); the join is ready only after destination readiness and a supplied filter, filters being supplied only after "
                "the source is ready (C08, C16); its events are a well-formed delta; closing the result ends everything the join created and leaves source, destination and unrelated "
                "subscribers running (C11). Tie: all nine joins over fake servers, join cache vs reference selection at every quiescent point, close scope and goroutine residue.",
        "design_ref": "DESIGN.md §7 C09",
        "note": "Trusted as for C06/C11/C16/C19. Goroutine exit after closing the result is exhibited by the engine (stack inspection + synctest), not proved. The double join IngressPods is "
                "covered by composing the single-join theorems (services selected by ingresses, pods selected by those services) and by the engine.",
        "technique": "Lean 4 proof (composition of the FSub convergence, monitor and cascade theorems + a 'last refilter is current' invariant) + behavioural conformance of all joins under testing/synctest",
    },
})
TEXTS["_engines"].append({"name": "typed", "path": "harness/conc/typed_test.go", "serves_properties": ["C20"],
    "kind_free_text": "all twelve typed packages and the untyped controller/subscription/monitor side by side on a fake server serving mixed types, under testing/synctest (kdriver typed)"})
TEXTS["_engines"].append({"name": "rest", "path": "harness/cmd/kharness/rest.go", "serves_properties": ["C20"],
    "kind_free_text": "the twelve typed REST clients through a recording RoundTripper; requests vs the Lean request model (kdriver rest)"})
TEXTS["_engines"].append({"name": "kextract", "path": "harness/cmd/kextract", "serves_properties": ["C20"],
    "kind_free_text": "translator: regenerates lean/KcacheModel/Extracted/*.lean (token streams of templates and generated sources, generation rules) from /repo on every run"})
TEXTS.update({
    "C20": {
        "text": "Lean theorems: (a) for each of the 12 typed packages and 8 generated joins the generated file's token stream equals the template instantiated with the "
                "Makefile's parameters (kernel-evaluated equalities over streams regenerated from /repo on every run), and every generated file on disk is covered; "
                "(b) the typed layer is the untyped core mapped through the adapter: restriction is a homomorphism on events and callbacks, foreign objects are skipped without "
                "disturbing what follows, the typed monitor log is Initialize(restricted list) followed by the callbacks of the typed events, and replaying the typed events "
                "yields the typed view of the untyped cache (for all event sequences, given types do not share keys — with a counterexample when they do); "
                "(c) the REST request of every List/Watch call: path = API prefix [+ watch] [+ namespaces/ns] + resource, all namespaces iff ns is empty, the namespace is "
                "determined by the path, the query carries exactly the call's own options, requests are stateless; each package has its own resource. "
                "Tie: regenerated translator for (a); side-by-side typed/untyped runs and recorded HTTP requests compared with the model for (b), (c).",
        "design_ref": "DESIGN.md §7 C20",
        "note": "Source equality ignores import blocks and comments. "
                "The API table (which group/version serves which type) is hand-written and trusted.",
        "technique": "Lean 4 proof (kernel-evaluated equalities on regenerated token streams; adapter homomorphism and replay-restriction theorems; REST request algebra) "
                     "+ regenerated translator + behavioural conformance (typed vs untyped under testing/synctest, recorded REST requests)",
    },
})
NOT_BUILT = {}
