#!/usr/bin/env python3
"""writes MANIFEST.json from bin/props.py + the per-property texts below (kept in one place)"""
import json, os, sys
ROOT = os.path.dirname(os.path.dirname(os.path.abspath(__file__)))
sys.path.insert(0, os.path.join(ROOT, "bin"))
from props import PROPS
from manifest_texts import TEXTS, NOT_BUILT

ids = [json.loads(l)["id"] for l in open(os.path.join(ROOT, "properties.jsonl"))]
checks = []
for pid in ids:
    if pid not in PROPS or pid not in TEXTS:
        continue
    t = TEXTS[pid]
    checks.append({
        "property_id": pid,
        "quick_cmd": f"bin/check {pid} --tier quick",
        "thorough_cmd": f"bin/check {pid} --tier thorough",
        "evidence_file": f"/verif/evidence/{pid}.json",
        "replay_cmd_template": f"bin/check {pid} --replay {{path}}",
        "engine": ",".join(e["go"] for e in PROPS[pid]["engines"]),
        "level_claimed": {"category": PROPS[pid].get("level", "proof"), "text": t["text"], "design_ref": t["design_ref"]},
        "level_note": t["note"],
        "technique": t["technique"],
    })
na = [{"property_id": pid, "reason": NOT_BUILT.get(pid, "check not built yet in this round")}
      for pid in ids if pid not in [c["property_id"] for c in checks]]
manifest = {
    "version": 1,
    "setup_cmd": "bin/setup",
    "hooks": {
        "guard": "verif",
        "enable": "go build -tags verif (the harness module /verif/harness replaces github.com/boz/kcache => /repo)",
        "baseline_off_cmd": "cd /repo && GOFLAGS=-mod=mod GOPROXY=off GOSUMDB=off go test -vet=off -count=1 -timeout 25m ./...",
        "source_commits": TEXTS["_hooks"],
        "add_only": True,
    },
    "engines": [
        {"name": "filterdiff", "path": "harness/cmd/kharness/filterdiff.go", "serves_properties": ["C17", "C18", "C19"],
         "kind_free_text": "differential correspondence: real filter constructors/Accept/Equals vs the Lean model (kdriver filter)"},
        {"name": "cachediff", "path": "harness/cmd/kharness/cachediff.go", "serves_properties": ["C01", "C02"],
         "kind_free_text": "differential correspondence: the real cache goroutine vs the Lean model and reference semantics (kdriver cache)"},
    ] + TEXTS.get("_engines", []),
    "checks": checks,
    "not_applicable": na,
    "notes": "Machine-checked proof in Lean 4 (lean/KcacheModel/Props/Cxx.lean) about a hand-written executable model, tied to /repo on every run by differential/behavioural correspondence (harness/, kdriver). See DESIGN.md.",
}
json.dump(manifest, open(os.path.join(ROOT, "MANIFEST.json"), "w"), indent=1)
print("checks:", [c["property_id"] for c in checks], "not_applicable:", [n["property_id"] for n in na])
