"""Per-property configuration for bin/check: which engines serve a property, which protocol lines
count for it, how a driver answer is classified, what 'non-trivial' means for the evidence."""
import re

WORKLOAD_OPS = {"pods", "svcpods", "rcpods", "svcs", "node", "involved", "selmatch"}


def head(line):
    m = re.match(r"\((\S+)", line)
    return m.group(1) if m else ""


def root_op(line):
    m = re.match(r"\(acc \((\S+?)[\s)]", line)
    return m.group(1) if m else ""


def has_events(line):
    return "(create (obj" in line or "(update (obj" in line or "(delete (obj" in line


def acc_mixed(line):
    tail = line.rsplit("(", 1)[-1]
    return "true" in tail and "false" in tail


def eq_nontrivial(line):
    m = re.match(r"\((eq|eqperm) .* (true|false) U \(([^()]*)\) \(([^()]*)\)\)$", line)
    if not m:
        return False
    return m.group(2) == "true" or m.group(3) != m.group(4)


def cls_c17(inp, ans):
    # a model/implementation mismatch on Accept is a broken correspondence for C17, not a C17 failure
    return "diff" if ans.startswith("reject accept") else "reject"


def cls_c01(inp, ans):
    return "diff" if ans.startswith("reject events") else "reject"


def cls_c02(inp, ans):
    return "reject" if ans.startswith("reject events") else "diff"


FILTER_TB = [
    "filter model KcacheModel/Filter.lean + Workloads.lean written by hand; tied to filter/*.go, types/*/filter.go by "
    "the filterdiff correspondence (real constructors, Accept, Equals, FiltersEqual on the same terms and objects)",
    "modelled, not verified: k8s.io/apimachinery labels.Selector.Matches, LabelSelectorAsSelector, SelectorFromSet, "
    "reflect.DeepEqual on the filter structs, sort.Slice on distinct keys (all exercised through the real library in filterdiff)",
]
CACHE_TB = [
    "cache model KcacheModel/Cache.lean written by hand; tied to cache.go by the cachediff correspondence (the real "
    "cache goroutine driven through the verif export wrappers; lists, events and Get compared after every operation)",
    "modelled, not verified: strconv.Atoi (KcacheModel/Base.lean Atoi.atoi; the malformed-version stream of cachediff "
    "exercises it), Go map semantics as association lists",
]

TREE_ACTIONS = ("scenario", "instant", "srv", "start", "release", "relist", "attach", "refilter", "close", "closeroot", "cancel",
                "stall", "unstall", "burst-begin", "burst-end", "end")
FSUB_KINDS = ("subf", "subd", "clonef", "cloned")


def tree_cls(tags, kinds):
    """classify a tree-engine answer for one property: rejects carrying one of `tags` are violations of it;
    other rejects/diffs count as a broken correspondence only when they concern a node kind the property's
    theorems talk about; anything else is not this property's business"""
    def cls(inp, ans):
        m = re.match(r"(reject|diff) (\S+)", ans)
        tagset = set(m.group(2).split("/")) if m and m.group(1) == "reject" else set()
        if tagset & set(tags):
            return "reject"
        km = re.search(r"(root|subf|subd|clonef|cloned|clone|sub|mon|monitor) node", ans) or re.search(r"(monitor) \d", ans)
        kind = km.group(1) if km else ""
        kind = "mon" if kind == "monitor" else kind
        if kinds is None or kind in kinds or kind == "":
            return "diff"
        return "ignore"
    return cls


def tree_nontrivial(line):
    return line.startswith("(obs") and ("(create (obj" in line or "(update (obj" in line or "(delete (obj" in line) \
        or (line.startswith("(monobs") and "(obj" in line)


def tree_engine(mode, tags, kinds, nq, nt):
    return {"go": "tree", "bin": "kconc", "driver": "tree", "actions": TREE_ACTIONS,
            "args_quick": ["-mode", mode, "-n", str(nq)], "args_thorough": ["-mode", mode, "-n", str(nt)],
            "classify": tree_cls(tags, kinds), "nontrivial": tree_nontrivial, "resets": ["scenario"]}


CTRL_ACTIONS = ("scenario", "emptyrv", "stalelist", "overflow", "srv", "cstart", "advance", "inject", "watch-errors", "watch-block", "cancel-lag", "burst-begin", "burst-end",
                "settle", "closeroot", "cancel", "end")


def cache_older_cls(inp, ans):
    m = re.search(r"reject content: \w+: key \S+ holds \S+@(-?\d+), reference \S+@(-?\d+)", ans)
    if m and int(m.group(1)) < int(m.group(2)):
        return "reject"
    return "ignore"


def ctrl_cls(tags):
    def cls(inp, ans):
        m = re.match(r"(reject|diff) (\S+)", ans)
        if m and m.group(1) == "reject":
            return "reject" if set(m.group(2).split("/")) & set(tags) else "ignore"
        return "diff"
    return cls


def ctrl_nontrivial(line):
    return line.startswith("(cobs") and ("(create (obj" in line or "(update (obj" in line or "(delete (obj" in line or "(list " in line or "(watch " in line)


def ctrl_engine(mode, tags, nq, nt):
    args = (["-mode", mode] if mode else [])
    return {"go": "ctrl", "bin": "kconc", "driver": "ctrl", "actions": CTRL_ACTIONS,
            "args_quick": args + ["-n", str(nq)], "args_thorough": args + ["-n", str(nt)],
            "classify": ctrl_cls(tags), "nontrivial": ctrl_nontrivial, "resets": ["scenario"]}


CTRL_TB = [
    "controller model KcacheModel/Ctrl.lean (positions of server changes in the watch pipeline, list snapshots at arbitrary history "
    "indices) written by hand; tied to controller.go, watcher.go, watch_session.go, lister.go by the ctrl engine: the real controller "
    "runs in a testing/synctest bubble against a fake API server implementing the list/watch contract (watch from version v replays "
    "every later change in order), with injected faults and virtual time; at every quiescent point the cache must be the accepted "
    "server state at a history index that never goes backwards, the current one whenever a watch is connected or a list of the "
    "current state just completed; Watch resource versions, list timing, readiness, Done/Error are checked as well",
    "modelled, not verified: the API server contract, Go timers (virtual), boz/go-lifecycle, client-go watch.Interface",
]

TREE_TB = [
    "tree model KcacheModel/Sys.lean (built from the component models Cache, FSub, bounded queues) written by hand; tied to "
    "controller.go, publisher.go, subscription.go, subscription_filter.go, monitor.go by the tree engine: the real objects run in a "
    "testing/synctest bubble (go1.26.8) against a fake API server, every node's Ready/Done/Cache().List()/Events() is compared with "
    "the model at every quiescent point (stepwise), and after bursts on the schedule-independent observables",
    "modelled, not verified: Go channel/select semantics, boz/go-lifecycle, the Go scheduler (interleavings are sampled: "
    "synctest scheduling + virtual-time sleeps injected at the library's log calls), testing/synctest itself",
]

PROPS = {
    "C17": {
        "engines": [{"go": "filterdiff", "driver": "filter",
                     "select": lambda l: head(l) in ("eq", "eqperm", "inconsistent-equals", "nil-equals-wrong", "unstable-equals"),
                     "classify": cls_c17, "nontrivial": eq_nontrivial}],
        "rule": "filterdiff: every term of the universe (leaves, workload filters, random And/Or/Not compositions to depth 3) "
                "against itself built twice, all pairs of leaves (thorough: of all depth-1 terms), sampled pairs incl. near-misses, "
                "workload filters with permuted sources; each pair evaluated on the whole object universe. Non-trivial: Equals "
                "reported true, or the two Accept vectors differ. Distinct = distinct protocol line. Also: Equals asked again after both filters have been used (Accept) and against fresh builds of the same arguments; the nil-slice everything selector; the empty And()/Or() compared with every leaf.",
        "trusted_base": FILTER_TB,
        "assumptions": ["FN predicates are pure", "workload sources have distinct (namespace, name)"],
    },
    "C18": {
        "engines": [{"go": "filterdiff", "driver": "filter",
                     "select": lambda l: (head(l) == "acc" and root_op(l) not in WORKLOAD_OPS) or head(l) == "impure",
                     "nontrivial": acc_mixed}],
        "rule": "filterdiff acc lines whose root is a core combinator/leaf: the term's Accept on every object of the universe "
                "(3 ns x 3 names x label maps over 2 keys x 4 values, services, events, a secret), twice (purity). "
                "Non-trivial: the Accept vector contains both true and false. Distinct = distinct term.",
        "trusted_base": FILTER_TB,
        "assumptions": ["NSName entries with both fields empty are outside the contract", "label selectors are valid"],
    },
    "C19": {
        "engines": [{"go": "filterdiff", "driver": "filter",
                     "select": lambda l: head(l) == "acc" and root_op(l) in WORKLOAD_OPS,
                     "nontrivial": acc_mixed}],
        "rule": "filterdiff acc lines whose root is a workload-level constructor (5 apps/batch PodsFilters, service and RC "
                "PodsFilter, ingress ServicesFilter, NodeFilter, InvolvedFilter, SelectorMatchFilter) over sets of 0-3 sources "
                "in 3 namespaces and the selector universe; checked against the model AND the ownership reference predicate. "
                "Non-trivial: the Accept vector contains both true and false.",
        "trusted_base": FILTER_TB,
        "assumptions": ["sources are namespaced", "label selectors are valid"],
    },
    "C01": {
        "engines": [{"go": "cachediff", "driver": "cache", "classify": cls_c01, "nontrivial": has_events,
                     "resets": ["new"]}],
        "rule": "cachediff: (a) from (filter, content) states reached by short prefixes over the 2-key x 6-version x 2-label x "
                "5-filter universe, every single update (3 types x all objects) and sync/refilter with every list of <= 1 entry "
                "and sampled (thorough: all) lists of 2 entries incl. duplicates; (b) random walks of 60 ops over 5 keys x versions "
                "-2..50 + malformed/signed/overflowing strings x 3 label sets x 20 filters. After every op List() and the returned "
                "events are compared with the model and checked against the reference semantics. Non-trivial: the op emitted events.",
        "trusted_base": CACHE_TB,
        "assumptions": ["filters are pure functions of the object"],
    },
    "C02": {
        "engines": [{"go": "cachediff", "driver": "cache-events", "classify": cls_c02, "nontrivial": has_events,
                     "resets": ["new"]}],
        "rule": "same runs as C01; for every op the implementation's events are replayed IN THE ORDER EMITTED on the content "
                "before the op (Create on absent, Update strictly newer on present, Delete on present) and must yield the "
                "content after it; no event when nothing changed. Non-trivial: the op emitted events.",
        "trusted_base": CACHE_TB,
        "assumptions": ["filters are pure functions of the object"],
    },
    "C06": {
        "engines": [tree_engine("step,burst,burst", ("C06", "C02"), FSUB_KINDS, 1200, 20000),
                    # filtered nodes whose consumer does not read: their caches must go on following the parent
                    tree_engine("overflow,stall", ("C06",), FSUB_KINDS, 200, 3000)],
        "rule": "tree engine, modes step+burst: random trees (<= 9 nodes, depth <= 4) of all six constructors + monitors under a real "
                "controller; server creates/updates/deletes moving objects in and out of a 11-filter family, relists, Refilter sequences "
                "(back to earlier, equal-by-construction, FN) also inside bursts with events in flight, Close. At every quiescent point "
                "each ready filtered node's cache must equal its current filter applied to its parent's observed cache, and its drained "
                "events must replay from its previous content to its current one. Non-trivial: an observation that carried events. Also trees whose consumers do not read (their caches must go on following the parent), a filtered subscription on a home-made parent that never becomes ready, and List() read while a node is refiltered.",
        "trusted_base": TREE_TB,
        "assumptions": ["no event buffer overflows (<= EventBufsiz/4 events in flight)", "filters are pure"],
    },
    "C07": {
        "engines": [tree_engine("c07", ("C07",), FSUB_KINDS, 3136, 24000), tree_engine("step", ("C07",), FSUB_KINDS, 300, 6000),
                    tree_engine("burst", ("C07",), FSUB_KINDS, 500, 8000)],
        "rule": "tree engine mode c07: EXHAUSTIVE over 16 parent contents (subsets of 4 objects) x ordered pairs of the 11-filter family "
                "(equal by construction, overlapping, disjoint, Null, All, FN) (thorough: plus triples), for SubscribeWithFilter, "
                "CloneWithFilter(+subscriber) and SubscribeForFilter; each Refilter at quiescence; the drained events must be exactly one "
                "Delete per cached object the new filter rejects and one Create per parent object newly accepted. Plus random stepwise trees, "
                "and burst trees in which several Refilter calls (A->B->A ...) are issued back to back without quiescence: at the next quiescent "
                "point the node must hold the view of the LAST filter handed to Refilter.",
        "trusted_base": TREE_TB,
        "assumptions": ["no parent events in flight at the Refilter (stepwise regime)"],
    },
    "C08": {
        "engines": [tree_engine("step,step,burst", ("C08", "C06"), FSUB_KINDS + ("root", "sub", "clone", "mon"), 1200, 20000),
                    ctrl_engine("", ("C08",), 300, 6000),
                    # a join is ready only when its source and its destination are
                    {"go": "join", "bin": "kconc", "driver": "join",
                     "actions": ("scenario", "jstart", "jsrc", "jmid", "jdst", "jrelease", "burst-begin", "burst-end", "jclose", "end"),
                     "args_quick": ["-n", "240"], "args_thorough": ["-n", "6000"],
                     "classify": ctrl_cls(("C08",)), "resets": ["scenario"],
                     "nontrivial": lambda l: l.startswith("(jobs")}],
        "rule": "tree engine: half of the scenarios hold the first list (gate) and attach / Refilter(equal) / Refilter(new) / server "
                "changes before releasing it, in random orders, immediate and deferred variants at every depth; Events() is drained "
                "before Ready() is looked at; a node observed ready must already hold its filtered parent content; a deferred node "
                "without a supplied filter must not be ready. Non-trivial: an observation that carried events. Also: the first list completing in the instant in which further changes arrive (list answer frozen at that instant); a filtered subscription on a home-made parent that delivers events but never becomes ready (nothing cached, nothing published, Ready open); the join engine (a join is ready only when source and destination are).",
        "trusted_base": TREE_TB,
        "assumptions": ["observations are taken at quiescence; 'before Ready' is judged on what Events() delivered up to that point"],
    },
    "C05": {
        "engines": [tree_engine("step,burst,burst", ("C05",), ("sub", "clone", "root", "mon"), 1500, 25000),
                    tree_engine("overflow,stall", ("C05",), ("sub", "clone", "root", "mon"), 300, 5000),
                    ctrl_engine("", ("C05",), 500, 6000),
                    # "reading the cache never returns an older version": the cache engine's content oracle, restricted to
                    # the cases in which the cache holds an OLDER version than the reference
                    {"go": "cachediff", "driver": "cache", "classify": cache_older_cls, "nontrivial": has_events, "resets": ["new"], "ignore_known": True}],
        "rule": "tree engine, modes step+burst: random trees of Subscribe/Clone (and the filtered constructors and monitors) up to depth 4, "
                "server event streams with at most EventBufsiz/4 events in flight, subscriptions attached at arbitrary moments (also inside "
                "bursts), schedule perturbation by virtual-time sleeps at the library's log calls. Every plain subscriber's drained sequence "
                "must equal what the controller published since its attachment (per key in order, batches as multisets); the cache is read "
                "at every observation. Non-trivial: an observation that carried events. Also: a publisher whose logger blocks for 60-140 ms in the middle of a fan-out while somebody subscribes and more changes follow (a plain subscriber created inside a burst of server changes must end with exactly the events published after Subscribe returned); the controller's own publication point is perturbed through the scheduling-point hook (ctrl engine).",
        "trusted_base": TREE_TB,
        "assumptions": ["the subscriber keeps its backlog below EventBufsiz (harness drains at every quiescent point)"],
    },
    "C10": {
        "engines": [tree_engine("overflow,overflow,stall", ("C10", "C05"), None, 400, 6000)],
        "rule": "tree engine, modes overflow+stall: trees in which any subset of leaves (plain and filtered subscribers, monitors whose handler "
                "blocks) never reads; streams of 70-375 events (several times EventBufsiz) paced in floods of <= EventBufsiz/4; stalled nodes "
                "are later released or closed. Healthy subscribers must still receive everything and every cache must stay current at every "
                "quiescent point; a released consumer must hold exactly the first EventBufsiz events offered to it (in order). "
                "Non-trivial: an observation that carried events. Also: topup — a stalled filtered leaf is brought to within three slots of a full buffer, refiltered and released: the batch must be delivered as far as it fits.",
        "trusted_base": TREE_TB,
        "assumptions": ["events are paced so that only the stalled consumers' own buffers can overflow"],
    },
    "C11": {
        "engines": [tree_engine("step,burst,stall", ("C11",), None, 1500, 25000),
                    # consumers a whole buffer behind when their node (or an ancestor) is closed
                    tree_engine("overflow,stall", ("C11",), None, 300, 4000),
                    # the root itself: Close / cancel after watch and list faults must still take the controller (and its
                    # subscriber) down
                    ctrl_engine("", ("C11",), 300, 8000)],
        "rule": "tree engine: random trees mixing all six constructors and monitors up to depth 4; every kind of node gets closed (Close on a "
                "subscription, filtered subscription, clone, monitor; root Close or context cancel at the end), at quiescent points and inside "
                "bursts with events / Refilter / relists in flight, with stalled consumers present. After every action the Done() of every node "
                "and the closed-ness of every Events() channel are compared with the closed-subtree prediction, and traffic keeps flowing "
                "through the survivors. Non-trivial: an observation that carried events. Also trees with consumers a whole buffer behind when they are closed, and the controller engine: Close / cancel after watch and list faults must take the root and its subscriber down.",
        "trusted_base": TREE_TB,
        "assumptions": ["'eventually' = at the next quiescent point in virtual time"],
    },
    "C16": {
        "engines": [tree_engine("step,burst,stall", ("C16",), ("mon",), 1500, 25000),
                    # shutdown at every point of a workload, also at the instant of readiness: no callback after Done, none if
                    # the publisher never became ready, OnInitialize never with the result of a failed List
                    tree_engine("c12", ("C16",), ("mon",), 1400, 14000),
                    # monitors whose handler blocks while more than a buffer of events arrives
                    tree_engine("overflow,stall", ("C16",), ("mon",), 200, 3000),
                    {"go": "typed", "bin": "kconc", "driver": "typed", "actions": ("scenario", "tstart", "tsrv", "tfref", "end"),
                     "args_quick": ["-n", "96"], "args_thorough": ["-n", "2400"], "classify": ctrl_cls(("C16",)), "resets": ["scenario"],
                     "nontrivial": lambda l: l.startswith("(tobs") and ("(create (obj" in l or "(update (obj" in l or "(delete (obj" in l)}],
        "rule": "tree engine: monitors attached under every kind of publisher at arbitrary moments (before/after readiness, inside bursts), "
                "handlers that block (stalled) and are released later, Close at every point. The recorded callback log must be OnInitialize "
                "(with the publisher's cache at readiness) followed by one callback per event of the matching kind and object; nothing "
                "before OnInitialize, nothing when never ready, callbacks never overlap (the handler counts concurrent entries). "
                "Non-trivial: an observation that carried callbacks. Also: monitors whose handler blocks while more than a buffer of events arrives, a monitor attached right after a filter-delete, a monitor on a home-made publisher that never becomes ready although events wait in its subscription.",
        "trusted_base": TREE_TB,
        "assumptions": ["typed monitors: the twelve typed packages' monitors are compared with the untyped one on the same server (typed engine)"],
    },
    "C03": {
        "engines": [ctrl_engine("", ("C03", "C02"), 600, 30000)],
        "rule": "ctrl engine: random server histories over 4 objects x 4 label sets, controller-level filters from the 11-filter family, "
                "refresh periods {10s, 1m, 1h, 10000h}, list latencies {0, 100ms, period/4}, resource-version steps 1-3, and fault sequences "
                "{stream closed, close right after a burst, Watch() errors k times, Watch() blocks until cancelled, status / bookmark / "
                "non-object frames}; time advanced past the retry delay / the refresh period; final settle + one further relist. "
                "Non-trivial: an observation that carried events or list/watch calls.",
        "trusted_base": CTRL_TB,
        "assumptions": ["client List/Watch return once their context is cancelled", "server resource versions strictly increase",
                        "no watch buffer overflows (bursts of at most 8 events)"],
    },
    "C04": {
        "engines": [ctrl_engine("c04", ("C04", "C03"), 600, 30000)],
        "rule": "ctrl engine mode c04: refresh period 10000h (only the watch can deliver); faults injected at random positions of the "
                "history incl. close immediately after a burst with the watcher delayed by log-point perturbation; after the reconnect "
                "delay the cache must equal the server state; every Watch() must resume from a version the controller has received. "
                "Non-trivial: an observation that carried events or list/watch calls.",
        "trusted_base": CTRL_TB,
        "assumptions": ["as C03", "the changes one reconnect replays stay below EventBufsiz/4: overflow of the watch-side buffers (the code logs 'event missed') is a fault of the kind C03 covers, repaired by the next relist"],
    },
    "C14": {
        "engines": [ctrl_engine("c14", ("C14",), 500, 24000), ctrl_engine("", ("C14",), 300, 8000)],
        "rule": "ctrl engine mode c14: every failure kind {List error, nil, non-list object, *Status, list of non-objects} injected at "
                "the k-th list, k = 1..4, amid the watch faults of C03, with a subscriber attached: Done, Error() class, Ready (iff k > 1) "
                "and the subscriber's Done are checked; without an injected list failure the controller must keep running through every "
                "watch failure; a deliberately closed controller must report no failure. Also: list faults with empty / undecoded items, the canceled fault bare and wrapped two ways, ERROR frames that carry no Status.",
        "trusted_base": CTRL_TB,
        "assumptions": ["as C03"],
    },
    "C13": {
        "engines": [
            {"go": "lister", "bin": "kconc", "driver": "lister", "actions": ("scenario", "lcfg", "llist", "lconsume", "end"),
             "classify": ctrl_cls(("C13", "C12")), "nontrivial": lambda l: l.startswith("(lstop"), "resets": ["scenario"]},
            ctrl_engine("", ("C13",), 300, 12000),
        ],
        "rule": "lister engine: the real lister+ticker alone in virtual time on the grid period {100ms, 1s, 1m} x latency/period "
                "{0, .25, .5, .95, 1, 1.5, 3, 5} x consumption-delay/period {0, .1, .5, 1, 2} (quick: a third of it, thorough: all 120 points), "
                "stopped by channel or context at a random phase of the cycle after ~12 cycles; the time-stamped List calls and "
                "consumptions are replayed through the Lean ticker model (every label must be enabled: one list at a time, next list "
                "within [period-fuzz, period+fuzz] of the consumption, relisting up to the stop) and the lister must be done 50ms "
                "after the stop. Plus the ctrl engine's list timing checks. Non-trivial: every grid point. Also: listers stopped at the very instant a List call starts and before they start at all; the controller built with its options in any order.",
        "trusted_base": CTRL_TB + ["ticker model KcacheModel/Tick.lean written by hand from ticker.go / lister.go; Go timer semantics modelled (armed / fired-unread / idle)"],
        "assumptions": ["client List returns once its context is cancelled", "virtual time (testing/synctest); the 1.23+ timer semantics of the newer toolchain"],
    },
    "C15": {
        "engines": [
            {"go": "lin", "driver": "lin", "actions": ("scenario", "w", "r", "g"), "nontrivial": lambda l: l.startswith("(lin-end"),
             "classify": ctrl_cls(("C15",)), "resets": ["scenario"]},
            {"go": "lin", "bin": "kharness_race", "driver": "lin", "actions": ("scenario", "w", "r", "g"),
             "nontrivial": lambda l: l.startswith("(lin-end"), "classify": ctrl_cls(("C15",)), "resets": ["scenario"]},
            {"go": "cachediff", "driver": "cache-events", "classify": lambda i, a: "reject" if a.startswith("reject get") else "ignore",
             "nontrivial": has_events, "resets": ["new"]},
            # the caches of filtered nodes are read while the node is refiltered: never a half-applied Refilter
            tree_engine("c15", ("C15",), (), 400, 6000),
        ],
        "rule": "lin engine: one writer moves the real cache through distinguishable complete states (every object of state k carries version k; "
                "k%3+2 objects) by sync/refilter, 1-6 (thorough 1-12) reader goroutines call List()/Get() concurrently and scribble over "
                "the returned slices; calls and returns are stamped by one atomic counter; 6 (thorough 40) rounds of 300-600 writes, once built "
                "normally and once with the race detector. Each history is checked for atomicity: every List() is one complete state, inside its "
                "real-time window, no new-old inversion; every Get() is the key's version in a state of its window. Non-trivial: every round. Also: two rounds over 260+ objects (one under a filter that takes its time, Gets on the keys being written); Gets and Lists are ordered together in real time (a read called after another returned must not need an older state: C15.backwardsPair_rejects_sound); rounds with a reader that comes back rarely while a relist is held up for 900 ms.",
        "trusted_base": [
            "actor model KcacheModel/Actor.lean written by hand from cache.go (request channels, one goroutine, buffered result channel)",
            "the history judgement is KC.Lin.accepts (KcacheModel/Lin.lean), proved sound and complete w.r.t. linearizability of single-writer histories "
            "(C15.lin_accepts_sound, C15.lin_rejects_sound); unproved driver code around it: mapping a returned list to the index of a complete state "
            "(classifyRead) and the per-key window test for Get()",
            "the Go race detector and scheduler: interleavings are sampled; absence of data races is a runtime fact supported by the detector only",
        ],
        "assumptions": ["a single writer (the controller / filtered-subscription goroutine is the only writer of its cache)"],
    },
    "C12": {
        "engines": [tree_engine("c12", ("C12",), None, 1400, 14000), ctrl_engine("", ("C12",), 400, 12000),
                    tree_engine("step,burst,stall,overflow", ("C12",), None, 600, 8000),
                    {"go": "lister", "bin": "kconc", "driver": "lister", "actions": ("scenario", "lcfg", "llist", "lconsume", "end"),
                     "classify": ctrl_cls(("C12",)), "nontrivial": lambda l: l.startswith("(lstop"), "resets": ["scenario"]}],
        "rule": "tree engine mode c12: shutdown-point enumeration — a workload (attach / events / Refilter / relist / bursts) shared by 14 "
                "consecutive scenarios, the trigger {Close, 4 concurrent Close, context cancel} fired after step 0..13, every API call "
                "{Subscribe*, Clone*, Refilter, Cache().List/Get, Close} of every node issued concurrently with the trigger and again after "
                "it; at quiescence every call must have returned (ErrNotRunning or a value), every object obtained while racing must be "
                "done, every node done; testing/synctest fails the run if any goroutine of the bubble never finishes (leak / zombie / hang). "
                "ctrl engine: Close/cancel after watch and list faults (mid-reconnect, blocked Watch, slow list). Non-trivial: observations with events. Also: a node closed on its own with changes in flight at the instant of the trigger.",
        "trusted_base": TREE_TB + CTRL_TB + ["API-call model KcacheModel/Api.lean written by hand from the select/request/result pattern of publisher.go, cache.go, subscription_filter.go; tied by the c12 mode's racing API probes (every call must have returned at the quiescent point)"],
        "assumptions": ["client List/Watch return once their context is cancelled", "bounds are in virtual time"],
    },
    "C09": {
        "engines": [{"go": "join", "bin": "kconc", "driver": "join",
                     "actions": ("scenario", "jstart", "jsrc", "jmid", "jdst", "jrelease", "burst-begin", "burst-end", "jclose", "end"),
                     "args_quick": ["-n", "630"], "args_thorough": ["-n", "16000"],
                     "classify": ctrl_cls(("C09",)), "resets": ["scenario"],
                     "nontrivial": lambda l: l.startswith("(jobs") and "(obj" in l}],
        "rule": "join engine: all eight generated joins and IngressPods (round robin) over two / three fake API servers; source objects with "
                "selectors from the universe {absent, empty, one/two labels, Exists, In, NotIn} that appear, change selector and disappear, "
                "destination objects in two namespaces with overlapping labels, changes on all sides singly and in bursts, optionally a gated "
                "source list; at every quiescent point the join's cache must be the destination objects selected by the current sources "
                "(reference: the model's filter constructors), readiness only after both sides, events a well-formed delta; then the result "
                "is closed: it must be done, the bases must keep following their servers, and no monitor / filtered-clone / join goroutine may remain. "
                "Non-trivial: an observation with a non-empty join or destination cache. Also: filter functions that take their time (the ...With constructors), sources flipping A->B->A, destination changes in the instant a held list completes.",
        "trusted_base": TREE_TB + ["the join is modelled as: deferred filtered clone (FSub) + source monitor issuing Refilter(filterFn(source cache)) (JS machine in Props/C09.lean)"],
        "assumptions": ["sources are namespaced; the replication-controller join follows the (namespace-less) RC PodsFilter as is (known finding C19)"],
    },
    "C20": {
        "witness": "genmismatch",
        "engines": [
            {"go": "rest", "driver": "rest", "classify": ctrl_cls(("C20",)), "nontrivial": lambda l: l.startswith("(rest "), "resets": []},
            {"go": "typed", "bin": "kconc", "driver": "typed", "actions": ("scenario", "tstart", "tsrv", "tfref", "end"),
             "args_quick": ["-n", "120"], "args_thorough": ["-n", "7200"],
             "classify": ctrl_cls(("C20",)), "resets": ["scenario"],
             "nontrivial": lambda l: l.startswith("(tobs") and ("(create (obj" in l or "(update (obj" in l or "(delete (obj" in l)},
        ],
        "rule": "(a) kextract regenerates Extracted/Gen.lean from /repo on every run: the token streams (imports and comments dropped) of "
                "types/gen/template.go, the twelve types/*/generated.go, the join template literal of join/gen/main.go and the eight "
                "join/generated_*.go, with the instantiation parameters read from the Makefile's generate rules; the 20 equalities "
                "`instantiate… template = generated` are kernel-checked (decide +kernel) together with 'every generated file on disk has a rule'. "
                "(b) typed engine: each of the twelve typed packages (round robin) and the untyped core run side by side (controller, "
                "subscription, monitor, an unread subscription each) against one fake server whose lists and watch streams mix the package's type "
                "with two foreign types; at every quiescent point Ready, Done, cache, drained events and monitor callbacks of the typed side must "
                "equal the untyped ones restricted to the type; every fourth scenario publishes more than EventBufsiz own-type events to the unread "
                "pair, which must keep and lose the same events and close together. (c) rest engine: all twelve typed clients x namespaces {'', a, kube-system, default, x-1} issue random List/Watch "
                "call sequences through a recording http.RoundTripper; method, path and query of every request must equal the Lean request model. "
                "Non-trivial: typed observations with events; every rest line.",
        "trusted_base": TREE_TB + [
            "kextract (harness/cmd/kextract: go/scanner tokenisation, dropping import declarations, comments and the template's `type ObjectType generic.Type`; Makefile rule parsing)",
            "import blocks of generated files are not compared (goimports rewrites them); a wrong import cannot compile unnoticed",
            "typed model KcacheModel/Typed.lean (adapter = type assertion; list/events/callbacks mapped through it) written by hand from types/gen/template.go; "
            "the per-package adapters of the typed engine (harness/conc/typed_sides_test.go) are textual instances of one adapter",
            "REST model and API table (KcacheModel/Typed.lean: apiTable) written by hand from client/client.go, types/*/client.go and the Kubernetes API group of each type; "
            "client-go's rest.Request path/query construction is exercised for real, the HTTP transport is a recorder",
        ],
        "assumptions": ["objects of different types do not share a namespace/name key within one controller (typed_replay's KindStable hypothesis; "
                        "typed_replay_needs_kind_stable shows what happens otherwise)"],
    },
}
