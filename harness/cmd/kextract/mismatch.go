package main

import (
	"encoding/json"
	"fmt"
	"go/scanner"
	"go/token"
	"os"
	"path/filepath"
	"sort"
	"strings"
)

// mismatch search (the search for a concrete failing input behind C20's source-level equalities): instantiates
// the templates the way the Lean functions do and reports, per generated file, the first place where the file
// departs from its template — file, line, the tokens found and the tokens expected.

type ptok struct {
	s    string
	line int
}

func scanPos(src []byte) []ptok {
	fset := token.NewFileSet()
	f := fset.AddFile("", fset.Base(), len(src))
	var s scanner.Scanner
	s.Init(f, src, nil, 0)
	var raw []tok
	var lines []int
	for {
		p, t, lit := s.Scan()
		if t == token.EOF {
			break
		}
		raw = append(raw, tok{t, lit})
		lines = append(lines, fset.Position(p).Line)
	}
	// same filter as dropDecls, keeping positions: mark tokens by identity
	kept := dropDeclsIdx(raw)
	out := make([]ptok, 0, len(kept))
	for _, i := range kept {
		out = append(out, ptok{raw[i].String(), lines[i]})
	}
	return out
}

// dropDeclsIdx: indices kept by dropDecls(ts, false)
func dropDeclsIdx(ts []tok) []int {
	var out []int
	for i := 0; i < len(ts); i++ {
		if ts[i].t == token.IMPORT {
			j := i + 1
			if j < len(ts) && ts[j].t == token.LPAREN {
				for j < len(ts) && ts[j].t != token.RPAREN {
					j++
				}
			} else {
				for j < len(ts) && ts[j].t != token.SEMICOLON {
					j++
				}
				j--
			}
			i = j + 1
			if i < len(ts) && ts[i].t == token.SEMICOLON {
				continue
			}
			i--
			continue
		}
		out = append(out, i)
	}
	return out
}

type mismatchRec struct {
	File     string   `json:"file"`
	Line     int      `json:"line"`
	Index    int      `json:"token_index"`
	Found    []string `json:"found"`
	Expected []string `json:"expected"`
}

func firstDiff(file string, want []string, got []ptok) *mismatchRec {
	n := len(want)
	if len(got) < n {
		n = len(got)
	}
	i := 0
	for i < n && want[i] == got[i].s {
		i++
	}
	if i == len(want) && i == len(got) {
		return nil
	}
	ctx := func(xs []string, i int) []string {
		lo, hi := i-4, i+8
		if lo < 0 {
			lo = 0
		}
		if hi > len(xs) {
			hi = len(xs)
		}
		return xs[lo:hi]
	}
	gs := make([]string, len(got))
	for k, g := range got {
		gs[k] = g.s
	}
	line := 0
	if i < len(got) {
		line = got[i].line
	} else if len(got) > 0 {
		line = got[len(got)-1].line
	}
	return &mismatchRec{File: file, Line: line, Index: i, Found: ctx(gs, i), Expected: ctx(want, i)}
}

func mismatches(repo string) ([]mismatchRec, error) {
	var out []mismatchRec
	tsrc, err := os.ReadFile(filepath.Join(repo, "types/gen/template.go"))
	if err != nil {
		return nil, err
	}
	ttoks := tokStrings(dropDecls(scan(tsrc), true))
	typed, err := typedDefs(repo)
	if err != nil {
		return nil, err
	}
	pkgs := make([]string, 0, len(typed))
	for p := range typed {
		pkgs = append(pkgs, p)
	}
	sort.Strings(pkgs)
	tyOf := func(s string) []string {
		var r []string
		for _, t := range scan([]byte(s)) {
			if t.t != token.SEMICOLON {
				r = append(r, t.String())
			}
		}
		return r
	}
	for _, p := range pkgs {
		var want []string
		for i, t := range ttoks {
			switch {
			case i == 1:
				want = append(want, p)
			case i > 1 && t == "ObjectType":
				want = append(want, tyOf(typed[p])...)
			default:
				want = append(want, t)
			}
		}
		rel := filepath.Join("types", p, "generated.go")
		gsrc, err := os.ReadFile(filepath.Join(repo, rel))
		if err != nil {
			return nil, err
		}
		if m := firstDiff(rel, want, scanPos(gsrc)); m != nil {
			out = append(out, *m)
		}
	}
	text, err := joinTemplateText(repo)
	if err != nil {
		return nil, err
	}
	defs, err := joinDefs(repo)
	if err != nil {
		return nil, err
	}
	fields := []string{"SrcName", "SrcPkg", "SrcType", "DstName", "DstPkg"}
	for _, d := range defs {
		params := []string{d[0], d[1], d[2], d[3], d[4]}
		inst := text
		for fi, f := range fields {
			inst = strings.ReplaceAll(inst, "{{."+f+"}}", params[fi])
		}
		want := tokStrings(dropDecls(scan([]byte(inst)), false))
		rel := filepath.Join("join", d[5])
		gsrc, err := os.ReadFile(filepath.Join(repo, rel))
		if err != nil {
			return nil, err
		}
		if m := firstDiff(rel, want, scanPos(gsrc)); m != nil {
			out = append(out, *m)
		}
	}
	return out, nil
}

func writeMismatchReport(repo, path string) error {
	ms, err := mismatches(repo)
	if err != nil {
		return err
	}
	if ms == nil {
		ms = []mismatchRec{}
	}
	b, _ := json.MarshalIndent(ms, "", " ")
	if err := os.WriteFile(path, b, 0o644); err != nil {
		return fmt.Errorf("writing %s: %w", path, err)
	}
	return nil
}
