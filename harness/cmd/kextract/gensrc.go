package main

import (
	"fmt"
	"go/ast"
	"go/parser"
	"go/scanner"
	"go/token"
	"os"
	"path/filepath"
	"regexp"
	"sort"
	"strconv"
	"strings"
)

// gensrc: token streams of the typed template and of the twelve generated packages (imports and comments
// dropped, tokens interned to numbers), and of the join template and the eight generated joins (as strings,
// placeholders turned into marker identifiers). The Lean side instantiates the templates and proves the
// results equal to the generated streams.

type tok struct {
	t   token.Token
	lit string
}

func (t tok) String() string {
	if t.lit != "" && t.t != token.SEMICOLON {
		return t.lit
	}
	return t.t.String()
}

func scan(src []byte) []tok {
	fset := token.NewFileSet()
	f := fset.AddFile("", fset.Base(), len(src))
	var s scanner.Scanner
	s.Init(f, src, nil, 0)
	var out []tok
	for {
		_, t, lit := s.Scan()
		if t == token.EOF {
			break
		}
		out = append(out, tok{t, lit})
	}
	return out
}

// dropImports removes every import declaration (and, for the template, the generic type declaration).
func dropDecls(ts []tok, dropGeneric bool) []tok {
	var out []tok
	for i := 0; i < len(ts); i++ {
		if ts[i].t == token.IMPORT {
			j := i + 1
			if j < len(ts) && ts[j].t == token.LPAREN {
				for j < len(ts) && ts[j].t != token.RPAREN {
					j++
				}
			} else {
				for j < len(ts) && ts[j].t != token.SEMICOLON {
					j++
				}
				j--
			}
			// skip the closing token and its semicolon
			i = j + 1
			if i < len(ts) && ts[i].t == token.SEMICOLON {
				continue
			}
			i--
			continue
		}
		if dropGeneric && ts[i].t == token.TYPE && i+4 < len(ts) && ts[i+1].lit == "ObjectType" && ts[i+2].lit == "generic" {
			// type ObjectType generic.Type ;
			i += 5
			continue
		}
		out = append(out, ts[i])
	}
	return out
}

// the `generate-types` rules of the Makefile: package -> ObjectType
func typedDefs(repo string) (map[string]string, error) {
	mk, err := os.ReadFile(filepath.Join(repo, "Makefile"))
	if err != nil {
		return nil, err
	}
	re := regexp.MustCompile(`(?m)^\s*\S*genny\S*\s+-in=\S*types/gen/template\.go\s+-out=\S*types/(\w+)/generated\.go\s+-pkg=(\w+)\s+gen\s+['"]ObjectType=([^'"]+)['"]`)
	out := map[string]string{}
	for _, m := range re.FindAllStringSubmatch(string(mk), -1) {
		if m[1] != m[2] {
			return nil, fmt.Errorf("generate-types rule for %s names package %s", m[1], m[2])
		}
		out[m[1]] = m[3]
	}
	if len(out) == 0 {
		return nil, fmt.Errorf("no generate-types rules found in the Makefile")
	}
	return out, nil
}

type interner struct {
	ids   map[string]int
	names []string
}

func (in *interner) id(s string) int {
	if v, ok := in.ids[s]; ok {
		return v
	}
	in.ids[s] = len(in.names)
	in.names = append(in.names, s)
	return in.ids[s]
}

func natList(xs []int) string {
	parts := make([]string, len(xs))
	for i, x := range xs {
		parts[i] = strconv.Itoa(x)
	}
	// break into lines so that the Lean file stays readable
	var b strings.Builder
	b.WriteString("[")
	for i, p := range parts {
		if i > 0 {
			b.WriteString(",")
			if i%40 == 0 {
				b.WriteString("\n  ")
			}
		}
		b.WriteString(p)
	}
	b.WriteString("]")
	return b.String()
}

func leanStr(s string) string {
	return strconv.Quote(s)
}

func strList(xs []string) string {
	var b strings.Builder
	b.WriteString("[")
	for i, p := range xs {
		if i > 0 {
			b.WriteString(",")
			if i%12 == 0 {
				b.WriteString("\n  ")
			}
		}
		b.WriteString(leanStr(p))
	}
	b.WriteString("]")
	return b.String()
}

var markerRe = regexp.MustCompile(`\{\{\.(\w+)\}\}`)

func joinTemplateText(repo string) (string, error) {
	fset := token.NewFileSet()
	f, err := parser.ParseFile(fset, filepath.Join(repo, "join/gen/main.go"), nil, 0)
	if err != nil {
		return "", err
	}
	var text string
	ast.Inspect(f, func(n ast.Node) bool {
		if vs, ok := n.(*ast.ValueSpec); ok && len(vs.Names) == 1 && vs.Names[0].Name == "joinTemplate" {
			ast.Inspect(vs, func(m ast.Node) bool {
				if bl, ok := m.(*ast.BasicLit); ok && bl.Kind == token.STRING && strings.Contains(bl.Value, "package join") {
					text, _ = strconv.Unquote(bl.Value)
				}
				return true
			})
		}
		return true
	})
	if text == "" {
		return "", fmt.Errorf("join template literal not found")
	}
	return text, nil
}

// the arguments of the `generate-joins` rules of the Makefile
func joinDefs(repo string) ([][6]string, error) {
	mk, err := os.ReadFile(filepath.Join(repo, "Makefile"))
	if err != nil {
		return nil, err
	}
	re := regexp.MustCompile(`(?m)^\s*\S*join/gen/gen\s+(\S+)\s+(\S+)\s+['"]([^'"]+)['"]\s+(\S+)\s+(\S+)\s*>\s*\S*join/(generated_\w+\.go)`)
	var out [][6]string
	for _, m := range re.FindAllStringSubmatch(string(mk), -1) {
		out = append(out, [6]string{m[1], m[2], m[3], m[4], m[5], m[6]})
	}
	if len(out) == 0 {
		return nil, fmt.Errorf("no generate-joins rules found in the Makefile")
	}
	return out, nil
}

func tokStrings(ts []tok) []string {
	out := make([]string, len(ts))
	for i, t := range ts {
		out[i] = t.String()
	}
	return out
}

func gensrc(repo string) (string, error) {
	var b strings.Builder
	b.WriteString("/- GENERATED by harness/cmd/kextract from /repo's working tree — do not edit. -/\nnamespace KC.Extracted.Gen\n\n")
	tsrc, err := os.ReadFile(filepath.Join(repo, "types/gen/template.go"))
	if err != nil {
		return "", err
	}
	in := &interner{ids: map[string]int{}}
	ttoks := dropDecls(scan(tsrc), true)
	tids := make([]int, len(ttoks))
	for i, t := range ttoks {
		tids[i] = in.id(t.String())
	}
	fmt.Fprintf(&b, "def objectTypeTok : Nat := %d\n", in.id("ObjectType"))
	fmt.Fprintf(&b, "def templateToks : List Nat := %s\n\n", natList(tids))
	typedPkgs, err := typedDefs(repo)
	if err != nil {
		return "", err
	}
	pkgs := make([]string, 0, len(typedPkgs))
	for p := range typedPkgs {
		pkgs = append(pkgs, p)
	}
	sort.Strings(pkgs)
	for _, p := range pkgs {
		gsrc, err := os.ReadFile(filepath.Join(repo, "types", p, "generated.go"))
		if err != nil {
			return "", err
		}
		gt := dropDecls(scan(gsrc), false)
		gids := make([]int, len(gt))
		for i, t := range gt {
			gids[i] = in.id(t.String())
		}
		tyToks := scan([]byte(typedPkgs[p]))
		var tyIDs []int
		for _, t := range tyToks {
			if t.t == token.SEMICOLON {
				continue
			}
			tyIDs = append(tyIDs, in.id(t.String()))
		}
		fmt.Fprintf(&b, "def pkgTok_%s : Nat := %d\ndef ty_%s : List Nat := %s\ndef gen_%s : List Nat := %s\n\n", p, in.id(p), p, natList(tyIDs), p, natList(gids))
	}
	fmt.Fprintf(&b, "def tokNames : List String := %s\n\n", strList(in.names))

	// joins: the token streams rendered as bytes (tokens separated by a newline); a placeholder of the
	// template becomes the code 256 + its index, to be expanded by the Lean side
	text, err := joinTemplateText(repo)
	if err != nil {
		return "", err
	}
	fields := []string{"SrcName", "SrcPkg", "SrcType", "DstName", "DstPkg"}
	marked := markerRe.ReplaceAllString(text, "ZZ${1}ZZ")
	jt := strings.Join(tokStrings(dropDecls(scan([]byte(marked)), false)), "\n")
	var tcodes []int
	for i := 0; i < len(jt); {
		matched := false
		for fi, f := range fields {
			m := "ZZ" + f + "ZZ"
			if strings.HasPrefix(jt[i:], m) {
				tcodes = append(tcodes, 256+fi)
				i += len(m)
				matched = true
				break
			}
		}
		if !matched {
			tcodes = append(tcodes, int(jt[i]))
			i++
		}
	}
	fmt.Fprintf(&b, "def joinTemplateCodes : List Nat := %s\n\n", natList(tcodes))
	bytesOf := func(s string) []int {
		out := make([]int, len(s))
		for i := 0; i < len(s); i++ {
			out[i] = int(s[i])
		}
		return out
	}
	defs, err := joinDefs(repo)
	if err != nil {
		return "", err
	}
	var names []string
	for _, d := range defs {
		gsrc, err := os.ReadFile(filepath.Join(repo, "join", d[5]))
		if err != nil {
			return "", err
		}
		name := strings.TrimSuffix(strings.TrimPrefix(d[5], "generated_"), ".go")
		names = append(names, name)
		var tyS []string
		for _, t := range scan([]byte(d[2])) {
			if t.t != token.SEMICOLON {
				tyS = append(tyS, t.String())
			}
		}
		// parameters in the order of `fields`
		params := []string{d[0], d[1], strings.Join(tyS, "\n"), d[3], d[4]}
		var ps []string
		for _, pv := range params {
			ps = append(ps, natList(bytesOf(pv)))
		}
		fmt.Fprintf(&b, "def joinParams_%s : List (List Nat) := [%s]\n", name, strings.Join(ps, ", "))
		fmt.Fprintf(&b, "def joinGen_%s : List Nat := %s\n\n", name, natList(bytesOf(strings.Join(tokStrings(dropDecls(scan(gsrc), false)), "\n"))))
	}
	fmt.Fprintf(&b, "def typedPackages : List String := %s\n", strList(pkgs))
	fmt.Fprintf(&b, "def joinNames : List String := %s\n", strList(names))
	// what is actually on disk
	var dirs, jfiles []string
	gl, _ := filepath.Glob(filepath.Join(repo, "types", "*", "generated.go"))
	for _, g := range gl {
		dirs = append(dirs, filepath.Base(filepath.Dir(g)))
	}
	sort.Strings(dirs)
	gl, _ = filepath.Glob(filepath.Join(repo, "join", "generated_*.go"))
	for _, g := range gl {
		jfiles = append(jfiles, strings.TrimSuffix(strings.TrimPrefix(filepath.Base(g), "generated_"), ".go"))
	}
	sort.Strings(jfiles)
	sortedNames := append([]string(nil), names...)
	sort.Strings(sortedNames)
	fmt.Fprintf(&b, "def typedDirs : List String := %s\n", strList(dirs))
	fmt.Fprintf(&b, "def joinNamesSorted : List String := %s\n", strList(sortedNames))
	fmt.Fprintf(&b, "def joinFiles : List String := %s\n", strList(jfiles))
	b.WriteString("\nend KC.Extracted.Gen\n")
	return b.String(), nil
}
