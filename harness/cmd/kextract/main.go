// kextract: regenerates the parts of the Lean model that are read off /repo's source.
package main

import (
	"flag"
	"fmt"
	"os"
	"path/filepath"
)

func main() {
	repo := flag.String("repo", "/repo", "repository root")
	outdir := flag.String("outdir", "", "directory for the generated Lean files (KcacheModel/Extracted)")
	report := flag.String("report", "", "write the source-level mismatches between generated files and instantiated templates here (JSON)")
	flag.Parse()
	if *report != "" {
		if err := writeMismatchReport(*repo, *report); err != nil {
			fmt.Fprintln(os.Stderr, "report:", err)
			os.Exit(1)
		}
		if *outdir == "" {
			return
		}
	}
	write := func(name, content string) {
		p := filepath.Join(*outdir, name)
		old, _ := os.ReadFile(p)
		if string(old) == content {
			return // keep the timestamp: nothing to rebuild
		}
		if err := os.WriteFile(p, []byte(content), 0o644); err != nil {
			fmt.Fprintln(os.Stderr, err)
			os.Exit(2)
		}
	}
	// the two parts are independent: a failure of one must not take the other down (bin/check attributes a
	// failed part to the properties that depend on it)
	failed := 0
	if gen, err := gensrc(*repo); err != nil {
		fmt.Fprintln(os.Stderr, "kextract part gensrc failed:", err)
		failed |= 1
	} else {
		write("Gen.lean", gen)
	}
	if facts, err := extractFacts(*repo); err != nil {
		fmt.Fprintln(os.Stderr, "kextract part facts failed:", err)
		failed |= 2
	} else {
		write("Facts.lean", facts)
	}
	if failed != 0 {
		os.Exit(10 + failed)
	}
}
