// kextract: regenerates the parts of the Lean model that are read off /repo's source.
package main

import (
	"flag"
	"fmt"
	"os"
	"path/filepath"
)

func main() {
	repo := flag.String("repo", "/repo", "repository root")
	outdir := flag.String("outdir", "", "directory for the generated Lean files (KcacheModel/Extracted)")
	report := flag.String("report", "", "write the source-level mismatches between generated files and instantiated templates here (JSON)")
	flag.Parse()
	if *report != "" {
		if err := writeMismatchReport(*repo, *report); err != nil {
			fmt.Fprintln(os.Stderr, "report:", err)
			os.Exit(1)
		}
		if *outdir == "" {
			return
		}
	}
	write := func(name, content string) {
		p := filepath.Join(*outdir, name)
		old, _ := os.ReadFile(p)
		if string(old) == content {
			return // keep the timestamp: nothing to rebuild
		}
		if err := os.WriteFile(p, []byte(content), 0o644); err != nil {
			fmt.Fprintln(os.Stderr, err)
			os.Exit(2)
		}
	}
	gen, err := gensrc(*repo)
	if err != nil {
		fmt.Fprintln(os.Stderr, "gensrc:", err)
		os.Exit(1)
	}
	write("Gen.lean", gen)
	facts, err := extractFacts(*repo)
	if err != nil {
		fmt.Fprintln(os.Stderr, "facts:", err)
		os.Exit(1)
	}
	write("Facts.lean", facts)
}
