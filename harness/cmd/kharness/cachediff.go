package main

import (
	"bufio"
	"context"
	"fmt"
	"strconv"

	"github.com/boz/kcache"
	"kverif/kv"
)

type cacheGen struct {
	r       *kv.Rand
	keys    [][2]string
	vers    []string
	labels  []map[string]string
	filters []kv.Term
}

func smallGen(r *kv.Rand) *cacheGen {
	return &cacheGen{
		r:      r,
		keys:   [][2]string{{"a", "x"}, {"b", "x"}},
		vers:   []string{"", "0", "1", "2", "3", "x"},
		labels: []map[string]string{nil, {"l": "1"}},
		filters: []kv.Term{
			{Op: "null"}, {Op: "all"}, {Op: "labels", Map: map[string]string{"l": "1"}},
			{Op: "nsname", IDs: [][2]string{{"a", "x"}}}, {Op: "fn", N: 0},
		},
	}
}

func largeGen(r *kv.Rand) *cacheGen {
	g := &cacheGen{r: r}
	for _, ns := range []string{"a", "b"} {
		for _, n := range []string{"x", "y", "a"} {
			g.keys = append(g.keys, [2]string{ns, n})
		}
	}
	g.keys = g.keys[:5]
	// two keys whose namespace/name join to the same "t/d/p": a cache is keyed by the pair, not by the joined string
	g.keys = append(g.keys, [2]string{"t", "d/p"}, [2]string{"t/d", "p"})
	for v := -2; v <= 50; v++ {
		g.vers = append(g.vers, strconv.Itoa(v))
	}
	g.vers = append(g.vers, "", "x", "+7", "-0", "007", "9223372036854775807", "9223372036854775808", "-9223372036854775808", "-9223372036854775809", "1e3", " 4", "4 ", "0x10", "１")
	g.labels = []map[string]string{nil, {"l": "1"}, {"l": "2", "t": "q"}}
	leaves := []kv.Term{
		{Op: "null"}, {Op: "all"}, {Op: "labels", Map: map[string]string{"l": "1"}},
		{Op: "nsname", IDs: [][2]string{{"a", "x"}, {"b", ""}}}, {Op: "fn", N: 0}, {Op: "fn", N: 1},
		{Op: "labelsel", LS: &kv.LabelSel{ME: []kv.LSReq{{Key: "t", Op: "Exists"}}}},
		{Op: "nsname", IDs: [][2]string{{"", "y"}}},
	}
	g.filters = append(g.filters, leaves...)
	g.filters = append(g.filters, compose(r, leaves, 12)...)
	return g
}

func (g *cacheGen) obj() kv.Obj {
	k := kv.Pick(g.r, g.keys)
	// mostly valid versions; the malformed stream is a minority
	v := kv.Pick(g.r, g.vers)
	return kv.Obj{Kind: "pod", NS: k[0], Name: k[1], RV: v, Labels: kv.Pick(g.r, g.labels), UID: kv.Pick(g.r, []string{"", "u1", "u2"})}
}

func (g *cacheGen) list() []kv.Obj {
	n := g.r.Intn(len(g.keys) + 2)
	var l []kv.Obj
	dup := g.r.Chance(1, 6)
	seen := map[string]bool{}
	for i := 0; i < n; i++ {
		o := g.obj()
		if seen[o.Key()] && !dup {
			continue
		}
		seen[o.Key()] = true
		l = append(l, o)
	}
	return l
}

func evsSx(evs []kcache.Event) string {
	parts := make([]string, 0, len(evs))
	for _, e := range evs {
		parts = append(parts, kv.L(string(e.Type()), kv.Describe(e.Resource()).Sx()))
	}
	return kv.L(parts...)
}

type cacheRunner struct {
	w      *bufio.Writer
	c      kcache.VerifCache
	cancel context.CancelFunc
	stats  map[string]int
}

func (cr *cacheRunner) reset(f kv.Term) {
	if cr.cancel != nil {
		cr.cancel()
		<-cr.c.Done()
	}
	ctx, cancel := context.WithCancel(context.Background())
	cr.cancel = cancel
	cr.c = kcache.VerifNewCache(ctx, &kv.Log{}, nil, f.Build())
	fmt.Fprintln(cr.w, kv.L("new", f.Sx()))
}

func (cr *cacheRunner) listSx() string {
	l, err := cr.c.List()
	if err != nil {
		return "(error)"
	}
	return kv.SortedObjs(l)
}

// pending writes the operation before it is executed and flushes, so that a crash of the cache
// goroutine (which kills the process) leaves the failing input as the last line of the trace.
func (cr *cacheRunner) pending(s string) {
	fmt.Fprintln(cr.w, kv.L("pending", s))
	cr.w.Flush()
}

func (cr *cacheRunner) sync(l []kv.Obj) {
	cr.pending(kv.L("sync", kv.ObjList(l)))
	evs, _ := cr.c.Sync(kv.BuildAll(l))
	fmt.Fprintln(cr.w, kv.L("sync", kv.ObjList(l), evsSx(evs), cr.listSx()))
	cr.stats["sync"]++
	cr.stats["events"] += len(evs)
}

func (cr *cacheRunner) refilter(f kv.Term, l []kv.Obj) {
	cr.pending(kv.L("refilter", f.Sx(), kv.ObjList(l)))
	evs, _ := cr.c.Refilter(kv.BuildAll(l), f.Build())
	fmt.Fprintln(cr.w, kv.L("refilter", f.Sx(), kv.ObjList(l), evsSx(evs), cr.listSx()))
	cr.stats["refilter"]++
	cr.stats["events"] += len(evs)
}

func (cr *cacheRunner) update(t string, o kv.Obj) {
	cr.pending(kv.L("update", t, o.Sx()))
	evs, _ := cr.c.Update(kcache.NewEvent(kcache.EventType(t), o.Build()))
	fmt.Fprintln(cr.w, kv.L("update", t, o.Sx(), evsSx(evs), cr.listSx()))
	cr.stats["update:"+t]++
	cr.stats["events"] += len(evs)
	if len(evs) > 0 {
		cr.stats["changing-ops"]++
	}
}

func (cr *cacheRunner) get(ns, name string) {
	m, err := cr.c.Get(ns, name)
	res := "nil"
	if err != nil {
		res = "error"
	} else if m != nil {
		res = kv.Describe(m).Sx()
	}
	fmt.Fprintln(cr.w, kv.L("get", kv.Atom(ns), kv.Atom(name), res))
	cr.stats["get"]++
}

// all lists of at most two entries over the small universe
func (g *cacheGen) allObjs() []kv.Obj {
	var os []kv.Obj
	for _, k := range g.keys {
		for _, v := range g.vers {
			for _, l := range g.labels {
				os = append(os, kv.Obj{Kind: "pod", NS: k[0], Name: k[1], RV: v, Labels: l})
			}
		}
	}
	return os
}

func cachediff(w *bufio.Writer, seed uint64, tier string, stats map[string]int) {
	r := kv.NewRand(seed)
	cr := &cacheRunner{w: w, stats: stats}

	// (a) systematic part over the small universe: from states reached by short prefixes apply
	// every single op (the property's own quantifier)
	sg := smallGen(r)
	objs := sg.allObjs()
	var lists [][]kv.Obj
	lists = append(lists, nil)
	for _, a := range objs {
		lists = append(lists, []kv.Obj{a})
	}
	nPairs := 150
	if tier == "thorough" {
		for _, a := range objs {
			for _, b := range objs {
				lists = append(lists, []kv.Obj{a, b})
			}
		}
	} else {
		for i := 0; i < nPairs; i++ {
			lists = append(lists, []kv.Obj{kv.Pick(r, objs), kv.Pick(r, objs)})
		}
	}
	// prefixes: a few op sequences that produce distinct (content, filter) states
	prefixes := 12
	if tier == "thorough" {
		prefixes = 60
	}
	types := []string{"create", "update", "delete"}
	for p := 0; p < prefixes; p++ {
		f0 := sg.filters[p%len(sg.filters)]
		plen := p / len(sg.filters)
		var pre []func()
		for i := 0; i < plen; i++ {
			switch r.Intn(3) {
			case 0:
				l := sg.list()
				pre = append(pre, func() { cr.sync(l) })
			case 1:
				o, t := sg.obj(), kv.Pick(r, types)
				pre = append(pre, func() { cr.update(t, o) })
			default:
				l, f := sg.list(), kv.Pick(r, sg.filters)
				pre = append(pre, func() { cr.refilter(f, l) })
			}
		}
		run := func() {
			cr.reset(f0)
			for _, op := range pre {
				op()
			}
		}
		for _, o := range objs {
			for _, t := range types {
				run()
				cr.update(t, o)
			}
		}
		stride := 1
		if tier != "thorough" {
			stride = 3
		}
		for i := p % stride; i < len(lists); i += stride {
			run()
			cr.sync(lists[i])
			run()
			cr.refilter(sg.filters[(i+p)%len(sg.filters)], lists[i])
		}
	}

	// (b) random walks over the larger universe
	walks, steps := 150, 60
	if tier == "thorough" {
		walks = 4000
	}
	lg := largeGen(r)
	for wk := 0; wk < walks; wk++ {
		cr.reset(kv.Pick(r, lg.filters))
		for s := 0; s < steps; s++ {
			switch r.Intn(10) {
			case 0, 1:
				cr.sync(lg.list())
			case 2:
				cr.refilter(kv.Pick(r, lg.filters), lg.list())
			case 3:
				k := kv.Pick(r, lg.keys)
				cr.get(k[0], k[1])
			default:
				cr.update(kv.Pick(r, types), lg.obj())
			}
		}
	}
	if cr.cancel != nil {
		cr.cancel()
	}
}
