package main

import (
	"bufio"
	"bytes"
	"context"
	"fmt"
	"io"
	"net/http"
	"sort"
	"strings"
	"sync"

	"github.com/boz/kcache/client"
	"github.com/boz/kcache/types/daemonset"
	"github.com/boz/kcache/types/deployment"
	"github.com/boz/kcache/types/event"
	"github.com/boz/kcache/types/ingress"
	"github.com/boz/kcache/types/job"
	"github.com/boz/kcache/types/node"
	"github.com/boz/kcache/types/pod"
	"github.com/boz/kcache/types/replicaset"
	"github.com/boz/kcache/types/replicationcontroller"
	"github.com/boz/kcache/types/secret"
	"github.com/boz/kcache/types/service"
	"github.com/boz/kcache/types/statefulset"
	metav1 "k8s.io/apimachinery/pkg/apis/meta/v1"
	"k8s.io/client-go/kubernetes"
	"k8s.io/client-go/rest"
	"kverif/kv"
)

// rest engine (C20c): every typed client issues List and Watch requests (twice each, with different options)
// through a recording http.RoundTripper; method, path and query of every request are written to the trace.

type recorder struct {
	mu   sync.Mutex
	reqs []string
	// status answered to every request (200, or an error status: a client must not turn one call into several requests)
	status int
}

func (r *recorder) RoundTrip(req *http.Request) (*http.Response, error) {
	q := req.URL.Query()
	keys := make([]string, 0, len(q))
	for k := range q {
		keys = append(keys, k)
	}
	sort.Strings(keys)
	var qs []string
	for _, k := range keys {
		for _, v := range q[k] {
			qs = append(qs, k+"="+v)
		}
	}
	r.mu.Lock()
	r.reqs = append(r.reqs, kv.L(kv.Atom(req.Method), kv.Atom(req.URL.Path), kv.Atom(strings.Join(qs, "&"))))
	r.mu.Unlock()
	body := `{"kind":"List","apiVersion":"v1","metadata":{"resourceVersion":"1"},"items":[]}`
	if q.Get("watch") == "true" || strings.Contains(req.URL.Path, "/watch/") {
		body = ""
	}
	status := r.status
	if status == 0 {
		status = 200
	}
	if status != 200 {
		body = fmt.Sprintf(`{"kind":"Status","apiVersion":"v1","status":"Failure","reason":%q,"code":%d}`, http.StatusText(status), status)
	}
	return &http.Response{StatusCode: status, Header: http.Header{"Content-Type": []string{"application/json"}},
		Body: io.NopCloser(bytes.NewBufferString(body)), Request: req}, nil
}

func restdiff(w *bufio.Writer, seed uint64, tier string, stats map[string]int) {
	ctors := map[string]func(kubernetes.Interface, string) client.Client{
		"pod": pod.NewClient, "ingress": ingress.NewClient, "secret": secret.NewClient, "service": service.NewClient,
		"event": event.NewClient, "node": node.NewClient, "replicationcontroller": replicationcontroller.NewClient,
		"replicaset": replicaset.NewClient, "deployment": deployment.NewClient, "job": job.NewClient,
		"daemonset": daemonset.NewClient, "statefulset": statefulset.NewClient,
	}
	names := make([]string, 0, len(ctors))
	for n := range ctors {
		names = append(names, n)
	}
	sort.Strings(names)
	r := kv.NewRand(seed*7000003 + 11)
	rounds := 1
	if tier == "thorough" {
		rounds = 40
	}
	nss := []string{"", "a", "kube-system", "default", "x-1"}
	for round := 0; round < rounds; round++ {
		for _, name := range names {
			for _, ns := range nss {
				if round > 0 && !r.Chance(1, 3) {
					continue
				}
				rec := &recorder{status: []int{200, 200, 404, 500, 410}[r.Intn(5)]}
				cs, err := kubernetes.NewForConfig(&rest.Config{Host: "http://kverif.invalid", Transport: rec})
				if err != nil {
					fmt.Fprintln(w, kv.L("rest-error", name, kv.Atom(err.Error())))
					continue
				}
				c := ctors[name](cs, ns)
				ctx, cancel := context.WithCancel(context.Background())
				var calls []string
				for i := 3 + r.Intn(5); i > 0; i-- {
					opts := metav1.ListOptions{}
					if r.Chance(2, 3) {
						opts.ResourceVersion = fmt.Sprint(r.Intn(1000))
					}
					opts.Watch = r.Chance(1, 2)
					if r.Chance(1, 2) {
						calls = append(calls, kv.L("list", kv.Atom(opts.ResourceVersion), kv.Bool(opts.Watch)))
						c.List(ctx, opts)
					} else {
						calls = append(calls, kv.L("watch", kv.Atom(opts.ResourceVersion), kv.Bool(opts.Watch)))
						if wi, err := c.Watch(ctx, opts); err == nil && wi != nil {
							wi.Stop()
						}
					}
				}
				cancel()
				fmt.Fprintln(w, kv.L("rest", name, kv.Atom(ns), kv.L(calls...), kv.L(rec.reqs...)))
				stats["rest"]++
			}
		}
	}
}
