package main

import (
	"bufio"
	"context"
	"fmt"
	"strconv"
	"strings"
	"sync"
	"sync/atomic"
	"time"

	"github.com/boz/kcache"
	"kverif/kv"
)

// lin engine (C15): one writer moves the real cache through distinguishable complete states S_1, S_2, …
// (every object of S_k carries resource version k and S_k has k%3+2 objects) by sync / refilter / update
// batches, while N readers call List() and Get() concurrently. Calls and returns are stamped with one global
// atomic counter. The history is checked by the driver: every List() must be one complete S_k, inside the
// window real time allows, and never going backwards for one reader.

var linKeys = [][2]string{{"a", "x"}, {"a", "y"}, {"b", "x"}, {"b", "y"}, {"c", "x"}}

// linState(j): odd j = 2v-1 is the full state of version v (v%3+2 objects, all at version v); even j = 2v is
// the same state shrunk to its first half — a relist that only deletes (no new version anywhere).
//
// In a "big" round a state has 260+ objects (a cache large enough for any size-dependent path), named n/0 … n/399.
// Every list also carries, in its middle, one object whose resource version does not parse: the cache skips it.
func linState(j int, big bool) []kv.Obj {
	v := (j + 1) / 2
	n := v%3 + 2
	if big {
		n = 260 + v%3
	}
	if j%2 == 0 {
		n = (n + 1) / 2
	}
	var l []kv.Obj
	for i := 0; i < n; i++ {
		key := linKeys[(v+i)%len(linKeys)]
		if big {
			key = [2]string{"n", strconv.Itoa((v + i) % 400)}
		}
		if i == n/2 {
			l = append(l, kv.Obj{Kind: "pod", NS: "bad", Name: "version", RV: "zz"})
		}
		l = append(l, kv.Obj{Kind: "pod", NS: key[0], Name: key[1], RV: strconv.Itoa(v), Labels: map[string]string{"v": strconv.Itoa(v)}})
	}
	return l
}

func lindiff(w *bufio.Writer, seed uint64, tier string, stats map[string]int) {
	r := kv.NewRand(seed)
	rounds, writes, readers := 6, 300, 6
	if tier == "thorough" {
		rounds, writes, readers = 40, 600, 12
	}
	// after the long rounds: many short ones in which the context is cancelled under the writer's feet
	minis := 60
	if tier == "thorough" {
		minis = 600
	}
	for round := 0; round < rounds+minis; round++ {
		if round >= rounds {
			writes, readers = 24, 5
		}
		// the last long round is a big one (fewer writes: its lists are long)
		big := round == rounds-1 || round == rounds-2
		slowBig := round == rounds-1 // (the other big round runs at full speed, with the small keys for Get)
		if big {
			writes, readers = 60, 4
		}
		ctx, cancel := context.WithCancel(context.Background())
		// the big round runs under a filter that takes its time now and then (constant true): a relist lasts long
		// enough for readers to come and go several times while it is being applied
		fterm := kv.Term{Op: "null"}
		var fcalls atomic.Int64
		var curK atomic.Int64
		if slowBig {
			fterm = kv.Term{Op: "fn", N: 2}
			kv.FNHook = func() {
				if fcalls.Add(1)%48 == 0 {
					time.Sleep(50 * time.Microsecond)
				}
			}
		}
		c := kcache.VerifNewCache(ctx, &kv.Log{}, nil, fterm.Build())
		var clock atomic.Int64
		var mu sync.Mutex
		var lines []string
		emit := func(s string) { mu.Lock(); lines = append(lines, s); mu.Unlock() }
		var wg sync.WaitGroup
		stop := make(chan struct{})
		nr := 1 + r.Intn(readers)
		fmt.Fprintln(w, kv.L("scenario", fmt.Sprint(round), map[bool]string{false: "lin", true: "lin-big"}[big]))
		for id := 0; id < nr; id++ {
			wg.Add(1)
			useGet := id%2 == 1
			go func(id int) {
				defer wg.Done()
				for {
					select {
					case <-stop:
						return
					default:
					}
					t0 := clock.Add(1)
					if useGet {
						key := linKeys[int(t0)%len(linKeys)]
						if slowBig {
							// a key of the state being written (or of its neighbours)
							key = [2]string{"n", strconv.Itoa(int((curK.Load()+1)/2+t0*7919) % 400)}
						}
						o, err := c.Get(key[0], key[1])
						t1 := clock.Add(1)
						res := "nil"
						if err != nil {
							if ctx.Err() != nil {
								return // shutting down: ErrNotRunning is the right answer from now on
							}
							res = "err"
						} else if o != nil {
							res = o.GetResourceVersion()
						}
						emit(kv.L("g", fmt.Sprint(id), fmt.Sprint(t0), fmt.Sprint(t1), kv.Atom(key[0]+"/"+key[1]), res))
						continue
					}
					l, err := c.List()
					t1 := clock.Add(1)
					if err != nil {
						if ctx.Err() != nil {
							return
						}
						emit(kv.L("r", fmt.Sprint(id), fmt.Sprint(t0), fmt.Sprint(t1), "err"))
						continue
					}
					parts := make([]string, 0, len(l))
					for _, o := range l {
						parts = append(parts, o.GetNamespace()+"/"+o.GetName()+"@"+o.GetResourceVersion())
					}
					// the slice belongs to the caller: scribble over it
					for i := range l {
						l[i] = nil
					}
					emit(kv.L("r", fmt.Sprint(id), fmt.Sprint(t0), fmt.Sprint(t1), kv.L(sortedAtoms(parts)...)))
				}
			}(id)
		}
		// every third round the context is cancelled while the writer is at work: a write either happens
		// completely or fails with ErrNotRunning, and readers never see anything in between
		cancelAt := 0
		if round%3 == 2 || round >= rounds {
			cancelAt = writes/4 + r.Intn(writes/2)
		}
		done := writes
		for k := 1; k <= writes; k++ {
			st := linState(k, big)
			curK.Store(int64(k))
			if k == cancelAt {
				go cancel()
			}
			t0 := clock.Add(1)
			mode := r.Intn(3)
			var err error
			switch mode {
			case 1:
				_, err = c.Refilter(kv.BuildAll(st), fterm.Build())
			default:
				_, err = c.Sync(kv.BuildAll(st))
			}
			if err != nil {
				done = k - 1
				break
			}
			t1 := clock.Add(1)
			emit(kv.L("w", fmt.Sprint(k), fmt.Sprint(t0), fmt.Sprint(t1)))
		}
		close(stop)
		wg.Wait()
		cancel()
		<-c.Done()
		kv.FNHook = nil
		for _, l := range lines {
			fmt.Fprintln(w, l)
		}
		fmt.Fprintln(w, kv.L("lin-end", fmt.Sprint(done)))
		stats["rounds"]++
		stats["ops"] += len(lines)
	}
	slows := 2
	if tier == "thorough" {
		slows = 8
	}
	for i := 0; i < slows; i++ {
		linSlow(w, rounds+minis+i, stats)
	}
}

// linSlow: a reader that comes back rarely. Write 1, List(), write 2, then write 3 under a filter that blocks for
// 900 ms in the middle of the relist; 50 ms into it the reader calls List() again: whatever it is given must not
// be older than write 2, which had returned before the call.
func linSlow(w *bufio.Writer, round int, stats map[string]int) {
	ctx, cancel := context.WithCancel(context.Background())
	defer cancel()
	var slow atomic.Bool
	var fcalls atomic.Int64
	kv.FNHook = func() {
		if slow.Load() && fcalls.Add(1) == 2 {
			time.Sleep(900 * time.Millisecond)
		}
	}
	defer func() { kv.FNHook = nil }()
	c := kcache.VerifNewCache(ctx, &kv.Log{}, nil, kv.Term{Op: "fn", N: 2}.Build())
	var clock atomic.Int64
	var omu sync.Mutex
	out := func(l string) { omu.Lock(); fmt.Fprintln(w, l); omu.Unlock() }
	out(kv.L("scenario", fmt.Sprint(round), "lin"))
	write := func(k int) {
		t0 := clock.Add(1)
		if _, err := c.Sync(kv.BuildAll(linState(k, false))); err != nil {
			return
		}
		out(kv.L("w", fmt.Sprint(k), fmt.Sprint(t0), fmt.Sprint(clock.Add(1))))
	}
	read := func(id int) {
		t0 := clock.Add(1)
		l, err := c.List()
		t1 := clock.Add(1)
		if err != nil {
			out(kv.L("r", fmt.Sprint(id), fmt.Sprint(t0), fmt.Sprint(t1), "err"))
			return
		}
		parts := make([]string, 0, len(l))
		for _, o := range l {
			parts = append(parts, o.GetNamespace()+"/"+o.GetName()+"@"+o.GetResourceVersion())
		}
		out(kv.L("r", fmt.Sprint(id), fmt.Sprint(t0), fmt.Sprint(t1), kv.L(sortedAtoms(parts)...)))
	}
	write(1)
	read(0)
	write(2)
	slow.Store(true)
	var wg sync.WaitGroup
	wg.Add(1)
	go func() { defer wg.Done(); write(3) }()
	time.Sleep(50 * time.Millisecond)
	read(0)
	wg.Wait()
	read(0)
	out(kv.L("lin-end", "3"))
	cancel()
	<-c.Done()
	stats["rounds"]++
}

func sortedAtoms(parts []string) []string {
	out := append([]string(nil), parts...)
	for i := 1; i < len(out); i++ {
		for j := i; j > 0 && strings.Compare(out[j-1], out[j]) > 0; j-- {
			out[j-1], out[j] = out[j], out[j-1]
		}
	}
	for i := range out {
		out[i] = kv.Atom(out[i])
	}
	return out
}
