// kharness: runs the real library on generated inputs and writes protocol traces for kdriver.
package main

import (
	"bufio"
	"encoding/json"
	"flag"
	"fmt"
	"os"
	"time"
)

func main() {
	engine := flag.String("engine", "", "filterdiff | cachediff")
	seed := flag.Uint64("seed", 1, "PRNG seed")
	tier := flag.String("tier", "quick", "quick | thorough")
	out := flag.String("out", "", "trace file")
	statsOut := flag.String("stats", "", "stats json file")
	flag.Parse()
	f, err := os.Create(*out)
	if err != nil {
		fmt.Fprintln(os.Stderr, err)
		os.Exit(2)
	}
	w := bufio.NewWriterSize(f, 1<<20)
	stats := map[string]int{}
	// these engines finish in seconds (quick) or a few minutes (thorough): a run that does not is stuck in the
	// library (a call that never returns, a goroutine that spins)
	limit := 10 * time.Minute
	if *tier == "thorough" {
		limit = 40 * time.Minute
	}
	time.AfterFunc(limit, func() {
		w.Flush()
		fmt.Fprintf(os.Stderr, "panic: the %s engine did not finish within %v: a library call never returned\n", *engine, limit)
		os.Exit(3)
	})
	switch *engine {
	case "filterdiff":
		filterdiff(w, *seed, *tier, stats)
	case "cachediff":
		cachediff(w, *seed, *tier, stats)
	case "lin":
		lindiff(w, *seed, *tier, stats)
	case "rest":
		restdiff(w, *seed, *tier, stats)
	default:
		fmt.Fprintln(os.Stderr, "unknown engine")
		os.Exit(2)
	}
	w.Flush()
	f.Close()
	if *statsOut != "" {
		b, _ := json.Marshal(stats)
		os.WriteFile(*statsOut, b, 0o644)
	}
}
