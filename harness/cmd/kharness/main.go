// kharness: runs the real library on generated inputs and writes protocol traces for kdriver.
package main

import (
	"bufio"
	"encoding/json"
	"flag"
	"fmt"
	"os"
)

func main() {
	engine := flag.String("engine", "", "filterdiff | cachediff")
	seed := flag.Uint64("seed", 1, "PRNG seed")
	tier := flag.String("tier", "quick", "quick | thorough")
	out := flag.String("out", "", "trace file")
	statsOut := flag.String("stats", "", "stats json file")
	flag.Parse()
	f, err := os.Create(*out)
	if err != nil {
		fmt.Fprintln(os.Stderr, err)
		os.Exit(2)
	}
	w := bufio.NewWriterSize(f, 1<<20)
	stats := map[string]int{}
	switch *engine {
	case "filterdiff":
		filterdiff(w, *seed, *tier, stats)
	case "cachediff":
		cachediff(w, *seed, *tier, stats)
	case "lin":
		lindiff(w, *seed, *tier, stats)
	case "rest":
		restdiff(w, *seed, *tier, stats)
	default:
		fmt.Fprintln(os.Stderr, "unknown engine")
		os.Exit(2)
	}
	w.Flush()
	f.Close()
	if *statsOut != "" {
		b, _ := json.Marshal(stats)
		os.WriteFile(*statsOut, b, 0o644)
	}
}
