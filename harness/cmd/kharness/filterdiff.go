package main

import (
	"bufio"
	"fmt"
	"strings"

	"github.com/boz/kcache/filter"
	"kverif/kv"
)

// ---- object universe ------------------------------------------------------------------

func filterUniverse() []kv.Obj {
	var u []kv.Obj
	labelVals := []string{"", "1", "2", "q"}
	for _, ns := range []string{"a", "b", "c"} {
		for _, name := range []string{"x", "y", "a"} {
			for _, l := range labelVals {
				for _, t := range labelVals {
					labels := map[string]string{}
					if l != "" {
						labels["l"] = l
					}
					if t != "" {
						labels["t"] = t
					}
					if len(labels) == 0 && name == "y" {
						labels = nil
					}
					node := ""
					if name == "x" {
						node = "n1"
					} else if name == "y" {
						node = "n2"
					}
					u = append(u, kv.Obj{Kind: "pod", NS: ns, Name: name, RV: "1", Labels: labels, Node: node})
				}
			}
		}
	}
	// a label present with the empty string as its value is not the same as an absent label
	u = append(u, kv.Obj{Kind: "pod", NS: "a", Name: "x", RV: "1", Labels: map[string]string{"l": ""}, Node: "n1"},
		kv.Obj{Kind: "pod", NS: "a", Name: "y", RV: "1", Labels: map[string]string{"l": "", "t": "q"}, Node: "n2"},
		kv.Obj{Kind: "pod", NS: "b", Name: "x", RV: "1", Labels: map[string]string{"t": ""}, Node: "n1"})
	sels := []map[string]string{nil, {"l": "1"}, {"l": "1", "t": "q"}, {"t": "2"}, {"l": ""}, {"t": ""}}
	for _, ns := range []string{"a", "b"} {
		for _, name := range []string{"x", "y", "s1", "s2"} {
			for i, sel := range sels {
				var labels map[string]string
				if i%2 == 1 {
					labels = map[string]string{"l": "1"}
				}
				u = append(u, kv.Obj{Kind: "service", NS: ns, Name: name, RV: "1", Labels: labels, Selector: sel})
			}
		}
	}
	for _, ns := range []string{"a", "b"} {
		for _, ik := range []string{"Pod", "Service"} {
			for _, ins := range []string{"a", "b"} {
				for _, inm := range []string{"x", "y"} {
					u = append(u, kv.Obj{Kind: "event", NS: ns, Name: "e-" + ik + ins + inm, RV: "1", InvKind: ik, InvNS: ins, InvName: inm})
				}
			}
		}
	}
	u = append(u, kv.Obj{Kind: "secret", NS: "a", Name: "x", RV: "1", Labels: map[string]string{"l": "1"}})
	return u
}

// ---- term universe --------------------------------------------------------------------

func labelSels() []*kv.LabelSel {
	return []*kv.LabelSel{
		nil,
		{},
		{ML: map[string]string{"l": "1"}},
		{ML: map[string]string{"l": "1", "t": "q"}},
		{ME: []kv.LSReq{{Key: "l", Op: "In", Vals: []string{"1", "2"}}}},
		{ME: []kv.LSReq{{Key: "l", Op: "In", Vals: []string{"2", "1"}}}},
		{ME: []kv.LSReq{{Key: "l", Op: "NotIn", Vals: []string{"1"}}}},
		{ME: []kv.LSReq{{Key: "l", Op: "In", Vals: []string{"1"}}}},
		{ME: []kv.LSReq{{Key: "l", Op: "In", Vals: []string{"2"}}}},
		{ME: []kv.LSReq{{Key: "l", Op: "NotIn", Vals: []string{"1", "2"}}}},
		// several requirements on one key: all of them count
		{ML: map[string]string{"l": "1"}, ME: []kv.LSReq{{Key: "l", Op: "NotIn", Vals: []string{"1"}}}},
		{ML: map[string]string{"l": "1"}, ME: []kv.LSReq{{Key: "l", Op: "In", Vals: []string{"2"}}}},
		{ML: map[string]string{"l": "1"}, ME: []kv.LSReq{{Key: "l", Op: "DoesNotExist"}}},
		{ME: []kv.LSReq{{Key: "l", Op: "In", Vals: []string{"1"}}, {Key: "l", Op: "NotIn", Vals: []string{"1"}}}},
		{ME: []kv.LSReq{{Key: "l", Op: "In", Vals: []string{"1"}}, {Key: "l", Op: "Exists"}, {Key: "t", Op: "In", Vals: []string{"q"}}}},
		{ME: []kv.LSReq{{Key: "l", Op: "In", Vals: []string{"1", "2", "q"}}}},
		{ME: []kv.LSReq{{Key: "t", Op: "Exists"}}},
		{ME: []kv.LSReq{{Key: "t", Op: "DoesNotExist"}}},
		{ML: map[string]string{"l": "1"}, ME: []kv.LSReq{{Key: "t", Op: "Exists"}, {Key: "l", Op: "NotIn", Vals: []string{"2"}}}},
		{ML: map[string]string{"t": "q"}, ME: []kv.LSReq{{Key: "a", Op: "DoesNotExist"}, {Key: "l", Op: "In", Vals: []string{"1"}}}},
	}
}

func workloadSets(withSel bool) [][]kv.Workload {
	lss := labelSels()
	w := func(ns, name string, sel *kv.LabelSel, labels map[string]string) kv.Workload {
		if !withSel {
			sel = nil
		}
		return kv.Workload{NS: ns, Name: name, Sel: sel, Labels: labels}
	}
	l1 := map[string]string{"l": "1"}
	lt := map[string]string{"l": "1", "t": "q"}
	t2 := map[string]string{"t": "2"}
	sets := [][]kv.Workload{
		{},
		{w("a", "w1", nil, l1)},
		{w("b", "w1", nil, l1)},
		{w("a", "w1", nil, nil)},
		{w("a", "w1", nil, lt), w("b", "w2", nil, t2)},
		{w("b", "w2", nil, t2), w("a", "w1", nil, lt)},
		{w("a", "w2", nil, l1), w("a", "w1", nil, t2), w("b", "w1", nil, nil)},
		{w("c", "w1", nil, map[string]string{"l": "2"})},
		// the same selector in two namespaces, and twice in one namespace
		{w("a", "w1", nil, l1), w("b", "w1", nil, l1)},
		{w("b", "w2", nil, l1), w("a", "w1", nil, l1)},
		{w("a", "w1", nil, lt), w("a", "w2", nil, lt)},
		{w("b", "w1", nil, t2), w("a", "w1", nil, t2), w("c", "w1", nil, t2)},
	}
	if withSel {
		for i, ls := range lss {
			ns := []string{"a", "b"}[i%2]
			sets = append(sets, []kv.Workload{w(ns, "w1", ls, t2)})
			sets = append(sets, []kv.Workload{w(ns, "w1", ls, nil), w("b", "w3", lss[(i+3)%len(lss)], l1)})
			if i%3 == 0 {
				sets = append(sets, []kv.Workload{w("a", "w1", ls, nil), w("b", "w1", ls, nil)})
			}
		}
	}
	return sets
}

func ingressSets() [][]kv.Ingress {
	return [][]kv.Ingress{
		{},
		{{NS: "a", Default: "s1"}},
		{{NS: "a", Default: "", Paths: []string{"x", "", "y"}}},
		{{NS: "a", Default: "s1", Paths: []string{"s2"}}, {NS: "b", Default: "x"}},
		{{NS: "b", Default: "x"}, {NS: "a", Default: "s1", Paths: []string{"s2"}}},
		{{NS: "b", Paths: []string{"s1", "s1"}}, {NS: "a", Paths: []string{"y"}}, {NS: "a", Default: "x"}},
		// path backends without a service name (resource backends) in two namespaces
		{{NS: "a", Paths: []string{"", "s1"}}, {NS: "b", Paths: []string{"x", ""}}},
		{{NS: "b", Paths: []string{""}}, {NS: "a", Paths: []string{""}}, {NS: "a", Default: "s2", Paths: []string{"s1", "y", "x"}}},
	}
}

func leafTerms() []kv.Term {
	var ts []kv.Term
	ts = append(ts, kv.Term{Op: "null"}, kv.Term{Op: "all"})
	// the empty conjunction and the empty disjunction (and their negations) are compared with everything
	ts = append(ts, kv.Term{Op: "and"}, kv.Term{Op: "or"}, kv.Term{Op: "not", Kids: []kv.Term{{Op: "and"}}}, kv.Term{Op: "not", Kids: []kv.Term{{Op: "or"}}})
	for _, ids := range [][][2]string{
		{}, {{"a", "x"}}, {{"a", ""}}, {{"", "x"}}, {{"a", "x"}, {"b", "y"}}, {{"b", "y"}, {"a", "x"}},
		{{"a", ""}, {"", "y"}}, {{"", "y"}, {"a", ""}}, {{"a", "x"}, {"a", "x"}}, {{"c", "a"}, {"b", ""}, {"a", "y"}},
		// one string as a namespace-only and as a name-only entry
		{{"a", ""}, {"", "a"}}, {{"", "a"}, {"a", ""}},
	} {
		ts = append(ts, kv.Term{Op: "nsname", IDs: ids})
	}
	for _, m := range []map[string]string{nil, {}, {"l": "1"}, {"l": "2"}, {"l": "1", "t": "q"}, {"t": "q"}, {"l": ""}, {"t": "", "l": "1"}} {
		ts = append(ts, kv.Term{Op: "labels", Map: m})
	}
	for _, ls := range labelSels() {
		ts = append(ts, kv.Term{Op: "labelsel", LS: ls})
	}
	ts = append(ts, kv.Term{Op: "sel", Sel: "everything"}, kv.Term{Op: "sel", Sel: "nothing"}, kv.Term{Op: "sel", Sel: "everything-nil"})
	for i := range kv.FNs {
		ts = append(ts, kv.Term{Op: "fn", N: i})
	}
	ts = append(ts, kv.Term{Op: "fn", N: 11}, kv.Term{Op: "fn", N: 12}) // one literal, two captured values
	for _, names := range [][]string{{}, {"n1"}, {"n1", "n2"}, {"n2", "n1"}, {""}, {"n1", "n1"}} {
		ts = append(ts, kv.Term{Op: "node", Strs: names})
	}
	for _, inv := range [][]string{{"Pod", "a", "x"}, {"Pod", "b", "x"}, {"Service", "a", "x"}, {"Pod", "a", "y"}, {"", "a", "x"}} {
		ts = append(ts, kv.Term{Op: "involved", Strs: inv})
	}
	for _, m := range []map[string]string{nil, {}, {"l": "1"}, {"l": "1", "t": "q"}, {"t": "2", "l": "1"}, {"l": ""}, {"t": ""}} {
		ts = append(ts, kv.Term{Op: "selmatch", Map: m})
	}
	return ts
}

func workloadTerms() []kv.Term {
	var ts []kv.Term
	for _, kind := range []string{"rs", "deployment", "ds", "sts", "job"} {
		for _, ws := range workloadSets(true) {
			ts = append(ts, kv.Term{Op: "pods", Kind: kind, Ws: ws})
		}
	}
	for _, ws := range workloadSets(false) {
		ts = append(ts, kv.Term{Op: "svcpods", Ws: ws}, kv.Term{Op: "rcpods", Ws: ws})
	}
	for _, is := range ingressSets() {
		ts = append(ts, kv.Term{Op: "svcs", Ings: is})
	}
	return ts
}

func compose(r *kv.Rand, pool []kv.Term, n int) []kv.Term {
	var out []kv.Term
	for i := 0; i < n; i++ {
		switch r.Intn(5) {
		case 0:
			out = append(out, kv.Term{Op: "not", Kids: []kv.Term{kv.Pick(r, pool)}})
		case 1, 2:
			k := r.Intn(4)
			kids := make([]kv.Term, k)
			for j := range kids {
				kids[j] = kv.Pick(r, pool)
			}
			out = append(out, kv.Term{Op: "and", Kids: kids})
		default:
			k := r.Intn(4)
			kids := make([]kv.Term, k)
			for j := range kids {
				kids[j] = kv.Pick(r, pool)
			}
			out = append(out, kv.Term{Op: "or", Kids: kids})
		}
	}
	return out
}

func acceptVec(f filter.Filter, objs []kv.Obj) string {
	var b strings.Builder
	b.WriteByte('(')
	for i, o := range objs {
		if i > 0 {
			b.WriteByte(' ')
		}
		b.WriteString(kv.Bool(f.Accept(o.Build())))
	}
	b.WriteByte(')')
	return b.String()
}

func permute(r *kv.Rand, t kv.Term) (kv.Term, bool) {
	p := t
	switch t.Op {
	case "pods", "svcpods", "rcpods":
		if len(t.Ws) < 2 {
			return t, false
		}
		p.Ws = append([]kv.Workload(nil), t.Ws...)
		for i := len(p.Ws) - 1; i > 0; i-- {
			j := r.Intn(i + 1)
			p.Ws[i], p.Ws[j] = p.Ws[j], p.Ws[i]
		}
		if r.Chance(1, 2) {
			p.Ws[0], p.Ws[len(p.Ws)-1] = p.Ws[len(p.Ws)-1], p.Ws[0]
		}
		return p, true
	case "svcs":
		if len(t.Ings) < 2 {
			return t, false
		}
		p.Ings = append([]kv.Ingress(nil), t.Ings...)
		p.Ings[0], p.Ings[len(p.Ings)-1] = p.Ings[len(p.Ings)-1], p.Ings[0]
		return p, true
	}
	return t, false
}

// filterdiff writes the trace: one `universe` line, `acc` lines for single terms, `eq` lines for
// pairs, `eqperm` lines for workload filters with permuted sources.
func filterdiff(w *bufio.Writer, seed uint64, tier string, stats map[string]int) {
	r := kv.NewRand(seed)
	univ := filterUniverse()
	fmt.Fprintln(w, kv.L("universe", kv.ObjList(univ)))
	leaves := leafTerms()
	wl := workloadTerms()
	all1 := append(append([]kv.Term{}, leaves...), wl...)
	nD2, nD3, nPairs := 300, 100, 4000
	if tier == "thorough" {
		nD2, nD3, nPairs = 3000, 1500, 60000
	}
	d2 := compose(r, all1, nD2)
	// conjunctions / disjunctions of selector-type children only (several selectors side by side)
	var selLeaves []kv.Term
	for _, t := range leaves {
		if t.Op == "labels" || t.Op == "labelsel" || t.Op == "sel" {
			selLeaves = append(selLeaves, t)
		}
	}
	d2 = append(d2, compose(r, selLeaves, nD2/2)...)
	d3 := compose(r, append(append([]kv.Term{}, all1...), d2...), nD3)
	everything := append(append(append([]kv.Term{}, all1...), d2...), d3...)

	// acc: every term once against the whole universe (purity: evaluated twice, in both orders)
	for _, t := range everything {
		f := t.Build()
		v1 := acceptVec(f, univ)
		v2 := acceptVec(t.Build(), univ)
		if v1 != v2 || v1 != acceptVec(f, univ) {
			fmt.Fprintln(w, kv.L("impure", t.Sx()))
		}
		fmt.Fprintln(w, kv.L("acc", t.Sx(), "U", v1))
		stats["acc"]++
		stats["term:"+t.Op]++
	}
	emitEq := func(kind string, a, b kv.Term) {
		fa, fb := a.Build(), b.Build()
		if pa, pb, ok := kv.BuildPrefixPair(a, b); ok {
			fa, fb = pa, pb
			stats["eq-shared-array"]++
		}
		eq := filter.FiltersEqual(fa, fb)
		if cf, ok := fa.(filter.ComparableFilter); ok {
			if cf.Equals(fb) != eq {
				fmt.Fprintln(w, kv.L("inconsistent-equals", a.Sx(), b.Sx()))
			}
		}
		fmt.Fprintln(w, kv.L(kind, a.Sx(), b.Sx(), kv.Bool(eq), "U", acceptVec(fa, univ), acceptVec(fb, univ)))
		// Equals compares what the filters were built from: using a filter (Accept) must not change the answer,
		// neither between the two used ones nor between a used one and a fresh build of the same arguments
		if filter.FiltersEqual(fa, fb) != eq || filter.FiltersEqual(fa, b.Build()) != eq || filter.FiltersEqual(a.Build(), fb) != eq {
			fmt.Fprintln(w, kv.L("unstable-equals", a.Sx(), b.Sx()))
		}
		stats[kind]++
		if eq {
			stats["eq-true"]++
		}
	}
	// eq: every term with itself (built twice), all pairs of leaves, sampled pairs of the rest
	for _, t := range everything {
		emitEq("eq", t, t)
	}
	if tier == "thorough" {
		for _, a := range all1 {
			for _, b := range all1 {
				emitEq("eq", a, b)
			}
		}
	} else {
		for _, a := range leaves {
			for _, b := range leaves {
				emitEq("eq", a, b)
			}
		}
	}
	for i := 0; i < nPairs; i++ {
		a := kv.Pick(r, everything)
		var b kv.Term
		if r.Chance(1, 2) {
			b = kv.Pick(r, everything)
		} else {
			// a near-miss: same shape, one child swapped — or one child more
			b = a
			if len(a.Kids) > 0 && (a.Op == "and" || a.Op == "or") && r.Chance(1, 3) {
				b.Kids = append(append([]kv.Term(nil), a.Kids...), kv.Pick(r, all1))
			} else if len(a.Kids) > 0 {
				b.Kids = append([]kv.Term(nil), a.Kids...)
				b.Kids[r.Intn(len(b.Kids))] = kv.Pick(r, all1)
			}
		}
		emitEq("eq", a, b)
	}
	for _, t := range wl {
		if p, ok := permute(r, t); ok {
			emitEq("eqperm", t, p)
		}
	}
	// composites with repeated / swapped / replaced children (order matters, multiplicity matters)
	small := []kv.Term{leaves[0], leaves[1], leaves[3], leaves[4], leaves[14], leaves[20], leaves[22], leaves[len(leaves)-1],
		{Op: "fn", N: 11}, {Op: "fn", N: 12}, {Op: "fn", N: 0}}
	// opaque predicates: alone, and as the only child (one literal with two captured values must not be "equal")
	for _, x := range small[len(small)-3:] {
		for _, y := range small[len(small)-3:] {
			for _, op := range []string{"and", "or", "not"} {
				emitEq("eq", kv.Term{Op: op, Kids: []kv.Term{x}}, kv.Term{Op: op, Kids: []kv.Term{y}})
				emitEq("eq", kv.Term{Op: "not", Kids: []kv.Term{{Op: op, Kids: []kv.Term{x}}}}, kv.Term{Op: "not", Kids: []kv.Term{{Op: op, Kids: []kv.Term{y}}}})
			}
		}
	}
	for _, op := range []string{"and", "or"} {
		for _, x := range small {
			for _, y := range small {
				xx := kv.Term{Op: op, Kids: []kv.Term{x, x}}
				xy := kv.Term{Op: op, Kids: []kv.Term{x, y}}
				yx := kv.Term{Op: op, Kids: []kv.Term{y, x}}
				emitEq("eq", xx, xy)
				emitEq("eq", xy, xx)
				emitEq("eq", xy, yx)
				emitEq("eq", kv.Term{Op: "not", Kids: []kv.Term{xx}}, kv.Term{Op: "not", Kids: []kv.Term{xy}})
			}
		}
	}
	// nil handling of FiltersEqual
	if !filter.FiltersEqual(nil, nil) || filter.FiltersEqual(nil, filter.Null()) || filter.FiltersEqual(filter.Null(), nil) {
		fmt.Fprintln(w, kv.L("nil-equals-wrong"))
	}
}
