//go:build verif

package conc

import (
	"context"
	"fmt"
	"sync"
	"testing"
	"testing/synctest"
	"time"

	"github.com/boz/kcache"
	metav1 "k8s.io/apimachinery/pkg/apis/meta/v1"
	"k8s.io/apimachinery/pkg/runtime"
	"kverif/kv"
)

// lister engine: the real lister + ticker alone, on a (period, list latency, consumption delay) grid in
// virtual time; List calls and consumptions are time-stamped, then the lister is stopped at a random phase.

type timedLister struct {
	mu      sync.Mutex
	latency time.Duration
	start   time.Time
	calls   [][3]int64 // start, end, canceled
	active  int
	maxAct  int
}

func (c *timedLister) List(ctx context.Context, _ metav1.ListOptions) (runtime.Object, error) {
	c.mu.Lock()
	idx := len(c.calls)
	c.calls = append(c.calls, [3]int64{time.Since(c.start).Microseconds(), -1, 0})
	c.active++
	if c.active > c.maxAct {
		c.maxAct = c.active
	}
	c.mu.Unlock()
	canceled := int64(0)
	if c.latency > 0 {
		t := time.NewTimer(c.latency)
		select {
		case <-t.C:
		case <-ctx.Done():
			t.Stop()
			canceled = 1
		}
	}
	c.mu.Lock()
	c.calls[idx][1] = time.Since(c.start).Microseconds()
	c.calls[idx][2] = canceled
	c.active--
	c.mu.Unlock()
	if canceled == 1 {
		return nil, ctx.Err()
	}
	return kv.PodList(nil, "1"), nil
}

func runListerPoint(t *testing.T, tr *tracer, idx int, period, latency, delay time.Duration, stopFrac int, useCancel bool) {
	synctest.Test(t, func(t *testing.T) {
		reseed(*flagSeed, idx)
		ctx, cancel := context.WithCancel(context.Background())
		defer cancel()
		stopch := make(chan struct{})
		cl := &timedLister{latency: latency, start: time.Now()}
		start := cl.start
		l := kcache.VerifNewLister(ctx, &kv.Log{}, stopch, period, cl)
		fuzz := int64(float64(period.Microseconds()) * kcache.VerifDefaultRefreshFuzz)
		tr.line(kv.L("scenario", fmt.Sprint(idx), "lister"))
		tr.line(kv.L("lcfg", fmt.Sprint(period.Microseconds()), fmt.Sprint(latency.Microseconds()), fmt.Sprint(delay.Microseconds()),
			fmt.Sprint(period.Microseconds()-fuzz), fmt.Sprint(period.Microseconds()+fuzz+1)))
		var consumes []int64
		var cmu sync.Mutex
		consumerDone := make(chan struct{})
		go func() {
			defer close(consumerDone)
			for {
				if delay > 0 {
					time.Sleep(delay)
				}
				if _, ok := l.Result(); !ok {
					return
				}
				cmu.Lock()
				consumes = append(consumes, time.Since(start).Microseconds())
				cmu.Unlock()
			}
		}()
		cycle := period + latency + delay
		horizon := 12*cycle + cycle*time.Duration(stopFrac)/7
		time.Sleep(horizon)
		synctest.Wait()
		stopAt := time.Since(start).Microseconds()
		if useCancel {
			cancel()
		} else {
			close(stopch)
		}
		synctest.Wait()
		doneNow := isClosed(l.Done())
		// give it a little virtual time, then look again
		time.Sleep(50 * time.Millisecond)
		synctest.Wait()
		doneSoon := isClosed(l.Done())
		cl.mu.Lock()
		for _, c := range cl.calls {
			tr.line(kv.L("llist", fmt.Sprint(c[0]), fmt.Sprint(c[1]), fmt.Sprint(c[2])))
		}
		maxAct := cl.maxAct
		cl.mu.Unlock()
		cmu.Lock()
		for _, c := range consumes {
			tr.line(kv.L("lconsume", fmt.Sprint(c)))
		}
		cmu.Unlock()
		tr.line(kv.L("lstop", fmt.Sprint(stopAt), kv.Bool(doneNow), kv.Bool(doneSoon), fmt.Sprint(maxAct), kv.Bool(useCancel)))
		tr.stats["points"]++
		cancel()
		time.Sleep(5 * time.Second)
		synctest.Wait()
		<-consumerDone
	})
}

func engineLister(t *testing.T, tr *tracer) {
	r := kv.NewRand(*flagSeed)
	periods := []time.Duration{100 * time.Millisecond, time.Second, time.Minute}
	ratios := []int{0, 25, 50, 95, 100, 150, 300, 500} // latency / period, percent
	delays := []int{0, 10, 50, 100, 200}               // delay / period, percent
	idx := 0
	for _, p := range periods {
		for _, lr := range ratios {
			for _, dr := range delays {
				if *flagTier != "thorough" && r.Intn(3) != 0 {
					continue
				}
				if *flagOnly >= 0 && idx != *flagOnly {
					idx++
					continue
				}
				tr.pending(kv.L("scenario", fmt.Sprint(idx), "lister"))
				runListerPoint(t, tr, idx, p, p*time.Duration(lr)/100, p*time.Duration(dr)/100, r.Intn(7), r.Chance(1, 2))
				idx++
			}
		}
	}
}
