//go:build verif

package conc

import (
	"context"
	"fmt"
	"sync"
	"testing"
	"testing/synctest"
	"time"

	"github.com/boz/kcache"
	metav1 "k8s.io/apimachinery/pkg/apis/meta/v1"
	"k8s.io/apimachinery/pkg/runtime"
	"kverif/kv"
)

// lister engine: the real lister + ticker alone, on a (period, list latency, consumption delay) grid in
// virtual time; List calls and consumptions are time-stamped, then the lister is stopped at a random phase.

type timedLister struct {
	mu      sync.Mutex
	latency time.Duration
	start   time.Time
	calls   [][3]int64 // start, end, canceled
	active  int
	maxAct  int
}

func (c *timedLister) List(ctx context.Context, _ metav1.ListOptions) (runtime.Object, error) {
	c.mu.Lock()
	idx := len(c.calls)
	c.calls = append(c.calls, [3]int64{time.Since(c.start).Microseconds(), -1, 0})
	c.active++
	if c.active > c.maxAct {
		c.maxAct = c.active
	}
	c.mu.Unlock()
	canceled := int64(0)
	if c.latency > 0 {
		t := time.NewTimer(c.latency)
		select {
		case <-t.C:
		case <-ctx.Done():
			t.Stop()
			canceled = 1
		}
	}
	c.mu.Lock()
	c.calls[idx][1] = time.Since(c.start).Microseconds()
	c.calls[idx][2] = canceled
	c.active--
	c.mu.Unlock()
	if canceled == 1 {
		return nil, ctx.Err()
	}
	return kv.PodList(nil, "1"), nil
}

// exactAt >= 0 stops the lister at exactly that instant (microseconds since the start) instead of at the horizon;
// pre stops it before it is created (a context that is already cancelled, or a stop channel already closed).
// The start times of the List calls are returned (the library's fuzz is a function of seed and idx, so that a second
// run of the same point sees the same instants).
func runListerPoint(t *testing.T, tr *tracer, idx int, period, latency, delay time.Duration, stopFrac int, useCancel bool, exactAt int64, pre bool, quiet bool) (starts []int64) {
	synctest.Test(t, func(t *testing.T) {
		reseed(*flagSeed, idx)
		ctx, cancel := context.WithCancel(context.Background())
		defer cancel()
		stopch := make(chan struct{})
		if pre {
			if useCancel {
				cancel()
			} else {
				close(stopch)
			}
		}
		cl := &timedLister{latency: latency, start: time.Now()}
		start := cl.start
		l := kcache.VerifNewLister(ctx, &kv.Log{}, stopch, period, cl)
		fuzz := int64(float64(period.Microseconds()) * kcache.VerifDefaultRefreshFuzz)
		line := tr.line
		if quiet {
			line = func(string) {}
		}
		line(kv.L("scenario", fmt.Sprint(idx), "lister"))
		line(kv.L("lcfg", fmt.Sprint(period.Microseconds()), fmt.Sprint(latency.Microseconds()), fmt.Sprint(delay.Microseconds()),
			fmt.Sprint(period.Microseconds()-fuzz), fmt.Sprint(period.Microseconds()+fuzz+1)))
		var consumes []int64
		var cmu sync.Mutex
		consumerDone := make(chan struct{})
		go func() {
			defer close(consumerDone)
			for {
				if delay > 0 {
					time.Sleep(delay)
				}
				if _, ok := l.Result(); !ok {
					return
				}
				cmu.Lock()
				consumes = append(consumes, time.Since(start).Microseconds())
				cmu.Unlock()
			}
		}()
		cycle := period + latency + delay
		horizon := 12*cycle + cycle*time.Duration(stopFrac)/7
		if pre {
			horizon = 0
		}
		if exactAt >= 0 {
			// no synctest.Wait before the stop: the stop and whatever the lister does at this instant race
			time.Sleep(time.Duration(exactAt) * time.Microsecond)
		} else {
			time.Sleep(horizon)
			synctest.Wait()
		}
		stopAt := time.Since(start).Microseconds()
		if !pre {
			if useCancel {
				cancel()
			} else {
				close(stopch)
			}
		}
		synctest.Wait()
		doneNow := isClosed(l.Done())
		// give it a little virtual time, then look again
		time.Sleep(50 * time.Millisecond)
		synctest.Wait()
		doneSoon := isClosed(l.Done())
		cl.mu.Lock()
		for _, c := range cl.calls {
			line(kv.L("llist", fmt.Sprint(c[0]), fmt.Sprint(c[1]), fmt.Sprint(c[2])))
			starts = append(starts, c[0])
		}
		maxAct := cl.maxAct
		cl.mu.Unlock()
		cmu.Lock()
		for _, c := range consumes {
			line(kv.L("lconsume", fmt.Sprint(c)))
		}
		cmu.Unlock()
		line(kv.L("lstop", fmt.Sprint(stopAt), kv.Bool(doneNow), kv.Bool(doneSoon), fmt.Sprint(maxAct), kv.Bool(useCancel)))
		if !quiet {
			tr.stats["points"]++
		}
		cancel()
		time.Sleep(5 * time.Second)
		synctest.Wait()
		<-consumerDone
	})
	return starts
}

func engineLister(t *testing.T, tr *tracer) {
	r := kv.NewRand(*flagSeed)
	periods := []time.Duration{100 * time.Millisecond, time.Second, time.Minute}
	ratios := []int{0, 25, 50, 95, 100, 150, 300, 500} // latency / period, percent
	delays := []int{0, 10, 50, 100, 200}               // delay / period, percent
	idx := 0
	for _, p := range periods {
		for _, lr := range ratios {
			for _, dr := range delays {
				if *flagTier != "thorough" && r.Intn(3) != 0 {
					continue
				}
				if *flagOnly >= 0 && idx != *flagOnly {
					idx++
					continue
				}
				tr.pending(kv.L("scenario", fmt.Sprint(idx), "lister"))
				lat, del, frac, useCancel := p*time.Duration(lr)/100, p*time.Duration(dr)/100, r.Intn(7), r.Chance(1, 2)
				switch r.Intn(4) {
				case 0:
					// stop at the very instant a List call starts (the tick is due and the stop arrives): learn the
					// instants from a silent run of the same point, then stop exactly there
					starts := runListerPoint(t, tr, idx, p, lat, del, frac, useCancel, -1, false, true)
					if len(starts) > 3 {
						runListerPoint(t, tr, idx, p, lat, del, frac, useCancel, starts[2+r.Intn(len(starts)-3)], false, false)
						break
					}
					fallthrough
				case 1:
					if r.Chance(1, 3) {
						// stopped before it starts
						runListerPoint(t, tr, idx, p, lat, del, frac, useCancel, -1, true, false)
						break
					}
					fallthrough
				default:
					runListerPoint(t, tr, idx, p, lat, del, frac, useCancel, -1, false, false)
				}
				idx++
			}
		}
	}
}
