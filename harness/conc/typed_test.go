//go:build verif

package conc

import (
	"context"
	"fmt"
	"sync"
	"sync/atomic"
	"testing"
	"testing/synctest"
	"time"

	"github.com/boz/kcache"
	"github.com/boz/kcache/filter"
	metav1 "k8s.io/apimachinery/pkg/apis/meta/v1"
	"k8s.io/apimachinery/pkg/watch"
	"kverif/kv"
)

// typed engine (C20b): the same server history — objects of several kinds mixed — through a typed controller
// and through the untyped core, side by side; the typed side must be the untyped one restricted to its type.

type cbLog struct {
	mu sync.Mutex
	es []string
}

func (l *cbLog) add(s string) { l.mu.Lock(); l.es = append(l.es, s); l.mu.Unlock() }
func (l *cbLog) take() string {
	l.mu.Lock()
	defer l.mu.Unlock()
	s := kv.L(l.es...)
	l.es = nil
	return s
}

type typedSide struct {
	ready, done <-chan struct{}
	list        func() string
	drain       func() string
	mon         *cbLog
	closefn     func()
	// a second subscription that is left unread until the end of the scenario (overflow variant)
	lazyDrain func() (string, bool) // its events, and whether Events() was found closed
	// the six constructors called once the controller is done: (name failed?) each
	after func() string
	// a deferred clone (CloneForFilter) and a filtered one (CloneWithFilter): refilter both with filter i of
	// typedFilters (answer: which calls failed), and describe them (ready, content)
	frefilter func(i int) string
	fobs      func() string
}

// the filters the two extra clones of each side are refiltered with
func typedFilter(i int) filter.Filter {
	switch i % 5 {
	case 0:
		return filter.All()
	case 1:
		return filter.Null()
	case 2:
		return filter.Labels(map[string]string{"l": "1"})
	case 3:
		return filter.Labels(map[string]string{"t": "q"})
	}
	return filter.NSName()
}

func objsSx[T metav1.Object](l []T, err error) string {
	if err != nil {
		return "err"
	}
	out := make([]metav1.Object, 0, len(l))
	for _, x := range l {
		out = append(out, x)
	}
	return kv.SortedObjs(out)
}

func untypedSide(ctx context.Context, log *kv.Log, srv *kv.Server) (*typedSide, error) {
	c, err := kcache.NewController(ctx, log, srv)
	if err != nil {
		return nil, err
	}
	sub, err := c.Subscribe()
	if err != nil {
		return nil, err
	}
	ml := &cbLog{}
	hb := kcache.BuildHandler().
		OnInitialize(func(objs []metav1.Object) { ml.add(kv.L("init", kv.SortedObjs(objs))) }).
		OnCreate(func(o metav1.Object) { ml.add(kv.L("create", kv.Describe(o).Sx())) }).
		OnUpdate(func(o metav1.Object) { ml.add(kv.L("update", kv.Describe(o).Sx())) }).
		OnDelete(func(o metav1.Object) { ml.add(kv.L("delete", kv.Describe(o).Sx())) })
	h := hb.Create()
	hb.OnCreate(func(o metav1.Object) { ml.add(kv.L("create", kv.Obj{Kind: "wrong-handler"}.Sx())) }).
		OnUpdate(func(o metav1.Object) { ml.add(kv.L("update", kv.Obj{Kind: "wrong-handler"}.Sx())) }).Create()
	if _, err := kcache.NewMonitor(c, h); err != nil {
		return nil, err
	}
	lazy, err := c.Subscribe()
	if err != nil {
		return nil, err
	}
	lazyDrain := func() (string, bool) {
		var parts []string
		for {
			select {
			case e, ok := <-lazy.Events():
				if !ok {
					return kv.L(parts...), true
				}
				parts = append(parts, kv.L(string(e.Type()), kv.Describe(e.Resource()).Sx()))
			default:
				return kv.L(parts...), false
			}
		}
	}
	after := func() string {
		var out []string
		rec := func(name string, err error) { out = append(out, kv.L(name, kv.Bool(err != nil))) }
		_, err := c.Subscribe()
		rec("Subscribe", err)
		_, err = c.SubscribeWithFilter(filter.Null())
		rec("SubscribeWithFilter", err)
		_, err = c.SubscribeForFilter()
		rec("SubscribeForFilter", err)
		_, err = c.Clone()
		rec("Clone", err)
		_, err = c.CloneWithFilter(filter.Null())
		rec("CloneWithFilter", err)
		_, err = c.CloneForFilter()
		rec("CloneForFilter", err)
		return kv.L(out...)
	}
	fc, err := c.CloneForFilter()
	if err != nil {
		return nil, err
	}
	fw, err := c.CloneWithFilter(typedFilter(2))
	if err != nil {
		return nil, err
	}
	flist := func(fc kcache.FilterController) string {
		l, err := fc.Cache().List()
		if err != nil {
			return "err"
		}
		return kv.SortedObjs(l)
	}
	after0 := after
	after = func() string {
		return kv.L(after0(), kv.L("Refilter", kv.Bool(fc.Refilter(typedFilter(0)) != nil), kv.Bool(fw.Refilter(typedFilter(2)) != nil), kv.Bool(fw.Refilter(typedFilter(3)) != nil)))
	}
	return &typedSide{ready: c.Ready(), done: c.Done(), closefn: c.Close, mon: ml, lazyDrain: lazyDrain, after: after,
		frefilter: func(i int) string {
			return kv.L(kv.Bool(fc.Refilter(typedFilter(i)) != nil), kv.Bool(fw.Refilter(typedFilter(i+1)) != nil))
		},
		fobs: func() string {
			return kv.L(kv.Bool(isClosed(fc.Ready())), kv.Bool(isClosed(fc.Done())), flist(fc), kv.Bool(isClosed(fw.Ready())), kv.Bool(isClosed(fw.Done())), flist(fw))
		},
		list: func() string {
			l, err := c.Cache().List()
			if err != nil {
				return "err"
			}
			return kv.SortedObjs(l)
		},
		drain: func() string {
			var parts []string
			for {
				select {
				case e, ok := <-sub.Events():
					if !ok {
						return kv.L(parts...)
					}
					parts = append(parts, kv.L(string(e.Type()), kv.Describe(e.Resource()).Sx()))
				default:
					return kv.L(parts...)
				}
			}
		}}, nil
}

func runTypedScenario(t *testing.T, tr *tracer, idx int, seed uint64) {
	synctest.Test(t, func(t *testing.T) {
		reseed(seed, idx) // the library's own randomness (ticker fuzz) follows the scenario's seed
		r := kv.NewRand(seed*5000011 + uint64(idx))
		var hookN uint64
		log := &kv.Log{Hook: func(c, f string) {
			n := atomic.AddUint64(&hookN, 1)
			if n%9 == 0 && idx%2 == 0 {
				time.Sleep(time.Duration(1+n%700) * time.Microsecond)
			}
		}}
		kind := typedKinds[idx%len(typedKinds)]
		srv := kv.NewServer()
		srv.Kind, srv.Mixed = kind, true
		ctx, cancel := context.WithCancel(context.Background())
		tr.line(kv.L("scenario", fmt.Sprint(idx), "typed"))
		tr.line(kv.L("tstart", kind))
		// two foreign types next to the own one
		kinds := []string{kind, kind, kind, typedKinds[(idx+5)%len(typedKinds)], typedKinds[(idx+7)%len(typedKinds)]}
		overflow := idx%4 == 3
		if overflow {
			// only the own type, and more events than a buffer holds: an unread typed subscription must keep and
			// lose exactly what an unread untyped one does
			kinds = []string{kind}
		}
		change := func() {
			k := kv.Pick(r, kinds)
			// distinct names per kind: the untyped cache is keyed by namespace/name only
			ns, name := kv.Pick(r, []string{"a", "b"}), k+"-"+kv.Pick(r, []string{"x", "y"})
			cur, ok := srv.Get(ns + "/" + name)
			o := kv.Obj{Kind: k, NS: ns, Name: name, Labels: kv.Pick(r, treeLabels)}
			tt := watch.Added
			if ok {
				if r.Chance(1, 4) {
					tt, o = watch.Deleted, cur
				} else {
					tt = watch.Modified
				}
			}
			o = srv.Apply(tt, o)
			tr.line(kv.L("tsrv", map[watch.EventType]string{watch.Added: "create", watch.Modified: "update", watch.Deleted: "delete"}[tt], o.Sx()))
		}
		for i := r.Intn(5); i > 0; i-- {
			change()
		}
		un, err := untypedSide(ctx, log, srv)
		if err != nil {
			t.Fatal(err)
		}
		ty, err := typedSides[kind](ctx, log, srv)
		if err != nil {
			t.Fatal(err)
		}
		fstep := 0
		obs := func() {
			if overflow {
				// own kind only: the typed clones must be exactly the untyped ones
				if fstep > 0 && r.Chance(1, 3) {
					i := r.Intn(5)
					if fstep == 1 && r.Chance(1, 2) {
						i = 0 // the first Refilter of the deferred clone with a filter equal to its placeholder
					}
					tr.line(kv.L("tfref", fmt.Sprint(i), ty.frefilter(i), un.frefilter(i)))
					settle(&hookN)
				}
				fstep++
				tr.line(kv.L("tfobs", ty.fobs(), un.fobs()))
			}
			tr.line(kv.L("tobs", kv.Bool(isClosed(ty.ready)), kv.Bool(isClosed(un.ready)), kv.Bool(isClosed(ty.done)), kv.Bool(isClosed(un.done)),
				ty.list(), un.list(), ty.drain(), un.drain(), ty.mon.take(), un.mon.take()))
			tr.stats["obs"]++
		}
		settle(&hookN)
		obs()
		if overflow {
			for n := kcache.EventBufsiz*12/10 + r.Intn(kcache.EventBufsiz); n > 0; {
				for j := inflight(5 + r.Intn(20)); j > 0 && n > 0; j, n = j-1, n-1 {
					change()
				}
				settle(&hookN)
				obs()
			}
		}
		for i := 8 + r.Intn(10); i > 0; i-- {
			for j := inflight(1 + r.Intn(3)); j > 0; j-- {
				change()
			}
			settle(&hookN)
			obs()
		}
		ty.closefn()
		un.closefn()
		settle(&hookN)
		obs()
		// the unread pair: same events kept, and Events() closed once the controllers are done
		te, tc := ty.lazyDrain()
		ue, uc := un.lazyDrain()
		tr.line(kv.L("tlazy", te, ue, kv.Bool(tc), kv.Bool(uc)))
		// the constructors once both are done (a generated join calls CloneForFilter on whatever it is given)
		time.Sleep(time.Second)
		synctest.Wait()
		tr.line(kv.L("tafter", ty.after(), un.after()))
		cancel()
		time.Sleep(5 * time.Second)
		synctest.Wait()
		tr.line(kv.L("end"))
		tr.stats["scenarios"]++
	})
}

func engineTyped(t *testing.T, tr *tracer) {
	n := 120
	if *flagTier == "thorough" {
		n = 2000
	}
	if *flagN > 0 {
		n = *flagN
	}
	for i := 0; i < n; i++ {
		if *flagOnly >= 0 && i != *flagOnly {
			continue
		}
		tr.pending(kv.L("scenario", fmt.Sprint(i), "typed"))
		runTypedScenario(t, tr, i, *flagSeed)
	}
}
