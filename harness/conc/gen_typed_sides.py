# the per-package adapters in typed_sides_test.go were generated from the pod adapter by textual substitution
# (package name and object type); regenerate by re-running the snippet recorded in DESIGN.md §0.3 if the adapter changes.
