//go:build verif

// Package conc: engines that run the real library inside testing/synctest bubbles (virtual time,
// deterministic quiescence, deadlock detection). Built as a test binary with go1.26.8:
//
//	go1.26.8 test -c -tags verif -o kconc ./conc
//	kconc -test.run '^TestEngine$' -engine tree -seed 1 -tier quick -out trace -stats stats.json
package conc

import (
	"bufio"
	"encoding/json"
	"flag"
	"fmt"
	"github.com/boz/kcache"
	"math/rand"
	"os"
	"sync/atomic"
	"testing"
	"testing/synctest"
	"time"
)

var (
	flagEngine = flag.String("engine", "", "tree | ...")
	flagSeed   = flag.Uint64("seed", 1, "PRNG seed")
	flagTier   = flag.String("tier", "quick", "quick | thorough")
	flagOut    = flag.String("out", "", "trace file")
	flagStats  = flag.String("stats", "", "stats json")
	flagOnly   = flag.Int("only", -1, "run only this scenario index")
	flagMode   = flag.String("mode", "", "engine-specific mode / property focus")
	flagN      = flag.Int("n", 0, "number of scenarios (0 = tier default)")
)

type tracer struct {
	w     *bufio.Writer
	stats map[string]int
}

// progress counts trace lines; the watchdog (real time, outside every synctest bubble) ends the run when it stops
// moving: a goroutine of the library that spins without ever blocking is invisible to synctest's deadlock detection
var progress atomic.Uint64

func watchdog(limit time.Duration) {
	last, since := progress.Load(), time.Now()
	for {
		time.Sleep(2 * time.Second)
		if p := progress.Load(); p != last {
			last, since = p, time.Now()
			continue
		}
		if time.Since(since) > limit {
			fmt.Fprintf(os.Stderr, "panic: no progress for %v of real time: livelock (a goroutine of the library spins without blocking) or a harness call that never returns\n", limit)
			os.Exit(3)
		}
	}
}

func (t *tracer) line(s string) {
	progress.Add(1)
	fmt.Fprintln(t.w, s)
	if *flagOnly >= 0 {
		t.w.Flush()
	}
}
func (t *tracer) pending(s string) {
	progress.Add(1)
	fmt.Fprintln(t.w, "(pending "+s+")")
	t.w.Flush()
}

func TestEngine(t *testing.T) {
	if *flagEngine == "" {
		t.Skip("no -engine")
	}
	f, err := os.Create(*flagOut)
	if err != nil {
		t.Fatal(err)
	}
	tr := &tracer{w: bufio.NewWriterSize(f, 1<<20), stats: map[string]int{}}
	go watchdog(90 * time.Second)
	defer func() {
		tr.w.Flush()
		f.Close()
		if *flagStats != "" {
			b, _ := json.Marshal(tr.stats)
			os.WriteFile(*flagStats, b, 0o644)
		}
	}()
	switch *flagEngine {
	case "tree":
		engineTree(t, tr)
	case "ctrl":
		engineCtrl(t, tr)
	case "lister":
		engineLister(t, tr)
	case "join":
		engineJoin(t, tr)
	case "typed":
		engineTyped(t, tr)
	default:
		t.Fatalf("unknown engine %q", *flagEngine)
	}
}

// settle reaches quiescence: every goroutine of the bubble durably blocked, no goroutine merely asleep in a
// perturbation hook, and no library activity (log calls) during the last slice of virtual time.
// inflight caps the number of changes issued without waiting for quiescence at EventBufsiz/4 (the bound
// the properties put on the backlog of a healthy consumer), so that the engines follow a changed buffer size.
func inflight(n int) int {
	m := kcache.EventBufsiz / 4
	if m < 1 {
		m = 1
	}
	if n > m {
		return m
	}
	return n
}

// reseed makes math/rand's global source (the library draws its refresh fuzz from it) a function of the
// scenario, so that a scenario replays exactly whether it runs alone or after others
func reseed(seed uint64, idx int) {
	rand.Seed(int64(seed)*1000003 + int64(idx))
}

func settle(hookN *uint64) {
	for i := 0; i < 500; i++ {
		synctest.Wait()
		before := atomic.LoadUint64(hookN)
		time.Sleep(20 * time.Millisecond)
		synctest.Wait()
		if i >= 1 && atomic.LoadUint64(hookN) == before {
			return
		}
	}
}
