//go:build verif

package conc

import (
	"context"
	"errors"
	"fmt"
	"strings"
	"sync"
	"sync/atomic"
	"testing"
	"testing/synctest"
	"time"

	"github.com/boz/kcache"
	"github.com/boz/kcache/filter"
	metav1 "k8s.io/apimachinery/pkg/apis/meta/v1"
	"k8s.io/apimachinery/pkg/watch"
	"kverif/kv"
)

const refreshPeriod = 1000 * time.Hour

type monLog struct {
	mu      sync.Mutex
	init    *[]kv.Obj
	entries []string // (create O) ...
	block   chan struct{}
	early   int  // event callbacks made before OnInitialize
	inits   int  // calls of OnInitialize
	nilInit bool // OnInitialize was handed a nil slice (the cache never lists nil: only an ignored List error does)
}

type tnode struct {
	id       int
	kind     string // root sub subf subd clone clonef cloned mon
	parent   int
	pub      kcache.Publisher
	ready    <-chan struct{}
	done     <-chan struct{}
	cache    kcache.CacheReader
	events   <-chan kcache.Event
	closefn  func()
	refil    func(filter.Filter) error
	mlog     *monLog
	stalled  bool
	closed   bool // we asked for it (or an ancestor) to be closed
	evclosed bool
	ft       *kv.Term // the filter last given to this node (nil: none yet / a plain node)
	live     *liveReader
}

// liveReader: a consumer that reads its events as they come, at its own (sometimes slow) pace, instead of being
// drained at the quiescent points: reads overlap with publications
type liveReader struct {
	mu     sync.Mutex
	parts  []string
	closed bool
}

func (w *treeWorld) startLive(n *tnode) {
	lr := &liveReader{}
	n.live = lr
	ch := n.events
	id := uint64(n.id)
	go func() {
		var k uint64
		for e := range ch {
			lr.mu.Lock()
			lr.parts = append(lr.parts, kv.L(string(e.Type()), kv.Describe(e.Resource()).Sx()))
			lr.mu.Unlock()
			k++
			atomic.AddUint64(&w.hookN, 1)
			h := (k + id*1000003) * 0x9E3779B97F4A7C15
			h ^= h >> 29
			switch {
			case h%16 == 0:
				// falls behind for a while, then catches up in a hurry
				time.Sleep(time.Duration(1+h%3000) * time.Microsecond)
			case h%3 == 0:
				time.Sleep(time.Duration(1+h%200) * time.Microsecond)
			}
		}
		lr.mu.Lock()
		lr.closed = true
		lr.mu.Unlock()
	}()
}

type treeWorld struct {
	tr      *tracer
	r       *kv.Rand
	srv     *kv.Server
	ctx     context.Context
	cancel  context.CancelFunc
	nodes   []*tnode
	perturb bool
	// a publisher that is held up for a long while (tens of milliseconds) in the middle of a fan-out, now and then
	longPause bool
	asleep    atomic.Int32 // goroutines of the library inside a long pause right now (that is not quiescence)
	pauseNext atomic.Bool  // the next log call of a publisher takes 120 ms
	maxNodes  int
	mode      string
	hookN     uint64
}

func isClosed(ch <-chan struct{}) bool {
	select {
	case <-ch:
		return true
	default:
		return false
	}
}

func treeFilters() []kv.Term {
	return []kv.Term{
		{Op: "null"},
		{Op: "all"},
		{Op: "labels", Map: map[string]string{"l": "1"}},
		{Op: "labelsel", LS: &kv.LabelSel{ML: map[string]string{"l": "1"}}}, // equal to the previous by construction
		{Op: "nsname", IDs: [][2]string{{"a", ""}}},
		{Op: "nsname", IDs: [][2]string{{"a", "x"}, {"b", "x"}}},
		{Op: "fn", N: 0},
		{Op: "not", Kids: []kv.Term{{Op: "labels", Map: map[string]string{"l": "1"}}}},
		{Op: "labelsel", LS: &kv.LabelSel{ME: []kv.LSReq{{Key: "t", Op: "Exists"}}}},
		// the same full id, with and without a namespace-wide entry next to it
		{Op: "nsname", IDs: [][2]string{{"a", "x"}}},
		{Op: "nsname", IDs: [][2]string{{"a", "x"}, {"b", ""}}},
		// no requirement at all, three ways: match nothing, and match everything twice
		{Op: "sel", Sel: "nothing"},
		{Op: "sel", Sel: "everything-nil"},
		{Op: "sel", Sel: "everything"},
	}
}

var treeKeys = [][2]string{{"a", "x"}, {"a", "y"}, {"b", "x"}, {"b", "y"}}
var treeLabels = []map[string]string{nil, {"l": "1"}, {"l": "2", "t": "q"}, {"l": "1", "t": "q"}}

func (w *treeWorld) hook(component, format string) {
	if time.Now().Year() > 2200 {
		panic("virtual time ran away: " + time.Now().String() + " at " + component + " " + format)
	}
	n := atomic.AddUint64(&w.hookN, 1)
	if !w.perturb {
		return
	}
	h := n*0x9E3779B97F4A7C15 ^ uint64(len(component))*31 ^ uint64(len(format))
	h ^= h >> 29
	if strings.HasSuffix(component, "publisher") && w.pauseNext.CompareAndSwap(true, false) {
		w.asleep.Add(1)
		time.Sleep(120 * time.Millisecond)
		w.asleep.Add(-1)
		return
	}
	if w.longPause && strings.HasSuffix(component, "publisher") && h%4 == 0 {
		w.asleep.Add(1)
		time.Sleep(time.Duration(60+h%80) * time.Millisecond)
		w.asleep.Add(-1)
		return
	}
	if h%7 == 0 {
		time.Sleep(time.Duration(1+h%1000) * time.Microsecond)
	}
}

// wait reaches quiescence: everything durably blocked, and no goroutine merely asleep in a
// perturbation hook (virtual time is advanced a little to flush those).
func (w *treeWorld) wait() {
	for {
		settle(&w.hookN)
		if w.asleep.Load() == 0 {
			return
		}
		time.Sleep(20 * time.Millisecond)
	}
}

func (w *treeWorld) srvEvent() {
	k := kv.Pick(w.r, treeKeys)
	key := k[0] + "/" + k[1]
	cur, ok := w.srv.Get(key)
	var t watch.EventType
	var o kv.Obj
	switch {
	case !ok:
		t, o = watch.Added, kv.Obj{Kind: "pod", NS: k[0], Name: k[1], Labels: kv.Pick(w.r, treeLabels)}
	case w.r.Chance(1, 4):
		t, o = watch.Deleted, cur
	default:
		t, o = watch.Modified, kv.Obj{Kind: "pod", NS: k[0], Name: k[1], Labels: kv.Pick(w.r, treeLabels)}
	}
	o = w.srv.Apply(t, o)
	name := map[watch.EventType]string{watch.Added: "create", watch.Modified: "update", watch.Deleted: "delete"}[t]
	w.tr.line(kv.L("srv", name, o.Sx()))
	w.tr.stats["act:srv-"+name]++
}

func (w *treeWorld) publishers() []*tnode {
	var ps []*tnode
	for _, n := range w.nodes {
		if n.pub != nil && !n.closed {
			ps = append(ps, n)
		}
	}
	return ps
}

func (w *treeWorld) attach(kinds []string) {
	ps := w.publishers()
	if len(ps) == 0 || len(w.nodes) >= w.maxNodes {
		return
	}
	w.attachAs(kv.Pick(w.r, ps), kv.Pick(w.r, kinds), kv.Pick(w.r, treeFilters()))
}

func (w *treeWorld) attachAs(p *tnode, kind string, ft kv.Term) {
	n := &tnode{id: len(w.nodes), kind: kind, parent: p.id}
	fsx := "nil"
	var err error
	switch kind {
	case "sub":
		var s kcache.Subscription
		s, err = p.pub.Subscribe()
		if err == nil {
			n.ready, n.done, n.cache, n.events, n.closefn = s.Ready(), s.Done(), s.Cache(), s.Events(), s.Close
		}
	case "subf", "subd":
		var s kcache.FilterSubscription
		if kind == "subf" {
			s, err = p.pub.SubscribeWithFilter(ft.Build())
			fsx = ft.Sx()
		} else {
			s, err = p.pub.SubscribeForFilter()
		}
		if err == nil {
			n.ready, n.done, n.cache, n.events, n.closefn, n.refil = s.Ready(), s.Done(), s.Cache(), s.Events(), s.Close, s.Refilter
		}
	case "clone":
		var c kcache.Controller
		c, err = p.pub.Clone()
		if err == nil {
			n.ready, n.done, n.cache, n.closefn, n.pub = c.Ready(), c.Done(), c.Cache(), c.Close, c
		}
	case "clonef", "cloned":
		var c kcache.FilterController
		if kind == "clonef" {
			c, err = p.pub.CloneWithFilter(ft.Build())
			fsx = ft.Sx()
		} else {
			c, err = p.pub.CloneForFilter()
		}
		if err == nil {
			n.ready, n.done, n.cache, n.closefn, n.pub, n.refil = c.Ready(), c.Done(), c.Cache(), c.Close, c, c.Refilter
		}
	case "mon":
		ml := &monLog{}
		h := kcache.BuildHandler().
			OnInitialize(func(objs []metav1.Object) {
				ml.mu.Lock()
				l := make([]kv.Obj, 0, len(objs))
				for _, o := range objs {
					l = append(l, kv.Describe(o))
				}
				ml.init = &l
				ml.inits++
				if objs == nil {
					ml.nilInit = true
				}
				ml.mu.Unlock()
			}).
			OnCreate(func(o metav1.Object) { ml.add("create", o) }).
			OnUpdate(func(o metav1.Object) { ml.add("update", o) }).
			OnDelete(func(o metav1.Object) { ml.add("delete", o) }).Create()
		var m kcache.Monitor
		var mp kcache.Publisher = p.pub
		if w.r.Chance(1, 2) {
			// a subscription whose accessors are slow: the monitor's goroutine reaches its select late, when
			// readiness and events may both be waiting already
			mp = slowPub{p.pub, time.Duration(1+w.r.Intn(12)) * time.Millisecond}
			w.tr.stats["act:slow-monitor"]++
		}
		m, err = kcache.NewMonitor(mp, h)
		if err == nil {
			n.done, n.closefn, n.mlog = m.Done(), m.Close, ml
		}
	}
	if err != nil {
		w.tr.line(kv.L("attach-error", fmt.Sprint(n.id), fmt.Sprint(p.id), kind))
		return
	}
	if kind == "subf" || kind == "clonef" {
		n.ft = &ft
	}
	if kind == "sub" && (w.mode == "step" || w.mode == "burst") && w.perturb && w.r.Chance(1, 3) {
		w.startLive(n)
	}
	w.nodes = append(w.nodes, n)
	w.tr.line(kv.L("attach", fmt.Sprint(n.id), fmt.Sprint(p.id), kind, fsx))
	w.tr.stats["act:attach-"+kind]++
	if (w.mode == "stall" || w.mode == "overflow") && (n.events != nil || n.mlog != nil) && w.r.Chance(1, 2) {
		n.stalled = true
		if n.mlog != nil {
			n.mlog.mu.Lock()
			n.mlog.block = make(chan struct{})
			n.mlog.mu.Unlock()
		}
		w.tr.line(kv.L("stall", fmt.Sprint(n.id)))
		w.tr.stats["act:stall"]++
	}
}

// slowPub hands the monitor a subscription whose Ready() takes a while the first time it is called.
type slowPub struct {
	kcache.Publisher
	d time.Duration
}

func (p slowPub) Subscribe() (kcache.Subscription, error) {
	s, err := p.Publisher.Subscribe()
	if err != nil {
		return nil, err
	}
	return &slowSub{Subscription: s, d: p.d}, nil
}

type slowSub struct {
	kcache.Subscription
	d    time.Duration
	once sync.Once
}

func (s *slowSub) Ready() <-chan struct{} {
	s.once.Do(func() { time.Sleep(s.d) })
	return s.Subscription.Ready()
}

func (w *treeWorld) release(n *tnode) {
	n.stalled = false
	if n.mlog != nil {
		n.mlog.mu.Lock()
		if n.mlog.block != nil {
			close(n.mlog.block)
			n.mlog.block = nil
		}
		n.mlog.mu.Unlock()
	}
	w.tr.line(kv.L("unstall", fmt.Sprint(n.id)))
}

func (w *treeWorld) unstall() {
	for _, n := range w.nodes {
		if n.stalled && w.r.Chance(1, 2) {
			w.release(n)
			return
		}
	}
}

// sip: a slow consumer — a stalled plain subscriber reads a few of its events and stops again
func (w *treeWorld) sip() {
	var cs []*tnode
	for _, n := range w.nodes {
		if n.stalled && n.kind == "sub" && !n.closed {
			cs = append(cs, n)
		}
	}
	if len(cs) == 0 {
		return
	}
	n := kv.Pick(w.r, cs)
	var parts []string
	for k := 1 + w.r.Intn(kcache.EventBufsiz*2/5+1); k > 0; k-- {
		select {
		case e, ok := <-n.events:
			if !ok {
				k = 0
				break
			}
			parts = append(parts, kv.L(string(e.Type()), kv.Describe(e.Resource()).Sx()))
		default:
			k = 0
		}
	}
	if len(parts) == 0 {
		return
	}
	w.tr.line(kv.L("sip", fmt.Sprint(n.id), kv.L(parts...)))
	w.tr.stats["act:sip"]++
}

// topup: a stalled filtered leaf is brought to within a few slots of a full buffer, refiltered and released: the
// batch of a Refilter is delivered as far as it fits, event by event — the consumer holds the head of the batch
func (w *treeWorld) topup() {
	var cs []*tnode
	for _, n := range w.nodes {
		if n.stalled && n.refil != nil && n.events != nil && !n.closed && (n.kind == "subf" || n.kind == "subd") {
			cs = append(cs, n)
		}
	}
	if len(cs) == 0 {
		return
	}
	n := kv.Pick(w.r, cs)
	target := kcache.EventBufsiz - 1 - w.r.Intn(3)
	if target < 1 {
		return
	}
	for i := 0; i < 40 && len(n.events) < target && !isClosed(n.done); i++ {
		room := target - len(n.events)
		w.step(func() {
			for j := inflight(8); j > 0 && room > 0; j, room = j-1, room-1 {
				w.srvEvent()
			}
		})
	}
	w.step(func() { w.refilterAs(n, kv.Pick(w.r, treeFilters())) })
	w.step(func() { w.release(n) })
	w.tr.stats["act:topup"]++
}

// pausedAttach: a publisher is held up in the middle of a fan-out (its logger blocks for 120 ms); meanwhile somebody
// subscribes, and more changes follow at once: they are published after Subscribe returned
func (w *treeWorld) pausedAttach() {
	ps := w.publishers()
	if len(ps) == 0 || len(w.nodes) >= w.maxNodes {
		return
	}
	w.tr.line(kv.L("burst-begin"))
	w.pauseNext.Store(true)
	w.srvEvent()
	time.Sleep(time.Duration(1+w.r.Intn(20)) * time.Millisecond)
	w.attachAs(kv.Pick(w.r, ps), "sub", kv.Term{Op: "null"})
	for j := inflight(1 + w.r.Intn(3)); j > 0; j-- {
		w.srvEvent()
	}
	w.tr.line(kv.L("burst-end"))
	w.tr.stats["act:paused-attach"]++
}

// lateMonitor: an object leaves a filtered publisher's view (an update its filter rejects), nothing else happens,
// and only then a monitor is attached below: its OnInitialize must not list the object any more
func (w *treeWorld) lateMonitor() {
	if len(w.nodes) >= w.maxNodes {
		return
	}
	type cand struct {
		n *tnode
		o kv.Obj
	}
	var cs []cand
	for _, n := range w.nodes {
		if n.pub == nil || n.closed || n.ft == nil || !isClosed(n.ready) || isClosed(n.done) {
			continue
		}
		l, err := n.cache.List()
		if err != nil {
			continue
		}
		f := n.ft.Build()
		for _, m := range l {
			o := kv.Describe(m)
			for _, ls := range treeLabels {
				alt := kv.Obj{Kind: "pod", NS: o.NS, Name: o.Name, Labels: ls}
				if !f.Accept(alt.Build()) {
					cs = append(cs, cand{n, alt})
				}
			}
		}
	}
	if len(cs) == 0 {
		return
	}
	c := kv.Pick(w.r, cs)
	o := w.srv.Apply(watch.Modified, c.o)
	w.tr.line(kv.L("srv", "update", o.Sx()))
	w.wait() // quiescence, but nobody looks at anything
	w.attachAs(c.n, "mon", kv.Term{Op: "null"})
	w.tr.stats["act:late-monitor"]++
}

// readDuringRefilter: at a quiescent point a reader hammers a filtered node's Cache().List() while the node is
// refiltered: every answer must be the complete content before or the complete content after (a Refilter is one
// atomic step for readers), never something in between
func (w *treeWorld) readDuringRefilter() {
	var cs []*tnode
	for _, n := range w.nodes {
		if n.refil != nil && !n.closed && isClosed(n.ready) && !isClosed(n.done) {
			cs = append(cs, n)
		}
	}
	if len(cs) == 0 {
		return
	}
	n := kv.Pick(w.r, cs)
	before := cacheSx(n.cache)
	var stop atomic.Bool
	seen := map[string]bool{}
	donech := make(chan struct{})
	go func() {
		defer close(donech)
		for i := 0; i < 20000 && !stop.Load(); i++ {
			seen[cacheSx(n.cache)] = true
		}
	}()
	w.refilterAs(n, kv.Pick(w.r, treeFilters()))
	w.wait()
	stop.Store(true)
	<-donech
	after := cacheSx(n.cache)
	bad := ""
	for s := range seen {
		if s != before && s != after {
			bad = s
		}
	}
	if bad != "" {
		w.tr.line(kv.L("refread", fmt.Sprint(n.id), "bad", before, after, bad))
	} else {
		w.tr.line(kv.L("refread", fmt.Sprint(n.id), "ok", before, after, "none"))
	}
	w.tr.stats["act:read-during-refilter"]++
}

// earlySub is a subscription of a home-made publisher: events are already waiting in it, it never becomes ready,
// and then its publisher goes away. A monitor on it must not call anything.
type earlySub struct {
	ready, done chan struct{}
	ev          chan kcache.Event
	once        sync.Once
}

func (s *earlySub) Cache() kcache.CacheReader   { return nil }
func (s *earlySub) Ready() <-chan struct{}      { return s.ready }
func (s *earlySub) Events() <-chan kcache.Event { return s.ev }
func (s *earlySub) Close()                      { s.once.Do(func() { close(s.done); close(s.ev) }) }
func (s *earlySub) Done() <-chan struct{}       { return s.done }
func (s *earlySub) Error() error                { return nil }

type earlyPub struct {
	kcache.Publisher
	sub *earlySub
}

func (p earlyPub) Subscribe() (kcache.Subscription, error) { return p.sub, nil }

// monitorProbe: no callback at all when the publisher shuts down before it became ready — whatever is waiting in
// the subscription by then
func (w *treeWorld) monitorProbe() {
	es := &earlySub{ready: make(chan struct{}), done: make(chan struct{}), ev: make(chan kcache.Event, 8)}
	for i := 1 + w.r.Intn(4); i > 0; i-- {
		es.ev <- kcache.NewEvent(kcache.EventTypeCreate, kv.Obj{Kind: "pod", NS: "a", Name: "x", RV: fmt.Sprint(i)}.Build())
	}
	var calls atomic.Int32
	h := kcache.BuildHandler().
		OnInitialize(func([]metav1.Object) { calls.Add(1) }).
		OnCreate(func(metav1.Object) { calls.Add(1) }).
		OnUpdate(func(metav1.Object) { calls.Add(1) }).
		OnDelete(func(metav1.Object) { calls.Add(1) }).Create()
	m, err := kcache.NewMonitor(earlyPub{sub: es}, h)
	if err != nil {
		return
	}
	if w.r.Chance(1, 2) {
		w.wait()
	}
	es.Close()
	w.wait()
	w.tr.line(kv.L("monprobe", fmt.Sprint(calls.Load()), kv.Bool(isClosed(m.Done()))))
	m.Close()
	w.wait()
	w.tr.stats["act:monitor-probe"]++
}

// fsubProbe: a filtered subscription on a home-made parent that delivers events but never becomes ready: whatever is
// refiltered meanwhile, nothing is cached, nothing is published and Ready() stays open; when the parent goes away
// the subscription is done
func (w *treeWorld) fsubProbe() {
	es := &earlySub{ready: make(chan struct{}), done: make(chan struct{}), ev: make(chan kcache.Event, 8)}
	fs := kcache.VerifNewFilterSubscription(&kv.Log{Hook: w.hook}, es, kv.Pick(w.r, treeFilters()).Build(), w.r.Chance(1, 2))
	if w.r.Chance(2, 3) {
		fs.Refilter(kv.Pick(w.r, treeFilters()).Build())
	}
	for i := 1 + w.r.Intn(4); i > 0; i-- {
		k := kv.Pick(w.r, treeKeys)
		es.ev <- kcache.NewEvent(kcache.EventTypeCreate, kv.Obj{Kind: "pod", NS: k[0], Name: k[1], RV: fmt.Sprint(i), Labels: kv.Pick(w.r, treeLabels)}.Build())
	}
	if w.r.Chance(1, 2) {
		fs.Refilter(kv.Pick(w.r, treeFilters()).Build())
	}
	w.wait()
	cached := -1
	if l, err := fs.Cache().List(); err == nil {
		cached = len(l)
	}
	ready, events := isClosed(fs.Ready()), len(fs.Events())
	es.Close()
	w.wait()
	w.tr.line(kv.L("fsubprobe", kv.Bool(ready), fmt.Sprint(events), fmt.Sprint(cached), kv.Bool(isClosed(fs.Done()))))
	fs.Close()
	w.wait()
	w.tr.stats["act:fsub-probe"]++
}

// flood: up to EventBufsiz/4 server events without waiting in between
func (w *treeWorld) flood() {
	for j := inflight(10 + w.r.Intn(15)); j > 0; j-- {
		w.srvEvent()
	}
}

// burst: several actions in flight at once (no quiescence in between)
func (w *treeWorld) burst(kinds []string) {
	w.tr.line(kv.L("burst-begin"))
	for j := inflight(2 + w.r.Intn(4)); j > 0; j-- {
		switch x := w.r.Intn(100); {
		case x < 50:
			w.srvEvent()
		case x < 62:
			w.refilter()
		case x < 67:
			w.refilterVolley()
		case x < 70:
			w.attachRefilterEqual()
		case x < 82:
			w.closeNode()
		case x < 94:
			w.attach(kinds)
		default:
			w.relist()
		}
	}
	w.tr.line(kv.L("burst-end"))
	w.tr.stats["act:burst"]++
}

func (ml *monLog) add(t string, o metav1.Object) {
	ml.mu.Lock()
	ml.entries = append(ml.entries, kv.L(t, kv.Describe(o).Sx()))
	if ml.init == nil {
		ml.early++
	}
	block := ml.block
	ml.mu.Unlock()
	if block != nil {
		<-block // a handler that does not return (stalled consumer)
	}
}

func (w *treeWorld) refilter() {
	var cs []*tnode
	for _, n := range w.nodes {
		if n.refil != nil && !n.closed {
			cs = append(cs, n)
		}
	}
	if len(cs) == 0 {
		return
	}
	w.refilterAs(kv.Pick(w.r, cs), kv.Pick(w.r, treeFilters()))
}

// attachRefilterEqual: a filtered subscription / clone is created and at once refiltered with an EQUAL filter
// (a no-op by C07) — while its parent's readiness may not have been noticed yet
func (w *treeWorld) attachRefilterEqual() {
	ps := w.publishers()
	if len(ps) == 0 || len(w.nodes) >= w.maxNodes {
		return
	}
	ft := kv.Pick(w.r, treeFilters())
	if ft.Op == "fn" {
		return // opaque predicates are never equal
	}
	before := len(w.nodes)
	w.attachAs(kv.Pick(w.r, ps), kv.Pick(w.r, []string{"subf", "clonef"}), ft)
	if len(w.nodes) == before {
		return
	}
	n := w.nodes[len(w.nodes)-1]
	for i := 1 + w.r.Intn(2); i > 0; i-- {
		w.refilterAs(n, ft)
	}
	w.tr.stats["act:attach-refilter-equal"]++
}

// refilterVolley: Refilter A, B, A, ... on one node back to back (the last call must win)
func (w *treeWorld) refilterVolley() {
	var cs []*tnode
	for _, n := range w.nodes {
		if n.refil != nil && !n.closed {
			cs = append(cs, n)
		}
	}
	if len(cs) == 0 {
		return
	}
	n := kv.Pick(w.r, cs)
	fs := treeFilters()
	a, b := kv.Pick(w.r, fs), kv.Pick(w.r, fs)
	for i := 2 + w.r.Intn(3); i > 0; i-- {
		w.refilterAs(n, a)
		a, b = b, a
	}
	w.tr.stats["act:refilter-volley"]++
}

func (w *treeWorld) refilterAs(n *tnode, ft kv.Term) {
	n.ft = &ft
	w.tr.line(kv.L("refilter", fmt.Sprint(n.id), ft.Sx()))
	n.refil(ft.Build())
	w.tr.stats["act:refilter"]++
}

func (w *treeWorld) markClosed(id int) {
	for _, n := range w.nodes {
		if n.id == id || (n.id != 0 && n.parent == id && n.id > id) {
			if !n.closed {
				n.closed = true
				if n.id != id {
					w.markClosed(n.id)
				}
			}
		}
	}
}

func (w *treeWorld) closeNode() {
	var cs []*tnode
	for _, n := range w.nodes {
		if n.id != 0 && !n.closed {
			cs = append(cs, n)
		}
	}
	if len(cs) == 0 {
		return
	}
	n := kv.Pick(w.r, cs)
	w.tr.line(kv.L("close", fmt.Sprint(n.id)))
	n.closefn()
	w.markClosed(n.id)
	w.tr.stats["act:close"]++
}

func (w *treeWorld) relist() {
	w.tr.line(kv.L("relist"))
	time.Sleep(refreshPeriod + refreshPeriod/8)
	w.tr.stats["act:relist"]++
}

func cacheSx(c kcache.CacheReader) string {
	if c == nil {
		return "none"
	}
	l, err := c.List()
	if err != nil {
		return "err"
	}
	return kv.SortedObjs(l)
}

func (w *treeWorld) observe() {
	// the monitors first: what a handler was given is judged before (and whether or not) the listing of the cache
	// it came from is
	for _, n := range w.nodes {
		if n.kind == "mon" {
			n.mlog.mu.Lock()
			init := "none"
			if n.mlog.init != nil {
				ds := append([]kv.Obj(nil), *n.mlog.init...)
				init = kv.SortedObjs(kv.BuildAll(ds))
			}
			log := kv.L(n.mlog.entries...)
			n.mlog.entries = nil
			early, inits, nilInit := n.mlog.early, n.mlog.inits, n.mlog.nilInit
			n.mlog.mu.Unlock()
			w.tr.line(kv.L("monobs", fmt.Sprint(n.id), kv.Bool(isClosed(n.done)), init, log, fmt.Sprint(early), fmt.Sprint(inits), kv.Bool(nilInit)))
		}
	}
	for _, n := range w.nodes {
		if n.kind == "mon" {
			continue
		}
		evs := "none"
		if n.events != nil {
			evs = "stalled"
			if n.live != nil {
				n.live.mu.Lock()
				evs = kv.L(n.live.parts...)
				n.live.parts = nil
				n.evclosed = n.live.closed
				n.live.mu.Unlock()
			} else if !n.stalled {
				var parts []string
			drain:
				for {
					select {
					case e, ok := <-n.events:
						if !ok {
							n.evclosed = true
							break drain
						}
						parts = append(parts, kv.L(string(e.Type()), kv.Describe(e.Resource()).Sx()))
					default:
						break drain
					}
				}
				evs = kv.L(parts...)
			}
		}
		w.tr.line(kv.L("obs", fmt.Sprint(n.id), kv.Bool(isClosed(n.ready)), kv.Bool(isClosed(n.done)), cacheSx(n.cache), evs, kv.Bool(n.evclosed)))
		w.tr.stats["obs"]++
	}
}

// apiProbe issues every API call of node n in goroutines of their own and reports, at the next quiescent
// point, whether each returned (C12: an API call returns ErrNotRunning or a result instead of blocking) and
// whether an object obtained from a stopping publisher is itself shut down.
type apiResult struct {
	name     string
	returned atomic.Bool
	err      error
	done     <-chan struct{}
}

func (w *treeWorld) apiProbe(n *tnode) []*apiResult {
	var rs []*apiResult
	run := func(name string, f func(r *apiResult)) {
		r := &apiResult{name: name}
		rs = append(rs, r)
		go func() { f(r); r.returned.Store(true) }()
	}
	if n.pub != nil {
		p := n.pub
		run("Subscribe", func(r *apiResult) {
			s, err := p.Subscribe()
			r.err = err
			if err == nil {
				r.done = s.Done()
			}
		})
		run("SubscribeWithFilter", func(r *apiResult) {
			s, err := p.SubscribeWithFilter(filter.Null())
			r.err = err
			if err == nil {
				r.done = s.Done()
			}
		})
		run("SubscribeForFilter", func(r *apiResult) {
			s, err := p.SubscribeForFilter()
			r.err = err
			if err == nil {
				r.done = s.Done()
			}
		})
		run("Clone", func(r *apiResult) {
			c, err := p.Clone()
			r.err = err
			if err == nil {
				r.done = c.Done()
			}
		})
		run("CloneWithFilter", func(r *apiResult) {
			c, err := p.CloneWithFilter(filter.Null())
			r.err = err
			if err == nil {
				r.done = c.Done()
			}
		})
		run("CloneForFilter", func(r *apiResult) {
			c, err := p.CloneForFilter()
			r.err = err
			if err == nil {
				r.done = c.Done()
			}
		})
	}
	if n.refil != nil {
		w.tr.line(kv.L("refilter", fmt.Sprint(n.id), kv.Term{Op: "null"}.Sx()))
		run("Refilter", func(r *apiResult) { r.err = n.refil(filter.Null()) })
	}
	if n.cache != nil {
		run("List", func(r *apiResult) { _, r.err = n.cache.List() })
		run("Get", func(r *apiResult) { _, r.err = n.cache.Get("a", "x") })
	}
	if n.closefn != nil {
		run("Close", func(r *apiResult) { n.closefn() })
	}
	return rs
}

func (w *treeWorld) reportAPI(id int, phase string, rs []*apiResult) {
	for _, r := range rs {
		errs := "nil"
		if r.err != nil {
			errs = "other"
			if errors.Is(r.err, kcache.ErrNotRunning) {
				errs = "ErrNotRunning"
			}
		}
		objdone := "none"
		if r.done != nil {
			objdone = kv.Bool(isClosed(r.done))
		}
		w.tr.line(kv.L("api", fmt.Sprint(id), phase, r.name, kv.Bool(r.returned.Load()), errs, objdone))
		w.tr.stats["api"]++
	}
}

func (w *treeWorld) step(f func()) {
	f()
	if !w.perturb {
		// no sleeps injected: once every goroutine is durably blocked, and before any virtual time has passed,
		// every healthy leaf must already hold whatever this step delivers to it
		synctest.Wait()
		for _, n := range w.nodes {
			if n.events != nil && !n.stalled && !n.closed && n.live == nil {
				w.tr.line(kv.L("instant", fmt.Sprint(n.id), fmt.Sprint(len(n.events))))
			}
		}
	}
	w.wait()
	w.observe()
}

func runTreeScenario(t *testing.T, tr *tracer, idx int, seed uint64, mode string) {
	synctest.Test(t, func(t *testing.T) {
		reseed(seed, idx) // the library's own randomness (ticker fuzz) follows the scenario's seed
		r := kv.NewRand(seed*1000003 + uint64(idx))
		if mode == "" {
			mode = "step,step,burst,burst,stall,overflow"
		}
		modes := strings.Split(mode, ",")
		mode = modes[r.Intn(len(modes))]
		c15 := mode == "c15"
		if c15 {
			mode = "step" // step scenarios in which most Refilters are read through while they are applied
		}
		w := &treeWorld{tr: tr, r: r, srv: kv.NewServer(), perturb: r.Chance(2, 3), mode: mode}
		w.longPause = w.perturb && (mode == "step" || mode == "burst") && r.Chance(1, 5)
		w.maxNodes = 9
		if r.Chance(1, 8) {
			// a long-lived cluster: resource versions beyond 32 bits
			w.srv.StartAt(1<<31 + r.Intn(1000))
		}
		w.ctx, w.cancel = context.WithCancel(context.Background())
		tr.line(kv.L("scenario", fmt.Sprint(idx), mode))
		if mode == "c07" {
			for b, k := range treeKeys {
				if idx&(1<<b) != 0 {
					o := w.srv.Apply(watch.Added, kv.Obj{Kind: "pod", NS: k[0], Name: k[1], Labels: treeLabels[(idx/16+b)%len(treeLabels)]})
					tr.line(kv.L("srv", "create", o.Sx()))
				}
			}
		} else {
			for i := r.Intn(4); i > 0; i-- {
				w.srvEvent()
			}
		}
		gated := r.Chance(1, 2) && mode != "c07"
		if gated {
			w.srv.ListGate = make(chan struct{})
		}
		rootF := kv.Term{Op: "null"}
		if r.Chance(1, 3) && mode != "c07" {
			rootF = kv.Pick(r, treeFilters())
		}
		b := kcache.NewBuilder().Context(w.ctx).Log(&kv.Log{Hook: w.hook}).Filter(rootF.Build()).Client(w.srv)
		b.Lister().RefreshPeriod(refreshPeriod)
		root, err := b.Create()
		if err != nil {
			t.Fatal(err)
		}
		w.nodes = append(w.nodes, &tnode{id: 0, kind: "root", pub: root, ready: root.Ready(), done: root.Done(), cache: root.Cache(), closefn: root.Close, ft: &rootF})
		tr.line(kv.L("start", rootF.Sx(), kv.Bool(gated)))
		w.wait()
		w.observe()
		kinds := []string{"sub", "subf", "subd", "clone", "clonef", "cloned", "mon"}
		if r.Chance(1, 8) {
			w.monitorProbe()
		}
		if r.Chance(1, 8) {
			w.fsubProbe()
		}
		if gated {
			for i := r.Intn(5); i > 0; i-- {
				switch r.Intn(4) {
				case 0:
					w.step(w.refilter)
				case 1:
					w.step(w.srvEvent) // server changes before the first list completes
				default:
					w.step(func() { w.attach(kinds) })
				}
			}
			if r.Chance(1, 4) {
				// readiness and shutdown at (virtually) the same instant, with a monitor waiting for readiness
				w.step(func() { w.attachAs(w.nodes[0], "mon", kv.Term{Op: "null"}) })
				closeNow := r.Chance(1, 2)
				w.step(func() {
					tr.line(kv.L("burst-begin"))
					tr.line(kv.L("release"))
					close(w.srv.ListGate)
					if closeNow {
						tr.line(kv.L("closeroot"))
						root.Close()
					} else {
						tr.line(kv.L("cancel"))
						w.cancel()
					}
					tr.line(kv.L("burst-end"))
					for _, n := range w.nodes {
						n.closed = true
					}
				})
			} else if (mode == "step" || mode == "burst") && r.Chance(1, 2) {
				// (not with stalled consumers: what such a node received is compared only when it is released, long after
				// the round in which event-or-content was the schedule's choice)
				// the first list completes and changes follow in the same instant: nodes with a Refilter waiting for
				// the parent's readiness see the readiness and the first events together
				w.step(func() {
					tr.line(kv.L("burst-begin"))
					tr.line(kv.L("release"))
					w.srv.Freeze() // the list answers with the state of this instant: what follows comes by the watch
					close(w.srv.ListGate)
					for j := inflight(1 + r.Intn(3)); j > 0; j-- {
						w.srvEvent()
					}
					tr.line(kv.L("burst-end"))
				})
			} else {
				w.step(func() {
					tr.line(kv.L("release"))
					close(w.srv.ListGate)
				})
			}
		}
		if (mode == "step" || mode == "burst") && !w.nodes[0].closed && r.Chance(1, 10) {
			// a wide publisher: many subscriptions on one node (the root or a clone of it)
			w.maxNodes = 16
			p := w.nodes[0]
			if r.Chance(1, 2) {
				before := len(w.nodes)
				w.step(func() { w.attachAs(w.nodes[0], "clone", kv.Term{Op: "null"}) })
				if len(w.nodes) > before {
					p = w.nodes[len(w.nodes)-1]
				}
			}
			for i := 8 + r.Intn(3); i > 0; i-- {
				w.step(func() { w.attachAs(p, "sub", kv.Term{Op: "null"}) })
			}
			w.tr.stats["act:wide"]++
		}
		steps := 8 + r.Intn(14)
		if mode == "c12" {
			steps = 0
		}
		if mode == "c07" {
			// exhaustive family: contents x (f1, f2, f3); every filtered kind, Refilter at quiescence
			fs := treeFilters()
			f1, f2 := fs[(idx/16)%len(fs)], fs[(idx/(16*len(fs)))%len(fs)]
			f3 := f1
			if (idx/(16*len(fs)*len(fs)))%2 == 1 {
				f3 = fs[(idx/(32*len(fs)*len(fs)))%len(fs)]
			}
			rootN := w.nodes[0]
			w.step(func() { w.attachAs(rootN, "subf", f1) })
			w.step(func() { w.attachAs(rootN, "clonef", f1) })
			w.step(func() { w.attachAs(w.nodes[2], "sub", f1) })
			w.step(func() { w.attachAs(rootN, "subd", f1) })
			w.step(func() { w.refilterAs(w.nodes[4], f1) })
			for _, f := range []kv.Term{f2, f3, f2} {
				for _, id := range []int{1, 2, 4} {
					w.step(func() { w.refilterAs(w.nodes[id], f) })
				}
				if r.Chance(1, 3) {
					w.step(w.srvEvent)
				}
			}
			steps = 0
		}
		if mode == "overflow" {
			// a few consumers, some of them stalled, and a stream several times the buffer size, paced
			// in floods of at most EventBufsiz/4 events; stalled nodes are closed or released at the end
			for i := 2 + r.Intn(4); i > 0; i-- {
				w.step(func() { w.attach(kinds) })
			}
			floods := 7 + r.Intn(8)
			for i := 0; i < floods; i++ {
				w.step(w.flood)
				if r.Chance(1, 6) {
					w.step(func() { w.attach(kinds) })
				}
				if r.Chance(1, 6) {
					w.step(w.refilter)
				}
				if r.Chance(1, 4) {
					w.step(w.sip)
				}
			}
			if r.Chance(1, 2) {
				w.topup()
			}
			if r.Chance(1, 2) {
				w.step(w.closeNode)
				w.step(w.flood)
			}
			if r.Chance(1, 2) {
				w.step(w.unstall)
				w.step(w.flood)
			}
			steps = 0
		}
		for i := 0; i < steps; i++ {
			if mode == "burst" && r.Chance(1, 2) {
				if w.perturb && r.Chance(1, 6) {
					w.step(w.pausedAttach)
					continue
				}
				w.step(func() { w.burst(kinds) })
				continue
			}
			if mode == "stall" && r.Chance(1, 2) {
				if r.Chance(1, 8) {
					w.step(w.unstall)
				} else if r.Chance(1, 6) {
					w.step(w.sip)
				} else {
					w.step(w.flood)
				}
				continue
			}
			switch x := r.Intn(100); {
			case x < 3 && mode == "step":
				w.step(w.lateMonitor)
			case (x < 8 || (c15 && x < 45)) && mode == "step":
				w.step(w.readDuringRefilter)
			case x < 38:
				w.step(w.srvEvent)
			case x < 62:
				w.step(func() { w.attach(kinds) })
			case x < 82:
				w.step(w.refilter)
			case x < 88:
				w.step(w.closeNode)
			case x < 93:
				w.step(w.relist)
			default:
				// a burst: several server events without waiting in between
				w.step(func() {
					for j := inflight(2 + r.Intn(3)); j > 0; j-- {
						w.srvEvent()
					}
				})
			}
		}
		if mode == "c12" {
			// shutdown-point enumeration: the trigger is fired after step (idx % 14) of a workload that is the
			// same for 14 consecutive scenarios; API calls race with it and are repeated after it
			wr := kv.NewRand(seed*977 + uint64(idx/14))
			w.r = wr
			point := idx % 14
			for i := 0; i < point; i++ {
				switch x := wr.Intn(100); {
				case x < 40:
					w.step(w.srvEvent)
				case x < 70:
					w.step(func() { w.attach(kinds) })
				case x < 85:
					w.step(w.refilter)
				case x < 92:
					w.step(w.relist)
				default:
					w.step(func() { w.burst(kinds) })
				}
			}
			w.r = r
			trigger := (idx / 14) % 3
			var racing [][]*apiResult
			var ids []int
			tr.line(kv.L("burst-begin"))
			if r.Chance(1, 2) {
				// a node closed on its own and changes still on their way when the root goes down
				w.closeNode()
				for j := inflight(1 + r.Intn(3)); j > 0; j-- {
					w.srvEvent()
				}
			}
			for _, n := range w.nodes {
				if r.Chance(1, 2) {
					racing = append(racing, w.apiProbe(n))
					ids = append(ids, n.id)
				}
			}
			switch trigger {
			case 0:
				tr.line(kv.L("closeroot"))
				go root.Close()
			case 1:
				tr.line(kv.L("closeroot"))
				for i := 0; i < 4; i++ {
					go root.Close()
				}
			default:
				tr.line(kv.L("cancel"))
				w.cancel()
			}
			tr.line(kv.L("burst-end"))
			for _, n := range w.nodes {
				n.closed = true
				if n.stalled {
					w.release(n)
				}
			}
			w.wait()
			w.observe()
			for i, rs := range racing {
				w.reportAPI(ids[i], "racing", rs)
			}
			var after [][]*apiResult
			for _, n := range w.nodes {
				after = append(after, w.apiProbe(n))
			}
			w.wait()
			for i, rs := range after {
				w.reportAPI(w.nodes[i].id, "after", rs)
			}
			w.cancel()
			time.Sleep(5 * time.Second)
			synctest.Wait()
			tr.line(kv.L("end"))
			tr.stats["scenarios"]++
			return
		}
		// shut down: Close or context cancellation; everything must finish (synctest fails the run
		// if a goroutine of the bubble stays blocked)
		if r.Chance(1, 2) {
			tr.line(kv.L("closeroot"))
			root.Close()
		} else {
			tr.line(kv.L("cancel"))
			w.cancel()
		}
		for _, n := range w.nodes {
			n.closed = true
			if n.stalled {
				w.release(n)
			}
		}
		w.wait()
		w.observe()
		w.cancel()
		// virtual time stops when the bubble's main goroutine exits: let pending timers run out first
		time.Sleep(5 * time.Second)
		synctest.Wait()
		tr.line(kv.L("end"))
		tr.stats["scenarios"]++
	})
}

func engineTree(t *testing.T, tr *tracer) {
	n := 600
	if *flagTier == "thorough" {
		n = 12000
	}
	if *flagN > 0 {
		n = *flagN
	}
	for i := 0; i < n; i++ {
		if *flagOnly >= 0 && i != *flagOnly {
			continue
		}
		tr.pending(kv.L("scenario", fmt.Sprint(i), *flagMode))
		runTreeScenario(t, tr, i, *flagSeed, *flagMode)
	}
}
