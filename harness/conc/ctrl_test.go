//go:build verif

package conc

import (
	"context"
	"errors"
	"fmt"
	pkgerrors "github.com/pkg/errors"
	"strings"
	"sync/atomic"
	"testing"
	"testing/synctest"
	"time"

	"github.com/boz/kcache"
	corev1 "k8s.io/api/core/v1"
	metav1 "k8s.io/apimachinery/pkg/apis/meta/v1"
	"k8s.io/apimachinery/pkg/runtime"
	"k8s.io/apimachinery/pkg/watch"
	"kverif/kv"
)

// ctrl engine: the real controller against the fake API server with watch/list faults and virtual time.

type ctrlWorld struct {
	tr            *tracer
	r             *kv.Rand
	srv           *kv.Server
	ctx           context.Context
	cancel        context.CancelFunc
	root          kcache.Controller
	sub           kcache.Subscription
	period        time.Duration
	perturb       bool
	hookN         uint64
	start         time.Time
	nLists        int
	nWatch        int
	watchErrs     int  // next k Watch calls fail
	watchBlock    bool // next Watch call blocks until cancelled
	listFaultAt   int
	listFaultKind string
	slowSync      bool // the sync of list listFaultAt-1 takes 2.5 periods (a slow filter)
	slowArmed     atomic.Bool
	busy          atomic.Bool // the slow filter is asleep inside the library right now
	overflow      bool        // a burst of more than EventBufsiz changes arrives while the controller is busy in a sync
	backlog       int         // server changes since the watch was last seen connected at a quiescent point
	keys          [][2]string // the object universe (four keys, or twelve: larger relist diffs)
}

var errListFault = errors.New("fake server: list fault")

var canceledN int

func (w *ctrlWorld) hook(component, format string) {
	if time.Now().Year() > 2200 {
		panic("virtual time ran away: " + time.Now().String() + " at " + component + " " + format)
	}
	n := atomic.AddUint64(&w.hookN, 1)
	if !w.perturb {
		return
	}
	h := n*0x9E3779B97F4A7C15 ^ uint64(len(component))*31 ^ uint64(len(format))
	h ^= h >> 29
	if h%5 == 0 {
		time.Sleep(time.Duration(1+h%2000) * time.Microsecond)
	}
}

// wait reaches quiescence. A collaborator that is asleep on purpose (the slow filter of the busy-controller and
// overflow flavours) is not quiescence: the controller is in the middle of an operation.
func (w *ctrlWorld) wait() {
	for {
		settle(&w.hookN)
		if !w.busy.Load() {
			return
		}
		time.Sleep(100 * time.Millisecond)
	}
}

func (w *ctrlWorld) now() string { return fmt.Sprint(time.Since(w.start).Milliseconds()) }

func (w *ctrlWorld) srvEvent() {
	// what one reconnect replays at once stays within the backlog bound of the properties (EventBufsiz/4):
	// overflow of the watch buffers is a fault of C03's kind ("lost or overflowed events"), repaired by the relist
	if w.backlog >= inflight(1<<30) {
		return
	}
	w.backlog++
	keys := w.keys
	if keys == nil {
		keys = treeKeys
	}
	k := kv.Pick(w.r, keys)
	key := k[0] + "/" + k[1]
	cur, ok := w.srv.Get(key)
	var t watch.EventType
	var o kv.Obj
	switch {
	case !ok:
		t, o = watch.Added, kv.Obj{Kind: "pod", NS: k[0], Name: k[1], Labels: kv.Pick(w.r, treeLabels)}
	case w.r.Chance(1, 4):
		t, o = watch.Deleted, cur
	default:
		t, o = watch.Modified, kv.Obj{Kind: "pod", NS: k[0], Name: k[1], Labels: kv.Pick(w.r, treeLabels)}
	}
	o = w.srv.Apply(t, o)
	name := map[watch.EventType]string{watch.Added: "create", watch.Modified: "update", watch.Deleted: "delete"}[t]
	w.tr.line(kv.L("srv", name, o.Sx()))
	w.tr.stats["act:srv-"+name]++
}

func listFault(kind string) (runtime.Object, error) {
	switch kind {
	case "error":
		return nil, errListFault
	case "errorlist":
		// the way client-go's typed clients fail: a (usable, empty) list object together with the error
		return kv.PodList(nil, "0"), errListFault
	case "canceled":
		// a transport-level abort: the error is context.Canceled although nobody is shutting down — bare, wrapped the
		// standard way, or wrapped with pkg/errors (whose Cause() sees through its own wrapping only)
		canceledN++
		switch canceledN % 3 {
		case 0:
			return nil, context.Canceled
		case 1:
			return nil, pkgerrors.Wrap(context.Canceled, "fake server: request aborted")
		}
		return nil, fmt.Errorf("fake server: request aborted: %w", context.Canceled)
	case "nil":
		return nil, nil
	case "nonlist":
		return &corev1.Pod{}, nil
	case "status":
		return &metav1.Status{Status: "Failure"}, nil
	case "nonobjects":
		return &metav1.List{ListMeta: metav1.ListMeta{ResourceVersion: "1"}, Items: []runtime.RawExtension{{Object: &runtime.Unknown{}}}}, nil
	case "nilitem":
		// a generic list with an empty item (neither Object nor Raw) next to a good one
		return &metav1.List{ListMeta: metav1.ListMeta{ResourceVersion: "1"}, Items: []runtime.RawExtension{
			{Object: kv.Obj{Kind: "pod", NS: "a", Name: "x", RV: "1"}.Build().(runtime.Object)}, {}}}, nil
	case "rawitem":
		// … and with an undecoded one
		return &metav1.List{ListMeta: metav1.ListMeta{ResourceVersion: "1"}, Items: []runtime.RawExtension{
			{Object: kv.Obj{Kind: "pod", NS: "a", Name: "x", RV: "1"}.Build().(runtime.Object)}, {Raw: []byte(`{"kind":"Foo"}`)}}}, nil
	}
	panic("listFault " + kind)
}

func errClass(err error) string {
	switch {
	case err == nil:
		return "nil"
	case strings.Contains(err.Error(), "still running"):
		return "running"
	case errors.Is(err, errListFault) || strings.Contains(err.Error(), errListFault.Error()):
		return "list-error"
	case strings.Contains(err.Error(), "Invalid type") || strings.Contains(err.Error(), "extracting list") || strings.Contains(err.Error(), "resource version"):
		return "list-invalid"
	case strings.Contains(err.Error(), "context canceled"):
		return "canceled"
	}
	// one atom: the driver reads the class, the message is for the reader of a replay
	return "other:" + strings.Map(func(r rune) rune {
		if r == ' ' || r == '(' || r == ')' || r == '"' || r == '\n' || r == '\t' {
			return '_'
		}
		return r
	}, err.Error())
}

func (w *ctrlWorld) observe() {
	// reading the cache waits for a sync in progress (a slow filter keeps the controller busy): everything
	// else is looked at after that, and after whatever the controller had pending has settled
	cache := cacheSx(w.root.Cache())
	if w.slowSync || w.overflow {
		// the slow sync may begin during any of these waits (the relist is due within the period's fuzz);
		// it happens once, so the third read cannot block
		for i := 0; i < 3; i++ {
			w.wait()
			cache = cacheSx(w.root.Cache())
		}
	}
	evs := "()"
	evclosed := false
	if w.sub != nil {
		var parts []string
	drain:
		for {
			select {
			case e, ok := <-w.sub.Events():
				if !ok {
					evclosed = true
					break drain
				}
				parts = append(parts, kv.L(string(e.Type()), kv.Describe(e.Resource()).Sx()))
			default:
				break drain
			}
		}
		evs = kv.L(parts...)
	}
	// calls made since the last observation
	var calls []string
	w.srv.Mu(func() {
		for ; w.nLists < len(w.srv.Lists); w.nLists++ {
			c := w.srv.Lists[w.nLists]
			if c.Done.IsZero() {
				// still in flight: reported once it has returned
				calls = append(calls, kv.L("listing", fmt.Sprint(c.At.Sub(w.start).Milliseconds())))
				break
			}
			calls = append(calls, kv.L("list", fmt.Sprint(c.At.Sub(w.start).Milliseconds()), fmt.Sprint(c.Done.Sub(w.start).Milliseconds()), kv.Atom(c.RV)))
		}
		for ; w.nWatch < len(w.srv.Watches); w.nWatch++ {
			c := w.srv.Watches[w.nWatch]
			calls = append(calls, kv.L("watch", fmt.Sprint(c.At.Sub(w.start).Milliseconds()), kv.Atom(c.RV)))
		}
	})
	subdone := "none"
	if w.sub != nil {
		subdone = kv.Bool(isClosed(w.sub.Done()))
	}
	if len(w.srv.LiveWatches()) > 0 {
		w.backlog = 0
	}
	w.tr.line(kv.L("cobs", w.now(), kv.Bool(isClosed(w.root.Ready())), kv.Bool(isClosed(w.root.Done())), errClass(w.root.Error()),
		cache, evs, kv.Bool(evclosed), subdone, fmt.Sprint(len(w.srv.LiveWatches())), fmt.Sprint(w.srv.MaxActive), kv.L(calls...)))
	w.tr.stats["obs"]++
}

func (w *ctrlWorld) step(name string, f func()) {
	w.tr.stats["act:"+name]++
	f()
	w.wait()
	w.observe()
}

func (w *ctrlWorld) advance(d time.Duration) {
	w.tr.line(kv.L("advance", fmt.Sprint(d.Milliseconds())))
	time.Sleep(d)
}

func (w *ctrlWorld) inject(kind string) {
	ws := w.srv.LiveWatches()
	if len(ws) == 0 {
		return
	}
	sw := ws[len(ws)-1]
	switch kind {
	case "status":
		sw.Inject(watch.Event{Type: watch.Error, Object: &metav1.Status{Status: "Failure", Message: "injected"}})
	case "bookmark":
		_, rv := w.srv.State()
		sw.Inject(watch.Event{Type: watch.Bookmark, Object: &corev1.Pod{ObjectMeta: metav1.ObjectMeta{ResourceVersion: fmt.Sprint(rv)}}})
	case "nonobject":
		sw.Inject(watch.Event{Type: watch.Added, Object: &runtime.Unknown{}})
	case "error-object":
		// an ERROR frame that carries an API object instead of a Status: skipped like any frame of unknown type
		sw.Inject(watch.Event{Type: watch.Error, Object: &corev1.Pod{ObjectMeta: metav1.ObjectMeta{Namespace: "a", Name: "x", ResourceVersion: "1"}}})
	case "error-nil":
		// … and one that carries nothing: the stream is given up like after any non-object frame
		sw.Inject(watch.Event{Type: watch.Error})
	case "close":
		sw.CloseStream()
	case "replay-delete":
		// the server repeats an old DELETED frame for an object that exists (again): the cache drops it
		// (deletes are applied whatever their version), and only the next list can bring it back
		objs, _ := w.srv.State()
		if len(objs) == 0 {
			return
		}
		o := kv.Pick(w.r, objs)
		sw.Inject(watch.Event{Type: watch.Deleted, Object: o.Build().(runtime.Object)})
		w.tr.line(kv.L("inject", kind, o.Sx()))
		return
	}
	w.tr.line(kv.L("inject", kind))
}

func runCtrlScenario(t *testing.T, tr *tracer, idx int, seed uint64, mode string) {
	synctest.Test(t, func(t *testing.T) {
		reseed(seed, idx) // the library's own randomness (ticker fuzz) follows the scenario's seed
		r := kv.NewRand(seed*7000003 + uint64(idx))
		w := &ctrlWorld{tr: tr, r: r, srv: kv.NewServer(), perturb: r.Chance(2, 3), start: time.Now()}
		w.ctx, w.cancel = context.WithCancel(context.Background())
		if w.perturb {
			// the scheduling point before every publication of the controller: a goroutine that publishes may be
			// descheduled there for a while (the order of publication must not depend on it)
			yield := func(site string) {
				n := atomic.AddUint64(&w.hookN, 1)
				h := n*0xD6E8FEB86659FD93 ^ uint64(len(site))
				h ^= h >> 31
				switch {
				case h%16 == 0:
					time.Sleep(time.Duration(1+h%5000) * time.Microsecond)
				case h%2 == 0:
					time.Sleep(time.Duration(1+h%400) * time.Microsecond)
				}
			}
			kcache.VerifYield.Store(&yield)
			defer kcache.VerifYield.Store(nil)
		}
		switch mode {
		case "c04":
			w.period = 10000 * time.Hour // only the watch can deliver
		default:
			w.period = kv.Pick(r, []time.Duration{10 * time.Second, time.Minute, time.Hour, 10000 * time.Hour})
		}
		if mode == "c14" || (mode == "" && r.Chance(1, 6)) {
			w.listFaultAt = 1 + r.Intn(4)
			w.listFaultKind = kv.Pick(r, []string{"error", "errorlist", "canceled", "nil", "nonlist", "status", "nonobjects", "nilitem", "rawitem"})
		}
		if mode == "c14" && w.listFaultAt >= 2 && r.Chance(1, 2) {
			// the controller is busy (a filter that takes 2.5 periods during one sync) while the failing list and
			// the one after it would be due: the failure must still be delivered
			w.slowSync = true
			w.period = kv.Pick(r, []time.Duration{10 * time.Second, time.Minute})
		}
		if r.Chance(1, 4) {
			w.keys = [][2]string{{"a", "x"}, {"a", "y"}, {"b", "x"}, {"b", "y"}, {"a", "z"}, {"b", "z"}, {"a", "w"}, {"b", "w"}, {"c", "x"}, {"c", "y"}, {"c", "z"}, {"c", "w"}}
		}
		w.srv.RVStep = 1 + r.Intn(3)
		if r.Chance(1, 8) {
			// a long-lived cluster: resource versions beyond 32 bits
			w.srv.StartAt(1<<31 + r.Intn(1000))
		}
		w.srv.StaleList = r.Chance(1, 3) // a slow or gated list answers with what the server held when it was asked
		emptyRV := mode == "" && !w.slowSync && w.listFaultAt == 0 && r.Chance(1, 10)
		if mode == "" && !w.slowSync && !emptyRV && w.listFaultAt == 0 && r.Chance(1, 9) {
			w.overflow = true
			w.period = kv.Pick(r, []time.Duration{10 * time.Second, time.Minute})
		}
		if emptyRV {
			// a server whose lists carry no resource version of their own
			w.srv.EmptyListRV = true
		}
		if r.Chance(1, 4) && !w.slowSync && !emptyRV && !w.overflow {
			w.srv.ListLatency = kv.Pick(r, []time.Duration{100 * time.Millisecond, w.period / 4})
			if w.srv.ListLatency > time.Hour {
				w.srv.ListLatency = time.Second
			}
			if w.period <= time.Minute && mode != "c04" && r.Chance(1, 3) {
				// every list slower than the refresh period: the results must still arrive, one after the other
				w.srv.ListLatency = w.period * 3 / 2
			}
		}
		w.srv.ListFault = func(n int) (runtime.Object, error, bool) {
			if w.slowSync && n == w.listFaultAt-1 {
				w.slowArmed.Store(true)
			}
			if w.listFaultAt > 0 && n == w.listFaultAt {
				o, err := listFault(w.listFaultKind)
				return o, err, true
			}
			return nil, nil, false
		}
		w.srv.WatchFault = func(n int, rv string) kv.WatchMode {
			if w.watchBlock {
				w.watchBlock = false
				return kv.WatchBlock
			}
			if w.watchErrs > 0 {
				w.watchErrs--
				return kv.WatchError
			}
			return kv.WatchOK
		}
		rootF := kv.Term{Op: "null"}
		if r.Chance(1, 3) {
			rootF = kv.Pick(r, treeFilters())
		}
		tr.line(kv.L("scenario", fmt.Sprint(idx), kv.Atom(mode)))
		if emptyRV {
			tr.line(kv.L("emptyrv"))
			w.srvEvent()
		}
		if w.srv.StaleList {
			tr.line(kv.L("stalelist"))
		}
		if w.overflow {
			// the controller-level filter takes two seconds once, in the middle of a sync, and meanwhile the server
			// changes more often than the watch buffers hold: changes are lost (the code logs "event missed"),
			// the next relists must repair that, and Close must still return
			w.srvEvent()
			rootF = kv.Term{Op: "and", Kids: []kv.Term{rootF, {Op: "fn", N: 2}}}
			kv.FNHook = func() {
				if w.slowArmed.CompareAndSwap(true, false) {
					tr.line(kv.L("overflow"))
					for i := kcache.EventBufsiz*3/2 + r.Intn(kcache.EventBufsiz); i > 0; i-- {
						w.backlog = 0
						w.srvEvent()
					}
					w.busy.Store(true)
					time.Sleep(2 * time.Second)
					w.busy.Store(false)
				}
			}
			defer func() { kv.FNHook = nil }()
		}
		for i := r.Intn(4); i > 0; i-- {
			w.srvEvent()
		}
		if w.slowSync {
			w.srvEvent() // at least one object, so that the filter is consulted
			rootF = kv.Term{Op: "and", Kids: []kv.Term{rootF, {Op: "fn", N: 2}}}
			kv.FNHook = func() {
				if w.slowArmed.CompareAndSwap(true, false) {
					w.busy.Store(true)
					time.Sleep(w.period*5/2 + w.period/10)
					w.busy.Store(false)
				}
			}
			defer func() { kv.FNHook = nil }()
		}
		// the builder's options in any order (a caller may configure the lister before it names the client, hold on
		// to the lister builder, or give lister and watcher their clients separately)
		b := kcache.NewBuilder()
		lb := b.Lister()
		setters := []func(){
			func() { b.Context(w.ctx) },
			func() { b.Log(&kv.Log{Hook: w.hook}) },
			func() { b.Filter(rootF.Build()) },
			func() { b.Client(w.srv) },
			func() { b.Lister().RefreshPeriod(w.period) },
		}
		switch r.Intn(4) {
		case 0:
			setters[4] = func() { lb.RefreshPeriod(w.period) }
		case 1:
			setters[3] = func() { b.Lister().Client(w.srv); b.Watcher().Client(w.srv) }
		}
		if r.Chance(1, 2) {
			for i := len(setters) - 1; i > 0; i-- {
				j := r.Intn(i + 1)
				setters[i], setters[j] = setters[j], setters[i]
			}
		}
		for _, f := range setters {
			f()
		}
		root, err := b.Create()
		if err != nil {
			t.Fatal(err)
		}
		w.root = root
		w.sub, _ = root.Subscribe()
		tr.line(kv.L("cstart", rootF.Sx(), fmt.Sprint(w.period.Milliseconds()), fmt.Sprint(w.srv.ListLatency.Milliseconds()),
			fmt.Sprint(w.listFaultAt), kv.Atom(w.listFaultKind), fmt.Sprint(kcache.VerifWatchRetryDelay.Milliseconds()),
			fmt.Sprint(int(kcache.VerifDefaultRefreshFuzz*1000))))
		// let the first list complete (it may be slow)
		if w.srv.ListLatency > 0 {
			time.Sleep(w.srv.ListLatency)
		}
		w.wait()
		w.observe()
		steps := 10 + r.Intn(16)
		if w.slowSync {
			for i := 0; i < w.listFaultAt+4 && !isClosed(root.Done()); i++ {
				w.step("advance-period", func() { w.advance(w.period + w.period/6) })
			}
		}
		if w.overflow {
			w.step("advance-period", func() { w.advance(w.period + w.period/6) })
			w.slowArmed.Store(true)
			for i := 0; i < 3; i++ {
				w.step("advance-period", func() { w.advance(w.period + w.period/6) })
			}
		}
		for i := 0; i < steps && !isClosed(root.Done()); i++ {
			switch x := r.Intn(100); {
			case x < 36:
				w.step("srv", w.srvEvent)
			case x < 44:
				w.step("close-stream", func() { w.inject("close") })
			case x < 49:
				w.step("watch-errors", func() {
					w.watchErrs = 1 + r.Intn(3)
					tr.line(kv.L("watch-errors", fmt.Sprint(w.watchErrs)))
				})
			case x < 52:
				w.step("watch-block", func() {
					w.watchBlock = true
					tr.line(kv.L("watch-block"))
				})
			case x < 55:
				w.step("status", func() { w.inject("status") })
			case x < 58:
				w.step("bookmark", func() { w.inject("bookmark") })
			case x < 60:
				k := kv.Pick(r, []string{"nonobject", "nonobject", "error-object", "error-nil"})
				w.step(k, func() { w.inject(k) })
			case x < 61 && mode != "c04" && w.period < 1000*time.Hour:
				w.step("replay-delete", func() { w.inject("replay-delete") })
			case x < 72:
				// the reconnect delay, generously
				w.step("advance-retry", func() { w.advance(kcache.VerifWatchRetryDelay + kcache.VerifWatchRetryDelay/2) })
			case x < 80:
				if w.period < 1000*time.Hour {
					w.step("advance-period", func() { w.advance(w.period + w.period/6 + w.srv.ListLatency) })
				}
			case x < 85:
				w.step("advance-small", func() { w.advance(100 * time.Millisecond) })
			case x < 89 && w.period < 1000*time.Hour && w.listFaultAt == 0:
				// a relist racing with in-flight watch events: hold the next list at the server, change the
				// server (deletes followed by re-creations included), then let the list return the new state
				// while those events are still travelling through session, watcher and controller
				gate := make(chan struct{})
				if w.srv.StaleList && mode != "c04" && r.Chance(1, 2) {
					// … and with the watch down beforehand (its reconnect is stuck until the relist resets it), so
					// that the list finds a real difference to publish while the re-armed watch replays, at once,
					// what happened after the list's snapshot
					w.step("close-and-block", func() {
						w.watchBlock = true
						tr.line(kv.L("watch-block"))
						w.inject("close")
					})
					w.step("advance-retry", func() { w.advance(kcache.VerifWatchRetryDelay + kcache.VerifWatchRetryDelay/2) })
					w.step("burst", func() {
						tr.line(kv.L("burst-begin"))
						for j := inflight(10 + r.Intn(12)); j > 0; j-- {
							w.srvEvent()
						}
						tr.line(kv.L("burst-end"))
					})
				}
				w.step("gate-relist", func() {
					w.srv.Mu(func() { w.srv.ListGate = gate })
					w.advance(w.period + w.period/6)
				})
				w.step("race-relist", func() {
					tr.line(kv.L("burst-begin"))
					for j := inflight(3 + r.Intn(6)); j > 0; j-- {
						w.srvEvent()
					}
					w.srv.Mu(func() { w.srv.ListGate = nil })
					close(gate)
					tr.line(kv.L("burst-end"))
				})
			case x < 93:
				// a burst and, at once, the end of the stream
				w.step("burst-close", func() {
					tr.line(kv.L("burst-begin"))
					for j := inflight(2 + r.Intn(6)); j > 0; j-- {
						w.srvEvent()
					}
					w.inject("close")
					tr.line(kv.L("burst-end"))
				})
			default:
				w.step("burst", func() {
					tr.line(kv.L("burst-begin"))
					for j := inflight(2 + r.Intn(5)); j > 0; j-- {
						w.srvEvent()
					}
					tr.line(kv.L("burst-end"))
				})
			}
		}
		// quiesce the server, give the watch its reconnect delay (twice: connect errors), then — when the
		// refresh period is short enough — one further relist
		w.step("settle", func() {
			// "blocked": a Watch call that never returns is in flight — the watch cannot reconnect, only a relist helps
			tr.line(kv.L("settle", kv.Bool(w.srv.Blocked.Load() > 0)))
			w.watchErrs, w.watchBlock = 0, false
			w.advance(3 * kcache.VerifWatchRetryDelay)
		})
		if w.period < 1000*time.Hour {
			w.step("settle-relist", func() { w.advance(w.period + w.period/6 + w.srv.ListLatency) })
			if mode != "c04" && r.Chance(1, 2) && !isClosed(root.Done()) {
				// the server stays quiet (its version does not move), the watch repeats a stale DELETED, and the
				// next relist — of the very same list version — has to bring the object back
				w.step("replay-delete", func() { w.inject("replay-delete") })
				w.step("settle-relist", func() { w.advance(w.period + w.period/6 + w.srv.ListLatency) })
			}
		}
		if ws := w.srv.LiveWatches(); len(ws) > 0 && w.period >= 1000*time.Hour && r.Chance(1, 3) && !isClosed(root.Done()) {
			// (only without relists: a relist that arrives while the Watch call hangs makes the watcher wait for that call
			// in its reset, and the controller with it — a client that breaks the cancellation contract stalls both)
			// a client that is slow to give up: a Watch call is outstanding when the controller is closed and returns
			// only 3 s after its context was cancelled. Everything below the controller closes at once all the same;
			// the controller itself is done when its client has let go.
			w.srv.CancelLag = 3 * time.Second
			w.watchBlock = true
			tr.line(kv.L("watch-block"))
			tr.line(kv.L("inject", "close"))
			ws[len(ws)-1].CloseStream()
			w.advance(kcache.VerifWatchRetryDelay + kcache.VerifWatchRetryDelay/2)
			w.wait()
			tr.line(kv.L("cancel-lag", "on"))
			if r.Chance(1, 2) {
				tr.line(kv.L("closeroot"))
				go root.Close()
			} else {
				tr.line(kv.L("cancel"))
				w.cancel()
			}
			w.wait()
			w.observe()
			tr.line(kv.L("cancel-lag", "off"))
			time.Sleep(4 * time.Second)
		} else if ws := w.srv.LiveWatches(); len(ws) > 0 && r.Chance(1, 4) && !isClosed(root.Done()) {
			// the stream ends, and the shutdown arrives at the very instant the reconnect timer fires
			tr.line(kv.L("inject", "close"))
			ws[len(ws)-1].CloseStream()
			time.Sleep(kcache.VerifWatchRetryDelay)
			tr.line(kv.L("cancel"))
			w.cancel()
		} else if r.Chance(1, 2) {
			tr.line(kv.L("closeroot"))
			closed := make(chan struct{})
			go func() { root.Close(); close(closed) }()
			w.wait()
			tr.line(kv.L("close-returned", kv.Bool(isClosed(closed))))
		} else {
			tr.line(kv.L("cancel"))
			w.cancel()
		}
		w.wait()
		w.observe()
		w.cancel()
		time.Sleep(5 * time.Second)
		synctest.Wait()
		tr.line(kv.L("end"))
		tr.stats["scenarios"]++
	})
}

func engineCtrl(t *testing.T, tr *tracer) {
	n := 300
	if *flagTier == "thorough" {
		n = 6000
	}
	if *flagN > 0 {
		n = *flagN
	}
	for i := 0; i < n; i++ {
		if *flagOnly >= 0 && i != *flagOnly {
			continue
		}
		tr.pending(kv.L("scenario", fmt.Sprint(i), kv.Atom(*flagMode)))
		runCtrlScenario(t, tr, i, *flagSeed, *flagMode)
	}
}
