//go:build verif

package conc

import (
	"context"
	"fmt"
	"github.com/boz/kcache/filter"
	"runtime"
	"strings"
	"sync/atomic"
	"testing"
	"testing/synctest"
	"time"

	"github.com/boz/kcache/join"
	"github.com/boz/kcache/types/daemonset"
	"github.com/boz/kcache/types/deployment"
	"github.com/boz/kcache/types/ingress"
	"github.com/boz/kcache/types/job"
	"github.com/boz/kcache/types/pod"
	"github.com/boz/kcache/types/replicaset"
	"github.com/boz/kcache/types/replicationcontroller"
	"github.com/boz/kcache/types/service"
	"github.com/boz/kcache/types/statefulset"
	metav1 "k8s.io/apimachinery/pkg/apis/meta/v1"
	"k8s.io/apimachinery/pkg/watch"
	"kverif/kv"
)

// join engine: every generated join and IngressPods over fake servers, at quiescence.

func toObjs[T metav1.Object](l []T, err error) ([]metav1.Object, error) {
	if err != nil {
		return nil, err
	}
	out := make([]metav1.Object, 0, len(l))
	for _, x := range l {
		out = append(out, x)
	}
	return out, nil
}

type joinHandle struct {
	srcKind, dstKind           string
	srcList, dstList, joinList func() ([]metav1.Object, error)
	midList                    func() ([]metav1.Object, error) // IngressPods: services base
	srcReady, dstReady         <-chan struct{}
	srcDone, dstDone           <-chan struct{}
	midDone, midReady          <-chan struct{}
	joinReady, joinDone        <-chan struct{}
	joinClose                  func()
	drain                      func() []string
}

type joinCtor struct {
	name             string
	srcKind, dstKind string
	midKind          string
	mk               func(ctx context.Context, log *kv.Log, src, mid, dst *kv.Server) (*joinHandle, error)
}

func podBase(ctx context.Context, log *kv.Log, dst *kv.Server) (pod.Controller, error) {
	return pod.BuildController(ctx, log, dst)
}

func finishPods(h *joinHandle, dstc pod.Controller, j pod.Controller) (*joinHandle, error) {
	h.dstKind = "pod"
	h.dstList = func() ([]metav1.Object, error) { return toObjs(dstc.Cache().List()) }
	h.joinList = func() ([]metav1.Object, error) { return toObjs(j.Cache().List()) }
	h.dstReady, h.dstDone = dstc.Ready(), dstc.Done()
	h.joinReady, h.joinDone, h.joinClose = j.Ready(), j.Done(), j.Close
	sub, err := j.Subscribe()
	if err != nil {
		return nil, err
	}
	h.drain = func() []string {
		var parts []string
		for {
			select {
			case e, ok := <-sub.Events():
				if !ok {
					return parts
				}
				parts = append(parts, kv.L(string(e.Type()), kv.Describe(e.Resource()).Sx()))
			default:
				return parts
			}
		}
	}
	return h, nil
}

// joinFnDelay, when set, is called by the filter functions handed to the joins (the ...With constructors): a filter
// function that takes its time, between the join's reading of its source and its Refilter
var joinFnDelay func()

func slowFn[T any](f func(...T) filter.ComparableFilter) func(...T) filter.ComparableFilter {
	return func(xs ...T) filter.ComparableFilter {
		if d := joinFnDelay; d != nil {
			d()
		}
		return f(xs...)
	}
}

func joinCtors() []joinCtor {
	return []joinCtor{
		{name: "ServicePods", srcKind: "service", dstKind: "pod", mk: func(ctx context.Context, log *kv.Log, src, _, dst *kv.Server) (*joinHandle, error) {
			sc, err := service.BuildController(ctx, log, src)
			if err != nil {
				return nil, err
			}
			dc, _ := podBase(ctx, log, dst)
			j, err := join.ServicePodsWith(ctx, sc, dc, slowFn(service.PodsFilter))
			if err != nil {
				return nil, err
			}
			h := &joinHandle{srcKind: "service", srcList: func() ([]metav1.Object, error) { return toObjs(sc.Cache().List()) }, srcReady: sc.Ready(), srcDone: sc.Done()}
			return finishPods(h, dc, j)
		}},
		{name: "RCPods", srcKind: "rc", dstKind: "pod", mk: func(ctx context.Context, log *kv.Log, src, _, dst *kv.Server) (*joinHandle, error) {
			sc, err := replicationcontroller.BuildController(ctx, log, src)
			if err != nil {
				return nil, err
			}
			dc, _ := podBase(ctx, log, dst)
			j, err := join.RCPodsWith(ctx, sc, dc, slowFn(replicationcontroller.PodsFilter))
			if err != nil {
				return nil, err
			}
			h := &joinHandle{srcKind: "rc", srcList: func() ([]metav1.Object, error) { return toObjs(sc.Cache().List()) }, srcReady: sc.Ready(), srcDone: sc.Done()}
			return finishPods(h, dc, j)
		}},
		{name: "RSPods", srcKind: "rs", dstKind: "pod", mk: func(ctx context.Context, log *kv.Log, src, _, dst *kv.Server) (*joinHandle, error) {
			sc, err := replicaset.BuildController(ctx, log, src)
			if err != nil {
				return nil, err
			}
			dc, _ := podBase(ctx, log, dst)
			j, err := join.RSPodsWith(ctx, sc, dc, slowFn(replicaset.PodsFilter))
			if err != nil {
				return nil, err
			}
			h := &joinHandle{srcKind: "rs", srcList: func() ([]metav1.Object, error) { return toObjs(sc.Cache().List()) }, srcReady: sc.Ready(), srcDone: sc.Done()}
			return finishPods(h, dc, j)
		}},
		{name: "DeploymentPods", srcKind: "deployment", dstKind: "pod", mk: func(ctx context.Context, log *kv.Log, src, _, dst *kv.Server) (*joinHandle, error) {
			sc, err := deployment.BuildController(ctx, log, src)
			if err != nil {
				return nil, err
			}
			dc, _ := podBase(ctx, log, dst)
			j, err := join.DeploymentPodsWith(ctx, sc, dc, slowFn(deployment.PodsFilter))
			if err != nil {
				return nil, err
			}
			h := &joinHandle{srcKind: "deployment", srcList: func() ([]metav1.Object, error) { return toObjs(sc.Cache().List()) }, srcReady: sc.Ready(), srcDone: sc.Done()}
			return finishPods(h, dc, j)
		}},
		{name: "DaemonSetPods", srcKind: "ds", dstKind: "pod", mk: func(ctx context.Context, log *kv.Log, src, _, dst *kv.Server) (*joinHandle, error) {
			sc, err := daemonset.BuildController(ctx, log, src)
			if err != nil {
				return nil, err
			}
			dc, _ := podBase(ctx, log, dst)
			j, err := join.DaemonSetPodsWith(ctx, sc, dc, slowFn(daemonset.PodsFilter))
			if err != nil {
				return nil, err
			}
			h := &joinHandle{srcKind: "ds", srcList: func() ([]metav1.Object, error) { return toObjs(sc.Cache().List()) }, srcReady: sc.Ready(), srcDone: sc.Done()}
			return finishPods(h, dc, j)
		}},
		{name: "StatefulSetPods", srcKind: "sts", dstKind: "pod", mk: func(ctx context.Context, log *kv.Log, src, _, dst *kv.Server) (*joinHandle, error) {
			sc, err := statefulset.BuildController(ctx, log, src)
			if err != nil {
				return nil, err
			}
			dc, _ := podBase(ctx, log, dst)
			j, err := join.StatefulSetPodsWith(ctx, sc, dc, slowFn(statefulset.PodsFilter))
			if err != nil {
				return nil, err
			}
			h := &joinHandle{srcKind: "sts", srcList: func() ([]metav1.Object, error) { return toObjs(sc.Cache().List()) }, srcReady: sc.Ready(), srcDone: sc.Done()}
			return finishPods(h, dc, j)
		}},
		{name: "JobPods", srcKind: "job", dstKind: "pod", mk: func(ctx context.Context, log *kv.Log, src, _, dst *kv.Server) (*joinHandle, error) {
			sc, err := job.BuildController(ctx, log, src)
			if err != nil {
				return nil, err
			}
			dc, _ := podBase(ctx, log, dst)
			j, err := join.JobPodsWith(ctx, sc, dc, slowFn(job.PodsFilter))
			if err != nil {
				return nil, err
			}
			h := &joinHandle{srcKind: "job", srcList: func() ([]metav1.Object, error) { return toObjs(sc.Cache().List()) }, srcReady: sc.Ready(), srcDone: sc.Done()}
			return finishPods(h, dc, j)
		}},
		{name: "IngressServices", srcKind: "ingress", dstKind: "service", mk: func(ctx context.Context, log *kv.Log, src, _, dst *kv.Server) (*joinHandle, error) {
			sc, err := ingress.BuildController(ctx, log, src)
			if err != nil {
				return nil, err
			}
			dc, err := service.BuildController(ctx, log, dst)
			if err != nil {
				return nil, err
			}
			j, err := join.IngressServicesWith(ctx, sc, dc, slowFn(ingress.ServicesFilter))
			if err != nil {
				return nil, err
			}
			h := &joinHandle{srcKind: "ingress", dstKind: "service",
				srcList:  func() ([]metav1.Object, error) { return toObjs(sc.Cache().List()) },
				dstList:  func() ([]metav1.Object, error) { return toObjs(dc.Cache().List()) },
				joinList: func() ([]metav1.Object, error) { return toObjs(j.Cache().List()) },
				srcReady: sc.Ready(), srcDone: sc.Done(), dstReady: dc.Ready(), dstDone: dc.Done(),
				joinReady: j.Ready(), joinDone: j.Done(), joinClose: j.Close}
			sub, err := j.Subscribe()
			if err != nil {
				return nil, err
			}
			h.drain = func() []string {
				var parts []string
				for {
					select {
					case e, ok := <-sub.Events():
						if !ok {
							return parts
						}
						parts = append(parts, kv.L(string(e.Type()), kv.Describe(e.Resource()).Sx()))
					default:
						return parts
					}
				}
			}
			return h, nil
		}},
		{name: "IngressPods", srcKind: "ingress", dstKind: "pod", midKind: "service", mk: func(ctx context.Context, log *kv.Log, src, mid, dst *kv.Server) (*joinHandle, error) {
			sc, err := ingress.BuildController(ctx, log, src)
			if err != nil {
				return nil, err
			}
			mc, err := service.BuildController(ctx, log, mid)
			if err != nil {
				return nil, err
			}
			dc, _ := podBase(ctx, log, dst)
			j, err := join.IngressPods(ctx, sc, mc, dc)
			if err != nil {
				return nil, err
			}
			h := &joinHandle{srcKind: "ingress", srcList: func() ([]metav1.Object, error) { return toObjs(sc.Cache().List()) }, srcReady: sc.Ready(), srcDone: sc.Done(),
				midList: func() ([]metav1.Object, error) { return toObjs(mc.Cache().List()) }, midDone: mc.Done(), midReady: mc.Ready()}
			return finishPods(h, dc, j)
		}},
	}
}

var joinSelLabels = []map[string]string{nil, {"l": "1"}, {"l": "2"}, {"l": "1", "t": "q"}}

func joinLabelSels() []*kv.LabelSel {
	return []*kv.LabelSel{nil, {}, {ML: map[string]string{"l": "1"}}, {ML: map[string]string{"l": "2"}},
		{ME: []kv.LSReq{{Key: "t", Op: "Exists"}}}, {ME: []kv.LSReq{{Key: "l", Op: "In", Vals: []string{"1", "2"}}}},
		{ME: []kv.LSReq{{Key: "l", Op: "NotIn", Vals: []string{"1"}}}}}
}

type joinWorld struct {
	tr      *tracer
	r       *kv.Rand
	h       *joinHandle
	srcSrv  *kv.Server
	midSrv  *kv.Server
	dstSrv  *kv.Server
	hookN   uint64
	perturb bool
}

func (w *joinWorld) hook(component, format string) {
	if time.Now().Year() > 2200 {
		panic("virtual time ran away at " + component + " " + format)
	}
	n := atomic.AddUint64(&w.hookN, 1)
	if !w.perturb {
		return
	}
	h := n*0x9E3779B97F4A7C15 ^ uint64(len(component))*31 ^ uint64(len(format))
	h ^= h >> 29
	if h%6 == 0 {
		time.Sleep(time.Duration(1+h%1500) * time.Microsecond)
	}
}

var joinNames = []string{"x", "y", "z"}
var joinNS = []string{"a", "b"}

func (w *joinWorld) srcEvent(kind string, srv *kv.Server) {
	ns, name := kv.Pick(w.r, joinNS), kv.Pick(w.r, joinNames)
	key := ns + "/" + name
	cur, ok := srv.Get(key)
	o := kv.Obj{Kind: kind, NS: ns, Name: name}
	switch kind {
	case "service":
		o.Selector = kv.Pick(w.r, joinSelLabels)
		o.Labels = kv.Pick(w.r, joinSelLabels) // services are also destinations (IngressServices)
	case "rc":
		o.WLabels = kv.Pick(w.r, joinSelLabels)
	case "ingress":
		if w.r.Chance(1, 2) {
			o.Default = kv.Pick(w.r, joinNames)
		}
		for i := w.r.Intn(3); i > 0; i-- {
			o.Paths = append(o.Paths, kv.Pick(w.r, append(joinNames, "")))
		}
	case "pod":
		o.Labels = kv.Pick(w.r, joinSelLabels)
	default:
		o.WSel = kv.Pick(w.r, joinLabelSels())
		o.WLabels = kv.Pick(w.r, joinSelLabels)
	}
	t := watch.Added
	if ok {
		if w.r.Chance(1, 4) {
			t, o = watch.Deleted, cur
		} else {
			t = watch.Modified
		}
	}
	w.applyTo(srv, kind, t, o)
}

// applyTo makes one change on a server and writes it to the trace
func (w *joinWorld) applyTo(srv *kv.Server, kind string, t watch.EventType, o kv.Obj) {
	o = srv.Apply(t, o)
	name2 := map[watch.EventType]string{watch.Added: "create", watch.Modified: "update", watch.Deleted: "delete"}[t]
	which := "jsrc"
	if srv == w.dstSrv {
		which = "jdst"
	} else if srv == w.midSrv {
		which = "jmid"
	}
	if kind == "pod" || (srv == w.dstSrv) {
		w.tr.line(kv.L(which, name2, o.Sx()))
	} else if srv == w.midSrv {
		// services of the double join are both a destination (of the ingresses) and a source (of the pods)
		w.tr.line(kv.L(which, name2, o.Sx(), o.SrcSx()))
	} else {
		w.tr.line(kv.L(which, name2, o.SrcSx()))
	}
	w.tr.stats["act:"+which]++
}

// flipflop: a source changes and at once changes back (created and deleted again, or its selector changed and
// restored): the join's filter goes A -> B -> A in quick succession and must end at A
func (w *joinWorld) flipflop(kind string, srv *kv.Server) {
	ns, name := kv.Pick(w.r, joinNS), kv.Pick(w.r, joinNames)
	cur, ok := srv.Get(ns + "/" + name)
	if !ok {
		o := kv.Obj{Kind: kind, NS: ns, Name: name, Selector: map[string]string{"app": "1"}, WLabels: map[string]string{"app": "1"},
			WSel: &kv.LabelSel{ML: map[string]string{"app": "1"}}, Default: kv.Pick(w.r, joinNames)}
		w.applyTo(srv, kind, watch.Added, o)
		now, _ := srv.Get(ns + "/" + name)
		w.applyTo(srv, kind, watch.Deleted, now)
		return
	}
	alt := cur
	alt.Selector, alt.WLabels, alt.WSel, alt.Default, alt.Paths = kv.Pick(w.r, joinSelLabels), kv.Pick(w.r, joinSelLabels), kv.Pick(w.r, joinLabelSels()), kv.Pick(w.r, joinNames), nil
	w.applyTo(srv, kind, watch.Modified, alt)
	w.applyTo(srv, kind, watch.Modified, cur)
	w.tr.stats["act:flipflop"]++
}

func listSx(f func() ([]metav1.Object, error), src bool) string {
	if f == nil {
		return "none"
	}
	l, err := f()
	if err != nil {
		return "err"
	}
	return kv.SortedObjs(l)
}

func (w *joinWorld) observe(closedJoin bool) {
	h := w.h
	evs := kv.L(h.drain()...)
	// "the sources" of the double join are the ingresses and the services
	srcReady := isClosed(h.srcReady) && (h.midReady == nil || isClosed(h.midReady))
	w.tr.line(kv.L("jobs", kv.Bool(srcReady), kv.Bool(isClosed(h.dstReady)), kv.Bool(isClosed(h.joinReady)),
		kv.Bool(isClosed(h.joinDone)), kv.Bool(isClosed(h.srcDone)), kv.Bool(isClosed(h.dstDone)),
		listSx(h.joinList, false), evs, listSx(h.dstList, false)))
	w.tr.stats["obs"]++
}

func joinGoroutines() int {
	buf := make([]byte, 4<<20)
	n := runtime.Stack(buf, true)
	cnt := 0
	for _, g := range strings.Split(string(buf[:n]), "\n\n") {
		if strings.Contains(g, "kcache.(*monitor).run") || strings.Contains(g, "kcache.(*filterSubscription).run") ||
			strings.Contains(g, "kcache/join.") {
			cnt++
		}
	}
	return cnt
}

func runJoinScenario(t *testing.T, tr *tracer, idx int, seed uint64) {
	synctest.Test(t, func(t *testing.T) {
		reseed(seed, idx) // the library's own randomness (ticker fuzz) follows the scenario's seed
		r := kv.NewRand(seed*9000011 + uint64(idx))
		ctors := joinCtors()
		jc := ctors[idx%len(ctors)]
		w := &joinWorld{tr: tr, r: r, perturb: r.Chance(2, 3)}
		w.srcSrv, w.dstSrv = kv.NewServer(), kv.NewServer()
		w.srcSrv.Kind, w.dstSrv.Kind = jc.srcKind, jc.dstKind
		if jc.midKind != "" {
			w.midSrv = kv.NewServer()
			w.midSrv.Kind = jc.midKind
		}
		ctx, cancel := context.WithCancel(context.Background())
		tr.line(kv.L("scenario", fmt.Sprint(idx), jc.name))
		tr.line(kv.L("jstart", jc.name, jc.srcKind, kv.Atom(jc.midKind), jc.dstKind))
		for i := r.Intn(5); i > 0; i-- {
			w.srcEvent(jc.srcKind, w.srcSrv)
		}
		for i := r.Intn(6); i > 0; i-- {
			w.srcEvent(jc.dstKind, w.dstSrv)
		}
		if w.midSrv != nil {
			for i := r.Intn(5); i > 0; i-- {
				w.srcEvent(jc.midKind, w.midSrv)
			}
		}
		// one of the servers may hold its first list back; changes keep happening on every side meanwhile
		// (a source that is ready long before the destination recomputes its filter several times)
		var gatedSrv *kv.Server
		switch x := r.Intn(6); {
		case x == 0 || x == 5:
			gatedSrv = w.srcSrv
		case x <= 2:
			gatedSrv = w.dstSrv
		case x == 3 && w.midSrv != nil:
			gatedSrv = w.midSrv
		}
		if gatedSrv != nil {
			gatedSrv.ListGate = make(chan struct{})
		}
		log := &kv.Log{Hook: w.hook}
		joinFnDelay = nil
		if w.perturb {
			var fnN uint64
			joinFnDelay = func() {
				n := atomic.AddUint64(&fnN, 1)
				atomic.AddUint64(&w.hookN, 1)
				h := n*0xD6E8FEB86659FD93 ^ uint64(idx)
				h ^= h >> 31
				if h%2 == 0 {
					time.Sleep(time.Duration(1+h%3000) * time.Microsecond)
				}
			}
		}
		defer func() { joinFnDelay = nil }()
		h, err := jc.mk(ctx, log, w.srcSrv, w.midSrv, w.dstSrv)
		if err != nil {
			t.Fatal(err)
		}
		w.h = h
		settle(&w.hookN)
		w.observe(false)
		if gatedSrv != nil {
			for i := r.Intn(5); i > 0; i-- {
				switch x := r.Intn(10); {
				case x < 6:
					w.srcEvent(jc.srcKind, w.srcSrv)
				case x < 8 && w.midSrv != nil:
					w.srcEvent(jc.midKind, w.midSrv)
				default:
					w.srcEvent(jc.dstKind, w.dstSrv)
				}
				settle(&w.hookN)
				w.observe(false)
			}
			tr.line(kv.L("jrelease"))
			if r.Chance(1, 2) {
				// the held list completes and the destination changes in the same instant: the join becomes ready (its
				// first Refilter) while destination events are on their way
				gatedSrv.Freeze()
				close(gatedSrv.ListGate)
				for j := inflight(1 + r.Intn(3)); j > 0; j-- {
					// (at once, or a little later: somewhere along the source's way to readiness and the join's first Refilter)
					if r.Chance(2, 3) {
						time.Sleep(time.Duration(r.Intn(1500)) * time.Microsecond)
					}
					w.srcEvent(jc.dstKind, w.dstSrv)
				}
			} else {
				close(gatedSrv.ListGate)
			}
			settle(&w.hookN)
			w.observe(false)
		}
		steps := 8 + r.Intn(12)
		for i := 0; i < steps; i++ {
			n := 1
			if r.Chance(1, 4) {
				n = inflight(2 + r.Intn(4)) // several changes on both sides in flight at once
				tr.line(kv.L("burst-begin"))
			}
			for j := 0; j < n; j++ {
				switch x := r.Intn(12); {
				case x >= 10:
					w.flipflop(jc.srcKind, w.srcSrv)
				case x < 4:
					w.srcEvent(jc.srcKind, w.srcSrv)
				case x < 6 && w.midSrv != nil:
					w.srcEvent(jc.midKind, w.midSrv)
				default:
					w.srcEvent(jc.dstKind, w.dstSrv)
				}
			}
			if n > 1 {
				tr.line(kv.L("burst-end"))
			}
			settle(&w.hookN)
			w.observe(false)
		}
		// closing the join result stops what the join created and nothing else
		tr.line(kv.L("jclose"))
		h.joinClose()
		settle(&w.hookN)
		w.observe(true)
		// the bases must still work: one more change on each side reaches their caches
		w.srcEvent(jc.srcKind, w.srcSrv)
		w.srcEvent(jc.dstKind, w.dstSrv)
		settle(&w.hookN)
		srcNow, _ := w.srcSrv.State()
		dstNow, _ := w.dstSrv.State()
		sl, _ := h.srcList()
		dl, _ := h.dstList()
		tr.line(kv.L("jafter", fmt.Sprint(len(srcNow)), fmt.Sprint(len(sl)), fmt.Sprint(len(dstNow)), fmt.Sprint(len(dl)),
			kv.Bool(isClosed(h.srcDone)), kv.Bool(isClosed(h.dstDone))))
		// everything the join created must be gone: the bases run no monitor, no filtered subscription and no
		// join helper, so no goroutine of those kinds may be left
		tr.line(kv.L("jleak", fmt.Sprint(joinGoroutines())))
		cancel()
		time.Sleep(5 * time.Second)
		synctest.Wait()
		tr.line(kv.L("end"))
		tr.stats["scenarios"]++
	})
}

func engineJoin(t *testing.T, tr *tracer) {
	n := 180
	if *flagTier == "thorough" {
		n = 3600
	}
	if *flagN > 0 {
		n = *flagN
	}
	for i := 0; i < n; i++ {
		if *flagOnly >= 0 && i != *flagOnly {
			continue
		}
		tr.pending(kv.L("scenario", fmt.Sprint(i), "join"))
		runJoinScenario(t, tr, i, *flagSeed)
	}
}
