module kverif

go 1.23

require (
	github.com/boz/go-logutil v0.1.0
	github.com/boz/kcache v0.0.0
	github.com/pkg/errors v0.9.1
	k8s.io/api v0.24.3
	k8s.io/apimachinery v0.24.3
	k8s.io/client-go v0.24.3
)

require (
	github.com/PuerkitoBio/purell v1.1.1 // indirect
	github.com/PuerkitoBio/urlesc v0.0.0-20170810143723-de5bf2ad4578 // indirect
	github.com/boz/go-lifecycle v0.1.0 // indirect
	github.com/davecgh/go-spew v1.1.1 // indirect
	github.com/emicklei/go-restful v2.9.5+incompatible // indirect
	github.com/go-logr/logr v1.2.0 // indirect
	github.com/go-openapi/jsonpointer v0.19.5 // indirect
	github.com/go-openapi/jsonreference v0.19.5 // indirect
	github.com/go-openapi/swag v0.19.14 // indirect
	github.com/gogo/protobuf v1.3.2 // indirect
	github.com/golang/protobuf v1.5.2 // indirect
	github.com/google/gnostic v0.5.7-v3refs // indirect
	github.com/google/gofuzz v1.1.0 // indirect
	github.com/josharian/intern v1.0.0 // indirect
	github.com/json-iterator/go v1.1.12 // indirect
	github.com/mailru/easyjson v0.7.6 // indirect
	github.com/modern-go/concurrent v0.0.0-20180306012644-bacd9c7ef1dd // indirect
	github.com/modern-go/reflect2 v1.0.2 // indirect
	github.com/munnerz/goautoneg v0.0.0-20191010083416-a7dc8b61c822 // indirect
	golang.org/x/net v0.0.0-20220127200216-cd36cc0744dd // indirect
	golang.org/x/oauth2 v0.0.0-20211104180415-d3ed0bb246c8 // indirect
	golang.org/x/sys v0.0.0-20220209214540-3681064d5158 // indirect
	golang.org/x/term v0.0.0-20210927222741-03fcf44c2211 // indirect
	golang.org/x/text v0.3.7 // indirect
	golang.org/x/time v0.0.0-20220210224613-90d013bbcef8 // indirect
	google.golang.org/protobuf v1.27.1 // indirect
	gopkg.in/inf.v0 v0.9.1 // indirect
	gopkg.in/yaml.v2 v2.4.0 // indirect
	gopkg.in/yaml.v3 v3.0.0-20210107192922-496545a6307b // indirect
	k8s.io/klog/v2 v2.60.1 // indirect
	k8s.io/kube-openapi v0.0.0-20220328201542-3ee0da9b0b42 // indirect
	k8s.io/utils v0.0.0-20220210201930-3a6ce19ff2f9 // indirect
	sigs.k8s.io/json v0.0.0-20211208200746-9f7c6b3444d2 // indirect
	sigs.k8s.io/structured-merge-diff/v4 v4.2.1 // indirect
	sigs.k8s.io/yaml v1.2.0 // indirect
)

replace github.com/boz/kcache => /repo
