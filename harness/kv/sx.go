// Package kv: shared pieces of the verification harness — s-expression encoding of the line
// protocol, the single PRNG, the object universe and the filter-term language.
package kv

import (
	"fmt"
	"sort"
	"strings"
)

// Atom encodes a string as one s-expression atom: '%', whitespace and parentheses are
// percent-escaped, the empty string is "%e".
func Atom(s string) string {
	if s == "" {
		return "%e"
	}
	var b strings.Builder
	for i := 0; i < len(s); i++ {
		c := s[i]
		switch {
		case c == '%' || c == '(' || c == ')' || c <= ' ' || c >= 0x7f:
			fmt.Fprintf(&b, "%%%02x", c)
		default:
			b.WriteByte(c)
		}
	}
	return b.String()
}

// L builds "(head a b c)".
func L(parts ...string) string { return "(" + strings.Join(parts, " ") + ")" }

// Map encodes a string map as "((k v) (k v))" sorted by key (the canonical form the model uses).
func Map(m map[string]string) string {
	keys := make([]string, 0, len(m))
	for k := range m {
		keys = append(keys, k)
	}
	sort.Strings(keys)
	parts := make([]string, 0, len(keys))
	for _, k := range keys {
		parts = append(parts, L(Atom(k), Atom(m[k])))
	}
	return L(parts...)
}

func Strs(ss []string) string {
	parts := make([]string, 0, len(ss))
	for _, s := range ss {
		parts = append(parts, Atom(s))
	}
	return L(parts...)
}

func Bool(b bool) string {
	if b {
		return "true"
	}
	return "false"
}

// Rand is splitmix64; every random choice of the harness derives from one instance seeded
// with VERIF_SEED.
type Rand struct{ s uint64 }

func NewRand(seed uint64) *Rand { return &Rand{s: seed*0x9E3779B97F4A7C15 + 0x1234567} }

func (r *Rand) U64() uint64 {
	r.s += 0x9E3779B97F4A7C15
	z := r.s
	z = (z ^ (z >> 30)) * 0xBF58476D1CE4E5B9
	z = (z ^ (z >> 27)) * 0x94D049BB133111EB
	return z ^ (z >> 31)
}

func (r *Rand) Intn(n int) int {
	if n <= 0 {
		return 0
	}
	return int(r.U64() % uint64(n))
}

func (r *Rand) Chance(num, den int) bool { return r.Intn(den) < num }

func Pick[T any](r *Rand, xs []T) T { return xs[r.Intn(len(xs))] }
