package kv

import (
	"fmt"
	"sort"

	corev1 "k8s.io/api/core/v1"
	metav1 "k8s.io/apimachinery/pkg/apis/meta/v1"
)

// Obj is the harness-side description of an API object: exactly what the model's Obj holds.
type Obj struct {
	Kind     string // pod | service | event | secret
	NS, Name string
	RV       string
	Labels   map[string]string
	Node     string            // pod
	Selector map[string]string // service
	InvKind  string            // event
	InvNS    string
	InvName  string
}

func (o Obj) Sx() string {
	return L("obj", Atom(o.Kind), Atom(o.NS), Atom(o.Name), Atom(o.RV), Map(o.Labels), Atom(o.Node),
		Map(o.Selector), Atom(o.InvKind), Atom(o.InvNS), Atom(o.InvName))
}

func (o Obj) Key() string { return o.NS + "/" + o.Name }

func (o Obj) meta() metav1.ObjectMeta {
	var labels map[string]string
	if o.Labels != nil {
		labels = map[string]string{}
		for k, v := range o.Labels {
			labels[k] = v
		}
	}
	return metav1.ObjectMeta{Namespace: o.NS, Name: o.Name, ResourceVersion: o.RV, Labels: labels}
}

// Build makes the real API object.
func (o Obj) Build() metav1.Object {
	switch o.Kind {
	case "pod":
		return &corev1.Pod{ObjectMeta: o.meta(), Spec: corev1.PodSpec{NodeName: o.Node}}
	case "service":
		var sel map[string]string
		if len(o.Selector) > 0 {
			sel = map[string]string{}
			for k, v := range o.Selector {
				sel[k] = v
			}
		}
		return &corev1.Service{ObjectMeta: o.meta(), Spec: corev1.ServiceSpec{Selector: sel}}
	case "event":
		return &corev1.Event{ObjectMeta: o.meta(), InvolvedObject: corev1.ObjectReference{Kind: o.InvKind, Namespace: o.InvNS, Name: o.InvName}}
	case "secret":
		return &corev1.Secret{ObjectMeta: o.meta()}
	}
	panic("kv.Obj.Build: unknown kind " + o.Kind)
}

// Describe reads a real API object back into an Obj (nil object -> Kind "nil").
func Describe(m metav1.Object) Obj {
	if m == nil {
		return Obj{Kind: "nil"}
	}
	o := Obj{NS: m.GetNamespace(), Name: m.GetName(), RV: m.GetResourceVersion(), Labels: m.GetLabels()}
	switch x := m.(type) {
	case *corev1.Pod:
		if x == nil {
			return Obj{Kind: "nil"}
		}
		o.Kind = "pod"
		o.Node = x.Spec.NodeName
	case *corev1.Service:
		o.Kind = "service"
		o.Selector = x.Spec.Selector
	case *corev1.Event:
		o.Kind = "event"
		o.InvKind, o.InvNS, o.InvName = x.InvolvedObject.Kind, x.InvolvedObject.Namespace, x.InvolvedObject.Name
	case *corev1.Secret:
		o.Kind = "secret"
	default:
		o.Kind = fmt.Sprintf("%T", m)
	}
	return o
}

// SortedObjs encodes a list of objects sorted by (ns, name, rv): the canonical form of anything
// that came out of a Go map.
func SortedObjs(ms []metav1.Object) string {
	ds := make([]Obj, 0, len(ms))
	for _, m := range ms {
		ds = append(ds, Describe(m))
	}
	sort.SliceStable(ds, func(i, j int) bool {
		if ds[i].NS != ds[j].NS {
			return ds[i].NS < ds[j].NS
		}
		if ds[i].Name != ds[j].Name {
			return ds[i].Name < ds[j].Name
		}
		return ds[i].RV < ds[j].RV
	})
	parts := make([]string, 0, len(ds))
	for _, d := range ds {
		parts = append(parts, d.Sx())
	}
	return L(parts...)
}

func ObjList(os []Obj) string {
	parts := make([]string, 0, len(os))
	for _, o := range os {
		parts = append(parts, o.Sx())
	}
	return L(parts...)
}

func BuildAll(os []Obj) []metav1.Object {
	r := make([]metav1.Object, 0, len(os))
	for _, o := range os {
		r = append(r, o.Build())
	}
	return r
}
