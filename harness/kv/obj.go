package kv

import (
	"fmt"
	"k8s.io/apimachinery/pkg/types"
	"sort"

	appsv1 "k8s.io/api/apps/v1"
	batchv1 "k8s.io/api/batch/v1"
	corev1 "k8s.io/api/core/v1"
	netv1beta1 "k8s.io/api/networking/v1beta1"
	metav1 "k8s.io/apimachinery/pkg/apis/meta/v1"
	"k8s.io/apimachinery/pkg/runtime"
)

// Obj is the harness-side description of an API object: exactly what the model's Obj holds.
type Obj struct {
	Kind     string // pod | service | event | secret
	NS, Name string
	RV       string
	Labels   map[string]string
	Node     string            // pod
	Selector map[string]string // service
	InvKind  string            // event
	InvNS    string
	InvName  string
	// workloads (rc rs deployment ds sts job): selector / template labels; for rc and service the selector map is WLabels / Selector
	WSel    *LabelSel
	WLabels map[string]string
	// ingress: default backend service name and rule path backends
	Default string
	Paths   []string
	// UID is set on the built object and never reported to the model: nothing in the library may depend on it
	UID string
}

// SrcSx encodes a join source object (service, workload or ingress) for the model.
func (o Obj) SrcSx() string {
	labels := o.WLabels
	if o.Kind == "service" {
		labels = o.Selector
	}
	return L("src", Atom(o.Kind), Atom(o.NS), Atom(o.Name), Atom(o.RV), o.WSel.sx(), Map(labels), Atom(o.Default), Strs(o.Paths))
}

func (o Obj) Sx() string {
	return L("obj", Atom(o.Kind), Atom(o.NS), Atom(o.Name), Atom(o.RV), Map(o.Labels), Atom(o.Node),
		Map(o.Selector), Atom(o.InvKind), Atom(o.InvNS), Atom(o.InvName))
}

func (o Obj) Key() string { return o.NS + "/" + o.Name }

func (o Obj) meta() metav1.ObjectMeta {
	var labels map[string]string
	if o.Labels != nil {
		labels = map[string]string{}
		for k, v := range o.Labels {
			labels[k] = v
		}
	}
	return metav1.ObjectMeta{Namespace: o.NS, Name: o.Name, ResourceVersion: o.RV, Labels: labels, UID: types.UID(o.UID)}
}

// Build makes the real API object.
func (o Obj) Build() metav1.Object {
	switch o.Kind {
	case "pod":
		return &corev1.Pod{ObjectMeta: o.meta(), Spec: corev1.PodSpec{NodeName: o.Node}}
	case "service":
		var sel map[string]string
		if len(o.Selector) > 0 {
			sel = map[string]string{}
			for k, v := range o.Selector {
				sel[k] = v
			}
		}
		return &corev1.Service{ObjectMeta: o.meta(), Spec: corev1.ServiceSpec{Selector: sel}}
	case "event":
		return &corev1.Event{ObjectMeta: o.meta(), InvolvedObject: corev1.ObjectReference{Kind: o.InvKind, Namespace: o.InvNS, Name: o.InvName}}
	case "secret":
		return &corev1.Secret{ObjectMeta: o.meta()}
	case "node":
		return &corev1.Node{ObjectMeta: o.meta()}
	case "rc":
		return &corev1.ReplicationController{ObjectMeta: o.meta(), Spec: corev1.ReplicationControllerSpec{Selector: copyMap(o.WLabels)}}
	case "rs":
		return &appsv1.ReplicaSet{ObjectMeta: o.meta(), Spec: appsv1.ReplicaSetSpec{Selector: o.WSel.build(), Template: podTemplate(o.WLabels)}}
	case "deployment":
		return &appsv1.Deployment{ObjectMeta: o.meta(), Spec: appsv1.DeploymentSpec{Selector: o.WSel.build(), Template: podTemplate(o.WLabels)}}
	case "ds":
		return &appsv1.DaemonSet{ObjectMeta: o.meta(), Spec: appsv1.DaemonSetSpec{Selector: o.WSel.build(), Template: podTemplate(o.WLabels)}}
	case "sts":
		return &appsv1.StatefulSet{ObjectMeta: o.meta(), Spec: appsv1.StatefulSetSpec{Selector: o.WSel.build(), Template: podTemplate(o.WLabels)}}
	case "job":
		return &batchv1.Job{ObjectMeta: o.meta(), Spec: batchv1.JobSpec{Selector: o.WSel.build(), Template: podTemplate(o.WLabels)}}
	case "ingress":
		ing := &netv1beta1.Ingress{ObjectMeta: o.meta()}
		if o.Default != "" {
			ing.Spec.Backend = &netv1beta1.IngressBackend{ServiceName: o.Default}
		}
		if len(o.Paths) > 0 {
			// a host-only rule (no HTTP section) first, then the paths spread over two rules
			rules := []netv1beta1.IngressRule{{Host: "only.example"}, {IngressRuleValue: netv1beta1.IngressRuleValue{HTTP: &netv1beta1.HTTPIngressRuleValue{}}},
				{IngressRuleValue: netv1beta1.IngressRuleValue{HTTP: &netv1beta1.HTTPIngressRuleValue{}}}}
			for j, p := range o.Paths {
				r := 1 + j%2
				rules[r].HTTP.Paths = append(rules[r].HTTP.Paths, netv1beta1.HTTPIngressPath{Backend: netv1beta1.IngressBackend{ServiceName: p}})
			}
			if len(rules[2].HTTP.Paths) == 0 {
				rules = rules[:2]
			}
			ing.Spec.Rules = rules
		}
		return ing
	}
	panic("kv.Obj.Build: unknown kind " + o.Kind)
}

func copyMap(m map[string]string) map[string]string {
	if m == nil {
		return nil
	}
	out := map[string]string{}
	for k, v := range m {
		out[k] = v
	}
	return out
}

func podTemplate(labels map[string]string) corev1.PodTemplateSpec {
	return corev1.PodTemplateSpec{ObjectMeta: metav1.ObjectMeta{Labels: copyMap(labels)}}
}

// TypedList builds the list object a client of that kind would get.
func TypedList(kind string, objs []Obj, rv string) runtime.Object {
	lm := metav1.ListMeta{ResourceVersion: rv}
	switch kind {
	case "pod":
		return PodList(objs, rv)
	case "service":
		l := &corev1.ServiceList{ListMeta: lm}
		for _, o := range objs {
			l.Items = append(l.Items, *o.Build().(*corev1.Service))
		}
		return l
	case "rc":
		l := &corev1.ReplicationControllerList{ListMeta: lm}
		for _, o := range objs {
			l.Items = append(l.Items, *o.Build().(*corev1.ReplicationController))
		}
		return l
	case "rs":
		l := &appsv1.ReplicaSetList{ListMeta: lm}
		for _, o := range objs {
			l.Items = append(l.Items, *o.Build().(*appsv1.ReplicaSet))
		}
		return l
	case "deployment":
		l := &appsv1.DeploymentList{ListMeta: lm}
		for _, o := range objs {
			l.Items = append(l.Items, *o.Build().(*appsv1.Deployment))
		}
		return l
	case "ds":
		l := &appsv1.DaemonSetList{ListMeta: lm}
		for _, o := range objs {
			l.Items = append(l.Items, *o.Build().(*appsv1.DaemonSet))
		}
		return l
	case "sts":
		l := &appsv1.StatefulSetList{ListMeta: lm}
		for _, o := range objs {
			l.Items = append(l.Items, *o.Build().(*appsv1.StatefulSet))
		}
		return l
	case "job":
		l := &batchv1.JobList{ListMeta: lm}
		for _, o := range objs {
			l.Items = append(l.Items, *o.Build().(*batchv1.Job))
		}
		return l
	case "ingress":
		l := &netv1beta1.IngressList{ListMeta: lm}
		for _, o := range objs {
			l.Items = append(l.Items, *o.Build().(*netv1beta1.Ingress))
		}
		return l
	case "event":
		l := &corev1.EventList{ListMeta: lm}
		for _, o := range objs {
			l.Items = append(l.Items, *o.Build().(*corev1.Event))
		}
		return l
	case "secret":
		l := &corev1.SecretList{ListMeta: lm}
		for _, o := range objs {
			l.Items = append(l.Items, *o.Build().(*corev1.Secret))
		}
		return l
	case "node":
		l := &corev1.NodeList{ListMeta: lm}
		for _, o := range objs {
			l.Items = append(l.Items, *o.Build().(*corev1.Node))
		}
		return l
	}
	panic("TypedList: " + kind)
}

// Describe reads a real API object back into an Obj (nil object -> Kind "nil").
func Describe(m metav1.Object) Obj {
	if m == nil {
		return Obj{Kind: "nil"}
	}
	o := Obj{NS: m.GetNamespace(), Name: m.GetName(), RV: m.GetResourceVersion(), Labels: m.GetLabels()}
	switch x := m.(type) {
	case *corev1.Pod:
		if x == nil {
			return Obj{Kind: "nil"}
		}
		o.Kind = "pod"
		o.Node = x.Spec.NodeName
	case *corev1.Service:
		o.Kind = "service"
		o.Selector = x.Spec.Selector
	case *corev1.Event:
		o.Kind = "event"
		o.InvKind, o.InvNS, o.InvName = x.InvolvedObject.Kind, x.InvolvedObject.Namespace, x.InvolvedObject.Name
	case *corev1.Secret:
		o.Kind = "secret"
	case *corev1.Node:
		o.Kind = "node"
	case *corev1.ReplicationController:
		o.Kind = "rc"
	case *appsv1.ReplicaSet:
		o.Kind = "rs"
	case *appsv1.Deployment:
		o.Kind = "deployment"
	case *appsv1.DaemonSet:
		o.Kind = "ds"
	case *appsv1.StatefulSet:
		o.Kind = "sts"
	case *batchv1.Job:
		o.Kind = "job"
	case *netv1beta1.Ingress:
		o.Kind = "ingress"
	default:
		o.Kind = fmt.Sprintf("%T", m)
	}
	return o
}

// SortedObjs encodes a list of objects sorted by (ns, name, rv): the canonical form of anything
// that came out of a Go map.
func SortedObjs(ms []metav1.Object) string {
	ds := make([]Obj, 0, len(ms))
	for _, m := range ms {
		ds = append(ds, Describe(m))
	}
	sort.SliceStable(ds, func(i, j int) bool {
		if ds[i].NS != ds[j].NS {
			return ds[i].NS < ds[j].NS
		}
		if ds[i].Name != ds[j].Name {
			return ds[i].Name < ds[j].Name
		}
		return ds[i].RV < ds[j].RV
	})
	parts := make([]string, 0, len(ds))
	for _, d := range ds {
		parts = append(parts, d.Sx())
	}
	return L(parts...)
}

func ObjList(os []Obj) string {
	parts := make([]string, 0, len(os))
	for _, o := range os {
		parts = append(parts, o.Sx())
	}
	return L(parts...)
}

func BuildAll(os []Obj) []metav1.Object {
	r := make([]metav1.Object, 0, len(os))
	for _, o := range os {
		r = append(r, o.Build())
	}
	return r
}
