package kv

import (
	"fmt"
	"strings"

	"github.com/boz/kcache/filter"
	"github.com/boz/kcache/nsname"
	"github.com/boz/kcache/types/daemonset"
	"github.com/boz/kcache/types/deployment"
	"github.com/boz/kcache/types/event"
	"github.com/boz/kcache/types/ingress"
	"github.com/boz/kcache/types/job"
	"github.com/boz/kcache/types/pod"
	"github.com/boz/kcache/types/replicaset"
	"github.com/boz/kcache/types/replicationcontroller"
	"github.com/boz/kcache/types/service"
	"github.com/boz/kcache/types/statefulset"
	appsv1 "k8s.io/api/apps/v1"
	batchv1 "k8s.io/api/batch/v1"
	corev1 "k8s.io/api/core/v1"
	netv1beta1 "k8s.io/api/networking/v1beta1"
	metav1 "k8s.io/apimachinery/pkg/apis/meta/v1"
	"k8s.io/apimachinery/pkg/labels"
)

// Term is a filter-constructor call tree. Build() evaluates it with the library's real
// constructors, Sx() writes it for the model, which evaluates it with its own.
type Term struct {
	Op   string // null all not and or nsname labels labelsel sel fn node involved selmatch pods svcpods rcpods svcs
	Kids []Term
	IDs  [][2]string       // nsname
	Map  map[string]string // labels, selmatch
	LS   *LabelSel         // labelsel (nil = nil *LabelSelector)
	Sel  string            // sel: everything | nothing
	N    int               // fn
	Strs []string          // node names; involved: kind, ns, name
	Kind string            // pods: rs deployment ds sts job
	Ws   []Workload
	Ings []Ingress
}

type LSReq struct {
	Key, Op string // Op: In NotIn Exists DoesNotExist
	Vals    []string
}

type LabelSel struct {
	ML map[string]string
	ME []LSReq
}

type Workload struct {
	NS, Name string
	Sel      *LabelSel         // apps/batch workloads: .spec.selector
	Labels   map[string]string // template labels, or the selector map of a service / RC
}

type Ingress struct {
	NS, Default string
	Paths       []string
}

var nsnameLists = map[string][]nsname.NSName{}

var sharedLS = &metav1.LabelSelector{}
var selBuilds int
var emptyBuilds int

// labelIs(v) accepts the objects whose label l is v; (fn 10+k) is labelIs(k).
func labelIs(v string) func(metav1.Object) bool {
	return func(o metav1.Object) bool { return o.GetLabels()["l"] == v }
}

// FNHook, when set, is called by predicate 2 (constant true) before it answers: a filter that takes its time.
var FNHook func()

// FNs are the opaque predicates behind (fn i); the driver defines the same ones.
var FNs = []func(metav1.Object) bool{
	func(o metav1.Object) bool { return o.GetLabels()["l"] == "1" },
	func(o metav1.Object) bool { return o.GetName() == "a" },
	func(o metav1.Object) bool {
		if h := FNHook; h != nil {
			h()
		}
		return true
	},
	func(o metav1.Object) bool { _, ok := o.(*corev1.Pod); return ok },
}

func (ls *LabelSel) build() *metav1.LabelSelector {
	if ls == nil {
		return nil
	}
	out := &metav1.LabelSelector{}
	if ls.ML != nil {
		out.MatchLabels = map[string]string{}
		for k, v := range ls.ML {
			out.MatchLabels[k] = v
		}
	}
	for _, e := range ls.ME {
		out.MatchExpressions = append(out.MatchExpressions, metav1.LabelSelectorRequirement{
			Key: e.Key, Operator: metav1.LabelSelectorOperator(e.Op), Values: append([]string(nil), e.Vals...)})
	}
	return out
}

func (ls *LabelSel) sx() string {
	if ls == nil {
		return "nil"
	}
	mes := make([]string, 0, len(ls.ME))
	for _, e := range ls.ME {
		mes = append(mes, L(Atom(e.Key), Atom(e.Op), Strs(e.Vals)))
	}
	return L("ls", Map(ls.ML), L(mes...))
}

func (w Workload) sx() string {
	return L("w", Atom(w.NS), Atom(w.Name), w.Sel.sx(), Map(w.Labels))
}

func (t Term) Sx() string {
	switch t.Op {
	case "null", "all":
		return L(t.Op)
	case "not", "and", "or":
		parts := []string{t.Op}
		for _, k := range t.Kids {
			parts = append(parts, k.Sx())
		}
		return L(parts...)
	case "nsname":
		parts := []string{"nsname"}
		for _, id := range t.IDs {
			parts = append(parts, L(Atom(id[0]), Atom(id[1])))
		}
		return L(parts...)
	case "labels", "selmatch":
		return L(t.Op, Map(t.Map))
	case "labelsel":
		return L("labelsel", t.LS.sx())
	case "sel":
		return L("sel", t.Sel)
	case "fn":
		return L("fn", fmt.Sprint(t.N))
	case "node":
		return L("node", Strs(t.Strs))
	case "involved":
		return L("involved", Atom(t.Strs[0]), Atom(t.Strs[1]), Atom(t.Strs[2]))
	case "pods", "svcpods", "rcpods":
		parts := []string{t.Op}
		if t.Op == "pods" {
			parts = append(parts, t.Kind)
		}
		for _, w := range t.Ws {
			parts = append(parts, w.sx())
		}
		return L(parts...)
	case "svcs":
		parts := []string{"svcs"}
		for _, i := range t.Ings {
			parts = append(parts, L("ing", Atom(i.NS), Atom(i.Default), Strs(i.Paths)))
		}
		return L(parts...)
	}
	panic("Term.Sx: " + t.Op)
}

func tmpl(w Workload) corev1.PodTemplateSpec {
	return corev1.PodTemplateSpec{ObjectMeta: metav1.ObjectMeta{Labels: w.Labels}}
}

// BuildPrefixPair builds two And (or two Or) terms of which the first's children are a proper prefix of the
// second's from ONE backing array, the way a caller does who appends a condition to a slice with spare capacity
// and builds again: And(s[:k]...) and And(s...). Nothing is written to the array afterwards.
func BuildPrefixPair(a, b Term) (filter.Filter, filter.Filter, bool) {
	if a.Op != b.Op || (a.Op != "and" && a.Op != "or") || len(a.Kids) == 0 || len(a.Kids) >= len(b.Kids) {
		return nil, nil, false
	}
	for i := range a.Kids {
		if a.Kids[i].Sx() != b.Kids[i].Sx() {
			return nil, nil, false
		}
	}
	s := make([]filter.Filter, 0, len(b.Kids)+2)
	for _, k := range b.Kids {
		s = append(s, k.Build())
	}
	if a.Op == "and" {
		return filter.And(s[:len(a.Kids)]...), filter.And(s...), true
	}
	return filter.Or(s[:len(a.Kids)]...), filter.Or(s...), true
}

// Build evaluates the term with the library's constructors.
func (t Term) Build() filter.Filter {
	switch t.Op {
	case "null":
		return filter.Null()
	case "all":
		return filter.All()
	case "not":
		return filter.Not(t.Kids[0].Build())
	case "and", "or":
		kids := make([]filter.Filter, 0, len(t.Kids))
		for _, k := range t.Kids {
			kids = append(kids, k.Build())
		}
		if len(kids) == 0 {
			// no children: called without arguments (a nil slice) or with an empty list (a non-nil one), in turn
			emptyBuilds++
			if emptyBuilds%2 == 0 {
				kids = nil
			}
		}
		if t.Op == "and" {
			return filter.And(kids...)
		}
		return filter.Or(kids...)
	case "nsname":
		// like a caller that keeps its id list around: every build of the same term hands the SAME slice to the
		// constructor (a filter must not keep or modify what it was built from)
		key := t.Sx()
		ids, ok := nsnameLists[key]
		if !ok {
			ids = make([]nsname.NSName, 0, len(t.IDs))
			for _, id := range t.IDs {
				ids = append(ids, nsname.New(id[0], id[1]))
			}
			nsnameLists[key] = ids
		}
		return filter.NSName(ids...)
	case "labels":
		return filter.Labels(t.Map)
	case "labelsel":
		if t.LS == nil {
			return filter.LabelSelector(nil)
		}
		// like a caller that reuses one selector variable: every build passes the SAME address, with new content
		*sharedLS = *t.LS.build()
		return filter.LabelSelector(sharedLS)
	case "sel":
		switch t.Sel {
		case "nothing":
			return filter.Selector(labels.Nothing())
		case "everything-nil":
			// the nil requirement slice: matches everything, but is not DeepEqual to Everything()
			selBuilds++
			if selBuilds%2 == 0 {
				s, err := labels.Parse("")
				if err != nil {
					panic(err)
				}
				return filter.Selector(s)
			}
			return filter.Selector(labels.NewSelector())
		}
		return filter.Selector(labels.Everything())
	case "fn":
		if t.N >= 10 {
			// closures of ONE function literal with different captured values
			return filter.FN(labelIs(fmt.Sprint(t.N - 10)))
		}
		return filter.FN(FNs[t.N])
	case "node":
		return pod.NodeFilter(t.Strs...)
	case "involved":
		return event.InvolvedFilter(t.Strs[0], t.Strs[1], t.Strs[2])
	case "selmatch":
		return service.SelectorMatchFilter(t.Map)
	case "svcpods":
		var xs []*corev1.Service
		for _, w := range t.Ws {
			xs = append(xs, &corev1.Service{ObjectMeta: metav1.ObjectMeta{Namespace: w.NS, Name: w.Name}, Spec: corev1.ServiceSpec{Selector: w.Labels}})
		}
		return service.PodsFilter(xs...)
	case "rcpods":
		var xs []*corev1.ReplicationController
		for _, w := range t.Ws {
			xs = append(xs, &corev1.ReplicationController{ObjectMeta: metav1.ObjectMeta{Namespace: w.NS, Name: w.Name}, Spec: corev1.ReplicationControllerSpec{Selector: w.Labels}})
		}
		return replicationcontroller.PodsFilter(xs...)
	case "pods":
		switch t.Kind {
		case "rs":
			var xs []*appsv1.ReplicaSet
			for _, w := range t.Ws {
				xs = append(xs, &appsv1.ReplicaSet{ObjectMeta: metav1.ObjectMeta{Namespace: w.NS, Name: w.Name}, Spec: appsv1.ReplicaSetSpec{Selector: w.Sel.build(), Template: tmpl(w)}})
			}
			return replicaset.PodsFilter(xs...)
		case "deployment":
			var xs []*appsv1.Deployment
			for _, w := range t.Ws {
				xs = append(xs, &appsv1.Deployment{ObjectMeta: metav1.ObjectMeta{Namespace: w.NS, Name: w.Name}, Spec: appsv1.DeploymentSpec{Selector: w.Sel.build(), Template: tmpl(w)}})
			}
			return deployment.PodsFilter(xs...)
		case "ds":
			var xs []*appsv1.DaemonSet
			for _, w := range t.Ws {
				xs = append(xs, &appsv1.DaemonSet{ObjectMeta: metav1.ObjectMeta{Namespace: w.NS, Name: w.Name}, Spec: appsv1.DaemonSetSpec{Selector: w.Sel.build(), Template: tmpl(w)}})
			}
			return daemonset.PodsFilter(xs...)
		case "sts":
			var xs []*appsv1.StatefulSet
			for _, w := range t.Ws {
				xs = append(xs, &appsv1.StatefulSet{ObjectMeta: metav1.ObjectMeta{Namespace: w.NS, Name: w.Name}, Spec: appsv1.StatefulSetSpec{Selector: w.Sel.build(), Template: tmpl(w)}})
			}
			return statefulset.PodsFilter(xs...)
		case "job":
			var xs []*batchv1.Job
			for _, w := range t.Ws {
				j := &batchv1.Job{ObjectMeta: metav1.ObjectMeta{Namespace: w.NS, Name: w.Name}, Spec: batchv1.JobSpec{Selector: w.Sel.build(), Template: tmpl(w)}}
				if strings.HasSuffix(w.Name, "2") {
					// a finished job: what it selects does not depend on its status
					now := metav1.Now()
					j.Status = batchv1.JobStatus{CompletionTime: &now, Succeeded: 1}
				}
				xs = append(xs, j)
			}
			return job.PodsFilter(xs...)
		}
	case "svcs":
		var xs []*netv1beta1.Ingress
		for n, i := range t.Ings {
			ing := &netv1beta1.Ingress{ObjectMeta: metav1.ObjectMeta{Namespace: i.NS, Name: fmt.Sprintf("ing%d", n)}}
			if i.Default != "" {
				ing.Spec.Backend = &netv1beta1.IngressBackend{ServiceName: i.Default}
			} else if n%2 == 1 {
				ing.Spec.Backend = &netv1beta1.IngressBackend{} // present but unnamed: skipped
			}
			// spread the paths over two rules, plus one rule without HTTP
			rules := []netv1beta1.IngressRule{{}, {IngressRuleValue: netv1beta1.IngressRuleValue{HTTP: &netv1beta1.HTTPIngressRuleValue{}}}, {IngressRuleValue: netv1beta1.IngressRuleValue{HTTP: &netv1beta1.HTTPIngressRuleValue{}}}}
			for j, p := range i.Paths {
				r := 1
				if j >= (len(i.Paths)+1)/2 {
					r = 2
				}
				rules[r].HTTP.Paths = append(rules[r].HTTP.Paths, netv1beta1.HTTPIngressPath{Backend: netv1beta1.IngressBackend{ServiceName: p}})
			}
			ing.Spec.Rules = rules
			xs = append(xs, ing)
		}
		return ingress.ServicesFilter(xs...)
	}
	panic("Term.Build: " + t.Op + "/" + t.Kind)
}
