package kv

import (
	"context"
	"errors"
	"fmt"
	apierrors "k8s.io/apimachinery/pkg/api/errors"
	"sort"
	"strconv"
	"sync"
	"sync/atomic"
	"time"

	corev1 "k8s.io/api/core/v1"
	metav1 "k8s.io/apimachinery/pkg/apis/meta/v1"
	"k8s.io/apimachinery/pkg/runtime"
	"k8s.io/apimachinery/pkg/watch"
)

// Server is a fake API server for one resource (pods): a versioned history, List returning the
// current state with its resource version, Watch(v) replaying in order every change after v and
// then following the history. Faults are injected through the plan fields. It implements
// client.Client. All methods are safe for concurrent use; inside a synctest bubble every wait is
// on bubble-local channels/timers.
type Server struct {
	mu       sync.Mutex
	rv       int
	objs     map[string]Obj
	history  []WatchRec
	watchers []*SrvWatch

	// ListLatency delays every List (respecting ctx).
	ListLatency time.Duration
	// ListGate, when non-nil, blocks every List until a value is received (or ctx is done).
	ListGate chan struct{}
	// ListFault, when non-nil, may replace the n-th (1-based) List's result.
	ListFault func(n int) (runtime.Object, error, bool)
	// WatchFault, when non-nil, decides what the n-th (1-based) Watch call does.
	WatchFault func(n int, rv string) WatchMode
	// Kind selects the list type returned (default pod).
	Kind string
	// StaleList makes List take its snapshot when the call arrives, before the gate and the latency: the answer
	// is then as old as the call took (a list slower than the watch).
	StaleList bool
	// EmptyListRV makes List answer with an empty ListMeta.ResourceVersion (the objects keep their versions); a
	// Watch from "" starts at the server's current version.
	EmptyListRV bool
	// frozen, when set, is what the next List to complete answers with (the state at the moment Freeze was called)
	frozen *frozenList
	// CancelLag makes a call that was waiting when its context got cancelled return only that much later (a client
	// that is slow to give up)
	CancelLag time.Duration
	// Blocked counts Watch calls that are blocked until their context is cancelled (WatchBlock).
	Blocked atomic.Int32
	// Mixed makes List return a generic metav1.List of all stored objects, whatever their kinds.
	Mixed bool
	// RVStep spaces resource versions (default 1).
	RVStep int

	Lists     []ListCall
	Watches   []WatchCall
	active    int // lists in flight
	MaxActive int
}

type WatchMode int

const (
	WatchOK    WatchMode = iota
	WatchError           // Watch returns an error
	WatchBlock           // Watch blocks until its context is cancelled, then returns the context's error
)

type WatchRec struct {
	RV   int
	Type watch.EventType
	Obj  Obj
}

type ListCall struct {
	At       time.Time
	Done     time.Time
	RV       string
	Canceled bool
}

type WatchCall struct {
	At time.Time
	RV string
}

type frozenList struct {
	objs []Obj
	rv   string
}

// Freeze fixes the answer of the next List to complete to the server's present state: changes applied from now on
// are strictly after that list, whatever the scheduler does with the goroutine that serves it.
func (s *Server) Freeze() {
	s.mu.Lock()
	s.frozen = &frozenList{s.stateLocked(), strconv.Itoa(s.rv)}
	s.mu.Unlock()
}

func NewServer() *Server { return &Server{objs: map[string]Obj{}, RVStep: 1} }

// StartAt makes the server hand out resource versions above rv (before any change is applied).
func (s *Server) StartAt(rv int) {
	s.mu.Lock()
	s.rv = rv
	s.mu.Unlock()
}

func (s *Server) bump() int {
	s.rv += s.RVStep
	return s.rv
}

// Apply performs one server-side change and returns the object as stored (with its new version).
func (s *Server) Apply(t watch.EventType, o Obj) Obj {
	s.mu.Lock()
	defer s.mu.Unlock()
	o.RV = strconv.Itoa(s.bump())
	// one UID per incarnation, as an API server hands them out
	if cur, ok := s.objs[o.Key()]; ok {
		o.UID = cur.UID
	} else {
		o.UID = "u" + o.RV
	}
	switch t {
	case watch.Deleted:
		delete(s.objs, o.Key())
	default:
		s.objs[o.Key()] = o
	}
	rec := WatchRec{RV: s.rv, Type: t, Obj: o}
	s.history = append(s.history, rec)
	for _, w := range s.watchers {
		w.push(rec)
	}
	return o
}

// Has reports whether the key exists and returns it.
func (s *Server) Get(key string) (Obj, bool) {
	s.mu.Lock()
	defer s.mu.Unlock()
	o, ok := s.objs[key]
	return o, ok
}

// State returns the current objects sorted by key, and the current version.
func (s *Server) State() ([]Obj, int) {
	s.mu.Lock()
	defer s.mu.Unlock()
	return s.stateLocked(), s.rv
}

func (s *Server) stateLocked() []Obj {
	keys := make([]string, 0, len(s.objs))
	for k := range s.objs {
		keys = append(keys, k)
	}
	sort.Strings(keys)
	out := make([]Obj, 0, len(keys))
	for _, k := range keys {
		out = append(out, s.objs[k])
	}
	return out
}

func PodList(objs []Obj, rv string) *corev1.PodList {
	l := &corev1.PodList{TypeMeta: metav1.TypeMeta{Kind: "PodList", APIVersion: "v1"}, ListMeta: metav1.ListMeta{ResourceVersion: rv}}
	for _, o := range objs {
		p := o.Build().(*corev1.Pod)
		l.Items = append(l.Items, *p)
	}
	return l
}

func (s *Server) List(ctx context.Context, opts metav1.ListOptions) (runtime.Object, error) {
	s.mu.Lock()
	n := len(s.Lists)
	s.Lists = append(s.Lists, ListCall{At: time.Now()})
	s.active++
	if s.active > s.MaxActive {
		s.MaxActive = s.active
	}
	gate, lat, fault := s.ListGate, s.ListLatency, s.ListFault
	staleObjs, staleRV := s.stateLocked(), strconv.Itoa(s.rv)
	s.mu.Unlock()
	finish := func(rv string, canceled bool) {
		s.mu.Lock()
		s.Lists[n].Done, s.Lists[n].RV, s.Lists[n].Canceled = time.Now(), rv, canceled
		s.active--
		s.mu.Unlock()
	}
	if gate != nil {
		select {
		case <-gate:
		case <-ctx.Done():
			finish("", true)
			return nil, ctx.Err()
		}
	}
	if lat > 0 {
		t := time.NewTimer(lat)
		select {
		case <-t.C:
		case <-ctx.Done():
			t.Stop()
			finish("", true)
			return nil, ctx.Err()
		}
	}
	if fault != nil {
		if obj, err, ok := fault(n + 1); ok {
			finish("fault", false)
			return obj, err
		}
	}
	s.mu.Lock()
	objs, rv := s.stateLocked(), strconv.Itoa(s.rv)
	if s.frozen != nil {
		objs, rv = s.frozen.objs, s.frozen.rv
		s.frozen = nil
	}
	s.mu.Unlock()
	if s.StaleList {
		objs, rv = staleObjs, staleRV
	}
	finish(rv, false)
	if s.EmptyListRV {
		rv = ""
	}
	if s.Mixed {
		l := &metav1.List{ListMeta: metav1.ListMeta{ResourceVersion: rv}}
		for _, o := range objs {
			l.Items = append(l.Items, runtime.RawExtension{Object: o.Build().(runtime.Object)})
		}
		return l, nil
	}
	kind := s.Kind
	if kind == "" {
		kind = "pod"
	}
	return TypedList(kind, objs, rv), nil
}

var ErrWatchConnect = errors.New("fake server: watch connect error")

func (s *Server) Watch(ctx context.Context, opts metav1.ListOptions) (watch.Interface, error) {
	s.mu.Lock()
	s.Watches = append(s.Watches, WatchCall{At: time.Now(), RV: opts.ResourceVersion})
	n := len(s.Watches)
	fault := s.WatchFault
	s.mu.Unlock()
	mode := WatchOK
	if fault != nil {
		mode = fault(n, opts.ResourceVersion)
	}
	switch mode {
	case WatchError:
		// connect errors of the kinds a REST client produces: a plain error, or an API status (410 Gone / expired
		// resource version, possibly wrapped) — all of them just a failed connect for the caller
		switch len(s.Watches) % 3 {
		case 1:
			return nil, apierrors.NewResourceExpired("too old resource version")
		case 2:
			return nil, fmt.Errorf("fake server: %w", apierrors.NewGone("gone"))
		}
		return nil, ErrWatchConnect
	case WatchBlock:
		s.Blocked.Add(1)
		<-ctx.Done()
		time.Sleep(s.CancelLag)
		s.Blocked.Add(-1)
		return nil, ctx.Err()
	}
	from, err := strconv.Atoi(opts.ResourceVersion)
	if opts.ResourceVersion == "" {
		s.mu.Lock()
		from, err = s.rv, nil
		s.mu.Unlock()
	}
	if err != nil {
		return nil, fmt.Errorf("fake server: bad resourceVersion %q", opts.ResourceVersion)
	}
	w := &SrvWatch{srv: s, ch: make(chan watch.Event), wake: make(chan struct{}, 1), stop: make(chan struct{})}
	s.mu.Lock()
	for _, rec := range s.history {
		if rec.RV > from {
			w.queue = append(w.queue, rec.event())
		}
	}
	s.watchers = append(s.watchers, w)
	s.mu.Unlock()
	go w.run()
	return w, nil
}

func (r WatchRec) event() watch.Event {
	return watch.Event{Type: r.Type, Object: r.Obj.Build().(runtime.Object)}
}

// SrvWatch is one watch stream.
type SrvWatch struct {
	srv     *Server
	mu      sync.Mutex
	queue   []watch.Event
	closing bool // close the stream once the queue is drained
	ch      chan watch.Event
	wake    chan struct{}
	stop    chan struct{}
	once    sync.Once
}

func (w *SrvWatch) push(rec WatchRec) { w.Inject(rec.event()) }

// Inject appends a raw frame (used for status/bookmark/non-object frames and duplicates).
func (w *SrvWatch) Inject(e watch.Event) {
	w.mu.Lock()
	if !w.closing {
		w.queue = append(w.queue, e)
	}
	w.mu.Unlock()
	select {
	case w.wake <- struct{}{}:
	default:
	}
}

// CloseStream ends the stream after everything queued so far has been delivered.
func (w *SrvWatch) CloseStream() {
	w.mu.Lock()
	w.closing = true
	w.mu.Unlock()
	select {
	case w.wake <- struct{}{}:
	default:
	}
}

func (w *SrvWatch) run() {
	defer close(w.ch)
	for {
		w.mu.Lock()
		var next *watch.Event
		if len(w.queue) > 0 {
			e := w.queue[0]
			w.queue = w.queue[1:]
			next = &e
		}
		closing := w.closing
		w.mu.Unlock()
		if next == nil {
			if closing {
				w.detach()
				return
			}
			select {
			case <-w.wake:
				continue
			case <-w.stop:
				w.detach()
				return
			}
		}
		select {
		case w.ch <- *next:
		case <-w.stop:
			w.detach()
			return
		}
	}
}

func (w *SrvWatch) detach() {
	s := w.srv
	s.mu.Lock()
	for i, x := range s.watchers {
		if x == w {
			s.watchers = append(s.watchers[:i], s.watchers[i+1:]...)
			break
		}
	}
	s.mu.Unlock()
}

func (w *SrvWatch) Stop()                          { w.once.Do(func() { close(w.stop) }) }
func (w *SrvWatch) ResultChan() <-chan watch.Event { return w.ch }

// LiveWatches returns the streams currently attached.
func (s *Server) LiveWatches() []*SrvWatch {
	s.mu.Lock()
	defer s.mu.Unlock()
	return append([]*SrvWatch(nil), s.watchers...)
}

// Mu runs f with the server's lock held (to read the call logs consistently).
func (s *Server) Mu(f func()) {
	s.mu.Lock()
	defer s.mu.Unlock()
	f()
}

func (s *Server) Counts() (lists, watches int) {
	s.mu.Lock()
	defer s.mu.Unlock()
	return len(s.Lists), len(s.Watches)
}
