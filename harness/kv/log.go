package kv

import (
	logutil "github.com/boz/go-logutil"
)

// Log is the harness's logutil.Log: silent, and optionally a schedule-perturbation point — Hook is
// called with (component, format) at every log call of the library.
type Log struct {
	Component string
	Hook      func(component, format string)
}

var _ logutil.Log = (*Log)(nil)

func (l *Log) hit(f string) {
	if l.Hook != nil {
		l.Hook(l.Component, f)
	}
}

func (l *Log) WithComponent(c string) logutil.Log {
	n := c
	if l.Component != "" {
		n = l.Component + "/" + c
	}
	return &Log{Component: n, Hook: l.Hook}
}
func (l *Log) Trace(f string, _ ...interface{}) string { l.hit(f); return "" }
func (l *Log) Un(string)                               {}
func (l *Log) Debugf(f string, _ ...interface{})       { l.hit(f) }
func (l *Log) Infof(f string, _ ...interface{})        { l.hit(f) }
func (l *Log) Warnf(f string, _ ...interface{})        { l.hit(f) }
func (l *Log) Errorf(f string, _ ...interface{})       { l.hit(f) }
func (l *Log) Fatalf(f string, _ ...interface{})       { l.hit(f) }
func (l *Log) ErrWarn(err error, f string, _ ...interface{}) error {
	l.hit(f)
	return err
}
func (l *Log) ErrFatal(err error, f string, _ ...interface{}) error {
	l.hit(f)
	return err
}
func (l *Log) Err(err error, f string, _ ...interface{}) error {
	l.hit(f)
	return err
}
